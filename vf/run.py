"""CLI:  python -m vf.run <ID> [quick|thorough] [--replay FILE]

exit 0  property held on everything explored (KNOWN-FINDING lines possible)
exit 1  VIOLATION property=<id> replay=<path>
exit 2  harness error (never reported as a violation)
"""

from __future__ import annotations

import importlib
import json
import os
import sys
import time
import traceback


def _reexec_if_needed():
    if os.environ.get("PYTHONHASHSEED") != "0":
        os.environ["PYTHONHASHSEED"] = "0"
        os.execv(sys.executable, [sys.executable, "-m", "vf.run"] + sys.argv[1:])


def _setup_paths():
    from . import core

    repo = core.REPO
    if not os.path.isdir(os.path.join(repo, "dulwich")):
        raise core.HarnessError(f"no dulwich package under {repo}")
    sys.path.insert(0, repo)
    os.environ.setdefault("DULWICH_VERIF", "1")
    os.environ["RUST_BACKTRACE"] = "0"  # symbolised backtraces are slow and allocate; panics are observed as exceptions


def _check_dulwich_origin():
    from . import core
    import dulwich

    src = os.path.realpath(os.path.dirname(dulwich.__file__))
    want = os.path.realpath(os.path.join(core.REPO, "dulwich"))
    if src != want:
        raise core.HarnessError(f"dulwich imported from {src}, expected {want}")


def main(argv):
    from . import core

    args = []
    replay_file = None
    it = iter(argv)
    for a in it:
        if a == "--replay":
            replay_file = next(it, None)
        elif not a.startswith("--"):
            args.append(a)
    if not args:
        print(__doc__)
        return 2
    prop = args[0].upper()
    tier = args[1] if len(args) > 1 else os.environ.get("VERIF_TIER", "quick")
    if tier not in ("quick", "thorough"):
        print(f"unknown tier {tier!r}")
        return 2
    try:
        seed = int(os.environ.get("VERIF_SEED", "1") or "1")
    except ValueError:
        seed = 1

    t0 = time.time()
    ctx = None
    try:
        _setup_paths()
        mod = importlib.import_module(f"vf.props.{prop.lower()}")
        needs_rust = getattr(mod, "NEEDS_RUST", True)  # default: rebuild the extensions from the working tree
        if needs_rust:
            from . import rustext

            rustext.build_and_install()
        _check_dulwich_origin()
        ctx = core.Ctx(prop, tier, seed)
        ctx.auto_twins = bool(needs_rust and getattr(mod, "AUTO_TWINS", True))

        # -- single replay ----------------------------------------------------
        if replay_file is not None:
            with open(replay_file) as f:
                rec = json.load(f)
            mod.replay(ctx, rec["check"], core.dec(rec["case"]))
            ctx.cleanup()
            if ctx.violations:
                for b, v in ctx.violations.items():
                    print(f"  bucket={b}: {v['message']}")
                print(f"VIOLATION property={prop} replay={replay_file}")
                return 1
            print(f"replay {replay_file}: no violation")
            return 0

        # -- replay tier --------------------------------------------------------
        nviol = 0
        out_lines = []
        for e in core.load_known(prop):
            sub = core.Ctx(prop, tier, seed)
            mod.replay(sub, e["check"], core.dec(e["case"]))
            sub.cleanup()
            ctx.evaluations += 1
            reproduced = e["bucket"] in sub.violations
            if e["status"] == "open":
                if reproduced:
                    out_lines.append(f"KNOWN-FINDING: property={prop} {e['what']} [bucket={e['bucket']}]")
                    ctx.known_open[e["bucket"]] = e
                other = {b: v for b, v in sub.violations.items() if b != e["bucket"]}
            else:  # fixed: a regression input, suppresses nothing
                other = sub.violations
            for b, v in other.items():
                ctx.record_violation(b, v["message"], v["check"], v["case"])
        for path, rec in core.load_replays(prop):
            sub = core.Ctx(prop, tier, seed)
            sub.known_open = ctx.known_open
            mod.replay(sub, rec["check"], core.dec(rec["case"]))
            sub.cleanup()
            ctx.evaluations += 1
            ctx.label("replay-file")
            for b, v in sub.violations.items():
                ctx.record_violation(b, v["message"], v["check"], v["case"])
            ctx.excluded.update(sub.excluded)

        # -- search tier ----------------------------------------------------------
        mod.run(ctx)
        ctx.cleanup()

        wall = time.time() - t0
        paths = []
        for b, v in sorted(ctx.violations.items()):
            p = core.write_replay(prop, b, v, seed)
            paths.append((b, v, p))
        nviol = len(paths)
        evpath, ev = core.write_evidence(ctx, mod, wall, nviol)
        for l in out_lines:
            print(l)
        cov = ev["coverage"]
        print(
            f"{prop} {tier} seed={seed}: evaluations={cov['evaluations']} "
            f"distinct_nontrivial={cov['distinct_nontrivial']} wall={wall:.1f}s "
            f"excluded_known={sum(ctx.excluded.values())}"
        )
        if cov["distinct_nontrivial"] < 2 or cov["evaluations"] < 1:
            print("HARNESS-ERROR: generator produced no non-trivial cases")
            return 2
        if paths:
            for i, (b, v, p) in enumerate(paths):
                if i < 25:
                    print(f"  bucket={b} count={v['count']}: {v['message'][:600]}")
                print(f"VIOLATION property={prop} replay={p}")
            return 1
        return 0
    except core.HarnessError as e:
        print(f"HARNESS-ERROR: {e}")
        return 2
    except Exception:
        traceback.print_exc()
        print("HARNESS-ERROR: unexpected exception in the checking machinery")
        return 2
    finally:
        try:
            if ctx is not None:
                ctx.cleanup()  # the parent's scratch directory must not leak on the error paths either
        except Exception:
            pass


if __name__ == "__main__":
    _reexec_if_needed()
    sys.stdout.reconfigure(line_buffering=True)
    code = main(sys.argv[1:])
    sys.stdout.flush()
    sys.exit(code)
