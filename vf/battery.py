"""Repository-level battery for C15: `python -m vf.battery pure|rust <seed> <n>` prints JSON.

The same deterministic scenarios are run with the Rust extensions loaded and
with them forced off; the caller compares the two outputs.
"""

from __future__ import annotations

import hashlib
import json
import os
import random
import shutil
import sys
import tempfile


def scenario(rnd, tmp):
    from dulwich.diff_tree import RenameDetector, tree_changes
    from dulwich.index import commit_tree
    from dulwich.object_store import MemoryObjectStore, iter_tree_contents
    from dulwich.objects import Blob, Commit, Tree
    from dulwich.pack import Pack, write_pack

    store = MemoryObjectStore()
    names = [b"a", b"a.b", b"a-", b"a0", b"ab", b"a/b", b"a/c", b"a/b2/x", b"d/e/f", b"z", b"\xffhi", b"sp ace", b"a.b/c"]
    files = {}
    res = dict(commits=[], trees=[], changes=[], renames=[], listing=[], pack=[], reparsed=[])
    parent = None
    prev_tree = None
    all_objs = []
    for step in range(rnd.randint(3, 6)):
        for _ in range(rnd.randint(1, 4)):
            op = rnd.random()
            if op < 0.55 or not files:
                n = rnd.choice(names)
                # keep the listing consistent: a path is never both a file and a directory prefix
                if any(o == n or o.startswith(n + b"/") or n.startswith(o + b"/") for o in files if o != n):
                    continue
                body = b"".join(rnd.choice([b"line %d\n" % rnd.randint(0, 9), b"x" * rnd.choice([1, 63, 64, 65]) + b"\n", b"tail"]) for _ in range(rnd.randint(0, 12)))
                files[n] = (rnd.choice([0o100644, 0o100755, 0o120000]), body)
            elif op < 0.75:
                del files[rnd.choice(sorted(files))]
            else:  # rename (exact or with a small edit) -> exercises rename detection / _count_blocks
                src = rnd.choice(sorted(files))
                dst = rnd.choice(names)
                if dst in files or any(o.startswith(dst + b"/") or dst.startswith(o + b"/") for o in files):
                    continue
                mode, body = files.pop(src)
                if rnd.random() < 0.5:
                    body += b"edited\n"
                files[dst] = (mode, body)
        blobs = []
        for path, (mode, body) in sorted(files.items()):
            b = Blob.from_string(body)
            store.add_object(b)
            all_objs.append(b)
            blobs.append((path, b.id, mode))
        tid = commit_tree(store, blobs)
        c = Commit()
        c.tree = tid
        c.parents = [parent] if parent else []
        c.author = c.committer = b"A <a@example.com>"
        c.author_time = c.commit_time = 1000 + step
        c.author_timezone = c.commit_timezone = 0
        c.message = b"step %d\n" % step
        store.add_object(c)
        all_objs.append(c)
        res["commits"].append(c.id.decode())
        res["trees"].append(tid.decode())
        if prev_tree is not None:
            res["changes"].append([repr(ch) for ch in tree_changes(store, prev_tree, tid, want_unchanged=bool(step & 1), include_trees=bool(step & 2))])
            res["renames"].append([repr(ch) for ch in tree_changes(store, prev_tree, tid, rename_detector=RenameDetector(store, find_copies_harder=bool(step & 1)))])
        res["listing"].append([repr(tuple(e)) for e in iter_tree_contents(store, tid, include_trees=True)])
        prev_tree, parent = tid, c.id
    # every object of the store through a deltified pack and back
    objs = {}
    for oid in store:
        objs[oid] = store[oid]
    base = os.path.join(tmp, "p%d" % rnd.randint(0, 1 << 30))
    from dulwich.object_format import DEFAULT_OBJECT_FORMAT

    write_pack(base, [(o, None) for o in objs.values()], DEFAULT_OBJECT_FORMAT, deltify=True, delta_window_size=5)
    p = Pack(base, object_format=DEFAULT_OBJECT_FORMAT)
    try:
        res["pack"] = sorted((o.id.decode(), o.type_name.decode(), hashlib.sha1(o.as_raw_string()).hexdigest()) for o in p.iterobjects())
    finally:
        p.close()
    for oid, o in sorted(objs.items()):
        if isinstance(o, Tree):
            t = Tree.from_raw_string(Tree.type_num, o.as_raw_string())
            res["reparsed"].append([repr(tuple(i)) for i in t.items()] + [t.id.decode()])
    return res


def main():
    mode, seed, n = sys.argv[1], int(sys.argv[2]), int(sys.argv[3])
    repo = os.environ.get("VERIF_REPO", "/repo")
    sys.path.insert(0, repo)
    from vf import rustext

    if mode == "pure":
        rustext.force_pure()
    else:
        rustext.install()
    import dulwich.diff_tree
    import dulwich.objects
    import dulwich.pack

    is_rust = type(dulwich.objects.parse_tree).__name__ == "builtin_function_or_method"
    rnd = random.Random(seed)
    tmp = tempfile.mkdtemp(prefix="vf-battery-", dir="/dev/shm" if os.path.isdir("/dev/shm") else "/var/tmp")
    try:
        results = [scenario(rnd, tmp) for _ in range(n)]
    finally:
        shutil.rmtree(tmp, ignore_errors=True)
    json.dump(dict(mode="rust" if is_rust else "pure", results=results), sys.stdout)


if __name__ == "__main__":
    main()
