"""E4 — hermetic C git subprocess helpers."""

from __future__ import annotations

import os
import shutil
import subprocess

from .core import HarnessError

GIT = shutil.which("git") or "/usr/bin/git"

_BASE_ENV = {
    "PATH": os.environ.get("PATH", "/usr/bin:/bin"),
    "GIT_CONFIG_NOSYSTEM": "1",
    "GIT_CONFIG_GLOBAL": "/dev/null",
    "GIT_AUTHOR_NAME": "A U Thor",
    "GIT_AUTHOR_EMAIL": "author@example.com",
    "GIT_AUTHOR_DATE": "1000000000 +0000",
    "GIT_COMMITTER_NAME": "C O Mitter",
    "GIT_COMMITTER_EMAIL": "committer@example.com",
    "GIT_COMMITTER_DATE": "1000000000 +0000",
    "LC_ALL": "C",
    "TZ": "UTC",
    "GIT_TERMINAL_PROMPT": "0",
    "GIT_OPTIONAL_LOCKS": "0",
    "HOME": "/nonexistent",
}

_COMMON = ["-c", "gc.auto=0", "-c", "maintenance.auto=false", "-c", "core.fsync=none", "-c", "advice.detachedHead=false"]


def env(extra=None):
    e = dict(_BASE_ENV)
    if extra:
        e.update(extra)
    return e


def git(args, cwd=None, input=None, check=True, extra_env=None, raw=False):
    """Run git; returns (returncode, stdout, stderr) as bytes."""
    cmd = [GIT] + _COMMON + list(args)
    p = subprocess.run(cmd, cwd=cwd, input=input, capture_output=True, env=env(extra_env))
    if check and p.returncode != 0:
        raise GitError(cmd, p.returncode, p.stdout, p.stderr)
    return p.returncode, p.stdout, p.stderr


class GitError(Exception):
    def __init__(self, cmd, rc, out, err):
        super().__init__(f"git {' '.join(map(str, cmd[len(_COMMON) + 1:]))!r} exited {rc}: {err[:400]!r}")
        self.rc = rc
        self.out = out
        self.err = err


def out(args, cwd=None, input=None, **kw):
    return git(args, cwd=cwd, input=input, **kw)[1]


def init(path, bare=False, object_format=None, branch="master"):
    args = ["init", "-q", "-b", branch]
    if bare:
        args.append("--bare")
    if object_format:
        args.append(f"--object-format={object_format}")
    args.append(path)
    git(args)
    return path


def version():
    return out(["--version"]).decode().strip()


def selfcheck():
    try:
        v = version()
    except Exception as e:  # pragma: no cover
        raise HarnessError(f"git not usable: {e}")
    return v


def cat_file_batch(repo, ids):
    """Return {hexid: (type, bytes)} for ids (hex bytes) via one process."""
    inp = b"".join(i + b"\n" for i in ids)
    data = out(["cat-file", "--batch"], cwd=repo, input=inp)
    res = {}
    pos = 0
    for i in ids:
        nl = data.index(b"\n", pos)
        head = data[pos:nl].split(b" ")
        pos = nl + 1
        if head[-1] == b"missing":
            res[i] = None
            continue
        size = int(head[2])
        res[head[0]] = (head[1], data[pos : pos + size])
        pos += size + 1
    return res


def fsck(repo, *args):
    rc, o, e = git(["fsck", *args], cwd=repo, check=False)
    return rc, o + e
