"""E1 — crash-isolating execution.

``isolated(ctx, fn, cases, on_death)`` runs ``fn(subctx, case)`` for every case
in a forked child.  The child publishes the index of the case it is about to
run in shared memory, so when it dies (SIGSEGV, SIGABRT from a Rust allocation
failure or panic=abort, OOM) the parent knows exactly which case killed it,
reports that through ``on_death`` and re-runs the remaining cases in a fresh
child.  "Never kills the process" thereby becomes an observable outcome.

``mem_limit(allowance)`` bounds the address space *growth* of the enclosed
call: RLIMIT_AS is set to the current VmSize plus the allowance, so an
allocation out of proportion surfaces as MemoryError (Python) or abort (Rust)
instead of as a slow machine.
"""

from __future__ import annotations

import contextlib
import mmap
import os
import pickle
import resource
import select
import signal
import struct
import sys
import time
import traceback

from .core import HarnessError

WATCHDOG_S = 120


def vm_size() -> int:
    with open("/proc/self/statm") as f:
        return int(f.read().split()[0]) * resource.getpagesize()


@contextlib.contextmanager
def mem_limit(allowance: int):
    soft, hard = resource.getrlimit(resource.RLIMIT_AS)
    lim = vm_size() + allowance
    if hard != resource.RLIM_INFINITY:
        lim = min(lim, hard)
    resource.setrlimit(resource.RLIMIT_AS, (lim, hard))
    try:
        yield
    finally:
        resource.setrlimit(resource.RLIMIT_AS, (soft, hard))


def _child(ctx, fn, cases, start, slot, wfd):
    sub = ctx.child(ctx.shard)
    sub.raise_mode = False
    try:
        for i in range(start, len(cases)):
            struct.pack_into("q", slot, 0, i)
            fn(sub, cases[i])
        struct.pack_into("q", slot, 0, len(cases))
        out = ("ok", sub.export())
    except BaseException:
        out = ("err", traceback.format_exc())
    finally:
        sub.cleanup()
        ctx.cleanup()  # this process's copy of the parent context may have created a scratch directory of its own
    data = pickle.dumps(out)
    with os.fdopen(wfd, "wb") as w:
        w.write(data)
    sys.stdout.flush()
    os._exit(0)


def isolated(ctx, fn, cases, on_death, max_deaths=50):
    """Run fn(subctx, case) for each case with crash isolation.

    on_death(ctx, case, how) is called in the parent for a case that killed the
    child; ``how`` is e.g. "signal 6" or "exit 101" or "watchdog".  Results of the
    cases a dead child had completed are re-computed (cases are deterministic).
    """
    cases = list(cases)
    start = 0
    deaths = 0
    skip = set()
    while start < len(cases):
        slot = mmap.mmap(-1, 8)
        struct.pack_into("q", slot, 0, -1)
        r, w = os.pipe()
        pid = os.fork()
        if pid == 0:
            os.close(r)
            todo = cases
            _child(ctx, lambda c, case: None if id(case) in skip else fn(c, case), todo, start, slot, w)
        os.close(w)
        chunks = []
        deadline = time.time() + WATCHDOG_S
        timed_out = False
        while True:
            left = deadline - time.time()
            if left <= 0:
                timed_out = True
                os.kill(pid, signal.SIGKILL)
                break
            rl, _, _ = select.select([r], [], [], min(left, 5))
            if rl:
                b = os.read(r, 1 << 20)
                if not b:
                    break
                chunks.append(b)
                deadline = time.time() + WATCHDOG_S
        os.close(r)
        _, status = os.waitpid(pid, 0)
        at = struct.unpack_from("q", slot, 0)[0]
        slot.close()
        data = b"".join(chunks)
        if data and not timed_out:
            kind, payload = pickle.loads(data)
            if kind == "ok":
                ctx.merge(payload)
                return
            raise HarnessError("isolated child failed:\n" + payload)
        # the child died (or hung) while running case `at`
        if at < 0 or at >= len(cases):
            raise HarnessError(f"isolated child died outside a case (status {status})")
        if timed_out:
            how = "watchdog"
            ctx.inconclusive = True
        elif os.WIFSIGNALED(status):
            how = f"signal {os.WTERMSIG(status)}"
        else:
            how = f"exit {os.WEXITSTATUS(status)}"
        deaths += 1
        if how != "watchdog":
            on_death(ctx, cases[at], how)
        else:
            ctx.label("watchdog-inconclusive")
        if deaths >= max_deaths:
            ctx.inconclusive = True
            ctx.notes.append(f"isolated(): gave up after {deaths} child deaths")
            return
        # re-run everything from `start` except the killers (results of a dead child are lost)
        skip.add(id(cases[at]))
