"""Rebuild the Rust extensions from the working tree and make dulwich use them.

The freshly built libraries are copied to /verif/.build/ext-<hash>/dulwich/ and
that directory is prepended to ``dulwich.__path__`` *before* any dulwich
submodule is imported, so they shadow whatever stale ``/repo/dulwich/_*.so``
exists.  /repo itself is never written to.
"""

from __future__ import annotations

import fcntl
import hashlib
import os
import shutil
import subprocess
import sys
import sysconfig

from .core import REPO, VERIF_DIR, HarnessError

BUILD = os.path.join(VERIF_DIR, ".build")
_CRATES = {"objects_py": "_objects", "pack_py": "_pack", "diff_tree_py": "_diff_tree"}


def _tag():
    return hashlib.sha1(os.path.realpath(REPO).encode()).hexdigest()[:10]


def ext_dir(profile="debug"):
    return os.path.join(BUILD, f"ext-{_tag()}-{profile}", "dulwich")


def build(profile="debug"):
    os.makedirs(BUILD, exist_ok=True)
    target = os.path.join(BUILD, f"target-{_tag()}")
    env = dict(os.environ)
    env.update(PYO3_PYTHON=sys.executable, CARGO_NET_OFFLINE="true", CARGO_TARGET_DIR=target)
    cmd = ["cargo", "build", "--offline", "--quiet", "--manifest-path", os.path.join(REPO, "Cargo.toml")]
    if profile == "release":
        cmd.append("--release")
    with open(os.path.join(BUILD, "lock"), "w") as lk:
        fcntl.flock(lk, fcntl.LOCK_EX)
        p = subprocess.run(cmd, env=env, capture_output=True, text=True)
        if p.returncode != 0:
            raise HarnessError(f"cargo build failed:\n{p.stderr[-3000:]}")
        out = ext_dir(profile)
        os.makedirs(out, exist_ok=True)
        suffix = sysconfig.get_config_var("EXT_SUFFIX")
        for lib, mod in _CRATES.items():
            src = os.path.join(target, profile, f"lib{lib}.so")
            if not os.path.exists(src):
                raise HarnessError(f"cargo build did not produce {src}")
            dst = os.path.join(out, mod + suffix)
            tmp = dst + f".tmp{os.getpid()}"
            shutil.copyfile(src, tmp)
            os.replace(tmp, dst)
    return out


def install(profile="debug"):
    """Prepend the built extension directory to dulwich.__path__."""
    for name in list(sys.modules):
        if name.startswith("dulwich.") and name != "dulwich":
            raise HarnessError(f"rustext.install() called after {name} was imported")
    import dulwich

    d = ext_dir(profile)
    if d not in dulwich.__path__:
        dulwich.__path__.insert(0, d)
    import dulwich._objects as o  # noqa: F401
    import dulwich._pack as p  # noqa: F401
    import dulwich._diff_tree as t  # noqa: F401

    for m in (o, p, t):
        if os.path.dirname(os.path.realpath(m.__file__)) != os.path.realpath(d):
            raise HarnessError(f"{m.__name__} loaded from {m.__file__}, expected {d}")


def build_and_install(profile="debug"):
    global installed
    build(profile)
    install(profile)
    installed = True


def force_pure():
    """Make the try/except ImportError blocks fall back to Python (call before importing dulwich.*)."""
    for name in list(sys.modules):
        if name.startswith("dulwich.") and name != "dulwich":
            raise HarnessError(f"rustext.force_pure() called after {name} was imported")
    for mod in _CRATES.values():
        sys.modules[f"dulwich.{mod}"] = None


def load_pure(modname):
    """Load a second, pure-Python copy of dulwich.<modname> (extensions blocked).

    Returned module is named dulwich._vf_pure_<modname>; the regular module is
    untouched.  This is how the Python twins that the import-time substitution
    overwrites (apply_delta, bisect_find_sha, _merge_entries, _is_tree) stay
    reachable next to the Rust ones.
    """
    import importlib.util

    name = f"dulwich._vf_pure_{modname}"
    if name in sys.modules:
        return sys.modules[name]
    import dulwich  # noqa: F401

    saved = {}
    for mod in _CRATES.values():
        key = f"dulwich.{mod}"
        saved[key] = sys.modules.get(key, "absent")
        sys.modules[key] = None
    try:
        spec = importlib.util.spec_from_file_location(name, os.path.join(REPO, "dulwich", f"{modname}.py"))
        m = importlib.util.module_from_spec(spec)
        sys.modules[name] = m
        spec.loader.exec_module(m)
    finally:
        for key, val in saved.items():
            if val == "absent":
                del sys.modules[key]
            else:
                sys.modules[key] = val
    return m


# ---------------------------------------------------------------------------
# switching a process between the Rust functions and their pure-Python twins

_TWIN_NAMES = {
    "objects": ["parse_tree", "sorted_tree_items"],
    "pack": ["apply_delta", "bisect_find_sha", "create_delta"],
    "diff_tree": ["_count_blocks", "_is_tree", "_merge_entries"],
}
_twins = {}  # (module, name) -> {"rust": fn, "pure": fn}
installed = False


def _collect_twins():
    import importlib

    if _twins:
        return
    for modname, names in _TWIN_NAMES.items():
        real = importlib.import_module(f"dulwich.{modname}")
        pure = load_pure(modname)
        for n in names:
            r, p = getattr(real, n), getattr(pure, n)
            if r is p:
                raise HarnessError(f"dulwich.{modname}.{n}: no distinct Rust implementation loaded")
            _twins[(modname, n)] = {"rust": r, "pure": p}


def use_twins(mode):
    """Make every loaded dulwich module use the 'rust' or the 'pure' implementation of the twin functions.

    Any module attribute that *is* one of the twin function objects is rebound
    (``from dulwich.pack import apply_delta`` copies included).
    """
    _collect_twins()
    for (modname, n), impls in _twins.items():
        want = impls[mode]
        others = [f for m, f in impls.items() if m != mode]
        for name, mod in list(sys.modules.items()):
            if mod is None or not name.startswith("dulwich.") or name.startswith("dulwich._vf_pure_"):
                continue
            for attr, val in list(vars(mod).items()):
                if any(val is o for o in others):
                    setattr(mod, attr, want)
    return mode
