"""Fuzz target for C19: an arbitrary byte stream, cut into arbitrary read chunks, through every pkt-line decoder dulwich
has (Protocol, ReceivableProtocol, read_pkt_seq, the eof loop, PktLineParser), judged by the C19 check's own oracle
against the independent reference parser (vf/model/c19_ref.py): same frames in the same order, flush/delim/response-end
told apart, a malformed or truncated stream ends in a protocol error, never in a hang or a silently dropped frame."""

from __future__ import annotations

from ..fuzz import Cursor
from ..model import c19_judge as J
from ..model import c19_ref as R
from ..props import c19
from .common import judged


def _go(ctx, stream, plan, eof_mask, unread_mask):
    events, terminal = R.parse(stream)
    case = dict(stream=stream, sizes=plan[0], cycle=plan[1], short_by=plan[2], eof_mask=eof_mask, unread_mask=unread_mask)
    c19._run_decoders(ctx, "decode", case, stream, events, terminal, plan, c19.ALL_DECODERS, eof_mask, unread_mask)
    return events, terminal


def decode_stream(data):
    c = Cursor(data)
    n = c.byte() % 7
    sizes = [c.byte() % 9 + 1 for _ in range(n)]
    cy = c.byte()
    cycle = [J.BIG] if cy % 4 == 0 else [cy % 11 + 1] if cy % 4 == 1 else [cy % 5 + 1, (cy >> 4) % 7 + 1]
    short_by = c.byte() % 3
    eof_mask = c.byte() | (c.byte() << 8)
    unread_mask = c.byte() | (c.byte() << 8)
    stream = c.rest()
    events, terminal = judged("C19", _go, stream, (sizes, cycle, short_by), eof_mask, unread_mask)
    frames = len(events)
    return ("nt:" if terminal[0] != "eof" or frames >= 2 else "") + f"ends-{terminal[0]}:frames={min(frames, 4)}"


def _seeds():
    out = []
    hdr = bytes([3, 1, 2, 5, 1, 0, 0x55, 0x55, 0x0F, 0x0F])
    for seq in ([b"hello\n", None], [b"a", c19.DELIM, b"0000", None, b"x" * 40], [None, None], [b"", b"want " + b"1" * 40 + b" cap\n", None]):
        out.append(hdr + R.encode_seq(seq))
    out.append(hdr + b"0005a0001000200030004")
    return out


TARGETS = {"decode_stream": dict(fn=decode_stream, seeds=_seeds, max_len=400, imports=["dulwich.protocol"], twins=False)}
