"""Fuzz target for C20: any text dulwich's parser accepts is a configuration; writing it and reading it back must give
the same configuration (sections, subsections, keys, values, order of multi-valued keys)."""

from __future__ import annotations

import io

from ..fuzz import Finding


def _dump(cf):
    out = []
    for section in cf.sections():
        items = []
        for k, v in cf.items(section):
            items.append((bytes(k), bytes(v) if isinstance(v, (bytes, bytearray)) else v))
        out.append((tuple(bytes(x) for x in section), items))
    return out


def parse_write_parse(data):
    from dulwich.config import ConfigFile

    try:
        cf = ConfigFile.from_file(io.BytesIO(data))
    except ValueError:
        return "rejected"
    d1 = _dump(cf)
    out = io.BytesIO()
    try:
        cf.write_to_file(out)
    except ValueError as e:
        if b"\0" in data:
            return "parsed-but-unwritable:NUL"  # NUL is outside the property's alphabet; refusing to write it is right
        raise Finding("C20:fuzz:parsed-but-unwritable", f"dulwich parsed {data!r} as {d1!r} but refuses to write it: {e}")
    text = out.getvalue()
    try:
        cf2 = ConfigFile.from_file(io.BytesIO(text))
    except ValueError as e:
        raise Finding("C20:fuzz:rewritten-file-rejected", f"dulwich parsed {data!r}, wrote {text!r} and cannot read that back: {e}")
    d2 = _dump(cf2)
    if d1 != d2:
        raise Finding("C20:fuzz:parse-write-parse-differs", f"dulwich parsed {data!r} as {d1!r}, wrote {text!r} and reads that back as {d2!r}")
    if not d1:
        return "empty"
    nvals = sum(len(i) for _, i in d1)
    special = any(any(ch in v for ch in b" \t\"\\#;\n") for _, items in d1 for _, v in items if isinstance(v, bytes))
    return ("nt:" if nvals else "") + ("special-values" if special else "plain-values") + (":subsection" if any(len(s) > 1 for s, _ in d1) else "")


def _seeds():
    return [
        b"[core]\n\tbare = false\n\teditor = \"vi \\\"x\\\"\"\n",
        b"[remote \"origin\"]\n\turl = https://example.com/x.git ; comment\n\tfetch = +refs/heads/*:refs/remotes/origin/*\n\tfetch = a\\tb\\\\c\n",
        b"[a \"s\\\\ub \\\"q\\\"\"]\n k = \" lead\" \n k2\n[A.B]\nk=v\\\n continued # c\n",
        b"[x]\n\tk = a\\nb\\bc\n\tk = \"\"\n\tk = #\n[include]\n",
    ]


TARGETS = {
    "parse_write_parse": dict(fn=parse_write_parse, seeds=_seeds, max_len=300, imports=["dulwich.config"]),
}
