"""Fuzz target for C01: arbitrary bytes as the body of a commit / tree / tag / blob.

* the name of the object is the hash of type, length and bytes, whatever the bytes are;
* if dulwich parses the body, "editing" a field to the value it already has forces a re-serialisation from the parsed
  fields: for a *well-formed* object that must reproduce the body byte for byte.  Well-formed is decided by C git, not by
  dulwich and not by the harness: the body is written with `git hash-object --literally -w` and must pass
  `git fsck --strict` without an error or warning about its format; only then a difference is reported.
  (dulwich parses more than git's canonical grammar, and normalising what git calls malformed is not a violation.)
"""

from __future__ import annotations

import hashlib
import re

from .. import cgit
from ..fuzz import Finding
from .common import JudgeCtx

TYPES = {0: (1, b"commit"), 1: (2, b"tree"), 2: (4, b"tag"), 3: (3, b"blob")}
_state = {}


def _repo():
    if "repo" not in _state:
        ctx = JudgeCtx("C01")
        _state["ctx"] = ctx
        d = ctx.scratch.new("fsck")
        cgit.init(d, bare=True)
        _state["repo"] = d
    return _state["repo"]


_FMT = re.compile(rb"^(error|warning) in (commit|tree|tag|blob) ([0-9a-f]{40}): ", re.M)


_IDENT = rb"[^\n<>]* <[^\n<>]*> (0|[1-9]\d*) [+-]\d{4}\n"
_PRE = {
    b"commit": re.compile(rb"tree [0-9a-f]{40}\n(parent [0-9a-f]{40}\n)*author " + _IDENT + rb"committer " + _IDENT),
    b"tag": re.compile(rb"object [0-9a-f]{40}\ntype (commit|tree|blob|tag)\ntag [^\n]+\n(tagger " + _IDENT + rb")?\n"),
}


def git_says_well_formed(tname, body):
    # cheap necessary conditions of fsck first (two git processes per question are the expensive part of this target);
    # a body failing them is malformed for git too, so nothing is lost but time
    pre = _PRE.get(tname)
    if pre is not None and not pre.match(body):
        return False
    repo = _repo()
    rc, out, err = cgit.git(["hash-object", "-t", tname.decode(), "-w", "--literally", "--stdin"], cwd=repo, input=body, check=False)
    if rc != 0:
        return False
    oid = out.strip()
    rc, out, err = cgit.git(["fsck", "--strict", "--no-dangling", "--no-progress", oid.decode()], cwd=repo, check=False)
    for m in _FMT.finditer(out + b"\n" + err):
        if m.group(3) == oid:
            return False
    # anything else git says about this object, except that what it points to is not there, means git does not take it
    for line in (out + b"\n" + err).split(b"\n"):
        if oid in line and not line.startswith(b"broken link from"):
            return False
    return True


def _header_keys(body):
    head = body.split(b"\n\n", 1)[0] if b"\n\n" in body else body
    keys = []
    for line in head.split(b"\n"):
        if line.startswith(b" "):
            continue
        keys.append(line.split(b" ", 1)[0])
    return keys


def emitted_header_order(tname, body):
    """The order git's own writers emit (C01's canonical grammar): commit = tree parent* author committer [encoding]
    mergetag* other-extras* [gpgsig]; tag = object type tag [tagger]; the blank separator line always present.  Objects git merely accepts in another order are
    outside the re-serialisation clause (DESIGN section 4 C01: accepted-not-emitted is report-only)."""
    keys = _header_keys(body)
    head = body.split(b"\n\n", 1)[0]
    for line in head.split(b"\n"):
        if line.startswith((b"author ", b"committer ", b"tagger ")):
            # git writes zones as [+-]HHMM with MM < 60; fsck accepts any four digits
            if not re.search(rb" [+-]\d\d[0-5]\d$", line):
                return False
        elif not line.startswith(b" ") and line.split(b" ", 1)[0] not in (b"tree", b"parent", b"object", b"type", b"tag"):
            if len(line.split(b" ", 1)) < 2 or line.split(b" ", 1)[1] == b"":
                return False  # extra header without a value
    if tname == b"commit":
        rank = {b"tree": 0, b"parent": 1, b"author": 2, b"committer": 3, b"encoding": 4, b"mergetag": 5, b"gpgsig": 7}
        r = [rank.get(k, 6) for k in keys]
        single = [k for k in (b"tree", b"author", b"committer", b"encoding", b"gpgsig") if keys.count(k) > 1]
        return r == sorted(r) and not single and b"\n\n" in body
    if tname == b"tag":
        return keys[:3] == [b"object", b"type", b"tag"] and keys[3:] in ([], [b"tagger"]) and b"\n\n" in body
    return True


def _touch(obj, tname):
    """Assign a field its own value: marks the object as needing serialisation from its parsed fields."""
    if tname == b"commit":
        obj.message = obj.message
    elif tname == b"tag":
        obj.message = obj.message
    elif tname == b"blob":
        obj.data = obj.data
    else:
        items = list(obj.iteritems())
        if not items:
            obj._needs_serialization = True
            return
        name, mode, sha = items[0]
        obj[name] = (mode, sha)


def object_body(data):
    from dulwich.objects import ShaFile

    sel = data[0] if data else 0
    type_num, tname = TYPES[sel & 3]
    body = data[1:]
    want = hashlib.sha1(tname + b" " + str(len(body)).encode() + b"\0" + body).hexdigest().encode()
    try:
        obj = ShaFile.from_raw_string(type_num, body)
    except Exception as e:  # noqa: BLE001 - dulwich refusing the body is an outcome, not a failure
        return f"unparseable:{tname.decode()}:{type(e).__name__}"
    if obj.id != want:
        raise Finding(f"C01:fuzz:{tname.decode()}:name-is-not-content-hash", f"{tname.decode()} with body {body!r} is named {obj.id!r}, sha1(type len NUL body) is {want!r}")
    try:
        _touch(obj, tname)
        out = obj.as_raw_string()
    except Exception as e:  # noqa: BLE001 - dulwich refusing the body is an outcome, not a failure
        return f"unparseable:{tname.decode()}:{type(e).__name__}"
    if out == body:
        if obj.id != want:
            raise Finding(f"C01:fuzz:{tname.decode()}:name-changed-by-noop-edit", f"{tname.decode()} {body!r}: id after a no-op edit is {obj.id!r}, expected {want!r}")
        return f"nt:exact:{tname.decode()}"
    if emitted_header_order(tname, body) and git_says_well_formed(tname, body):
        raise Finding(f"C01:fuzz:{tname.decode()}:reserialise-differs",
                      f"{tname.decode()} body {body!r} passes git fsck --strict, dulwich parses it, and after a no-op edit serialises it as {out!r}")
    return f"nt:normalised-malformed:{tname.decode()}"


def _seeds():
    t = b"4b825dc642cb6eb9a060e54bf8d69288fbee4904"
    ident = b"A U Thor <a@example.com> 1700000000 +0130"
    return [
        b"\0tree " + t + b"\nparent " + b"1" * 40 + b"\nauthor " + ident + b"\ncommitter " + ident + b"\nencoding ISO-8859-1\n\nmsg\n",
        b"\0tree " + t + b"\nauthor " + ident + b"\ncommitter C <c@d> 12 -0000\nx-extra a\n b\ngpgsig -----BEGIN PGP SIGNATURE-----\n \n wsB\n -----END PGP SIGNATURE-----\n\nm",
        b"\0tree " + t + b"\nauthor " + ident + b"\ncommitter " + ident + b"\nmergetag object " + b"2" * 40 + b"\n type commit\n tag v1\n tagger T <t@t> 1 +0000\n \n m\n\n",
        b"\1100644 a\0" + bytes(range(20)) + b"40000 a.b\0" + bytes(range(20, 40)) + b"40000 a\0" + bytes(range(40, 60)) + b"160000 z\0" + bytes(range(60, 80)),
        b"\1100755 x\0" + b"\xaa" * 20 + b"120000 y\0" + b"\xbb" * 20,
        b"\2object " + b"3" * 40 + b"\ntype commit\ntag v1.0\ntagger " + ident + b"\n\nrelease\n-----BEGIN PGP SIGNATURE-----\nabc\n-----END PGP SIGNATURE-----\n",
        b"\2object " + b"3" * 40 + b"\ntype blob\ntag notagger\n\nm\n",
        b"\3some blob\0bytes\n",
    ]


TARGETS = {"object_body": dict(fn=object_body, seeds=_seeds, max_len=700, imports=["dulwich.objects"], warmup=_repo, reset=_state.clear)}
