"""Fuzz target for C03: arbitrary (base, delta) through both decoders against the reference decoder."""

from __future__ import annotations

from ..fuzz import Cursor
from ..props import c03
from .common import judged

_BASES = {}


def _base(sel):
    if sel not in _BASES:
        _BASES[sel] = c03.pseudo(sel % 3, [300, 65536, 70000][(sel // 3) % 3])
    return _BASES[sel]


def apply_delta(data):
    c = Cursor(data)
    sel = c.byte()
    base = _base(sel) if sel < 9 else c.lp()
    delta = c.rest()
    reaches, feat, ref = judged("C03", c03.judge_delta, base, delta, check="fuzz", origin="fuzz")
    return ("nt:" if reaches else "") + feat + (":valid" if ref is not None else "")


def _seeds():
    out = []
    for sel, ops in [(0, [("copy", 0, 10), ("insert", b"abc")]), (4, [("copy", 0, 0x10000), ("copy", 5, 7)]), (7, [("copy", 3, 0x10000), ("insert", b"z" * 127)]),
                     (1, [("insert", b"x")]), (3, [("copy", 65535, 1)])]:
        total = sum(o[2] if o[0] == "copy" else len(o[1]) for o in ops)
        out.append(bytes([sel]) + c03.build_delta(len(_base(sel)), total, ops))
    out.append(bytes([9, 3]) + b"abc" + c03.build_delta(3, 4, [("copy", 0, 3), ("insert", b"d")]))
    return out


TARGETS = {
    "apply_delta": dict(fn=apply_delta, seeds=_seeds, max_len=600, twins=False, imports=["dulwich.pack"], warmup=c03.impls,
                        instrument=lambda: [c03.impls()["dec"]["py"]]),
}
