"""Fuzz targets for C15: the same arguments through the Rust function and its pure-Python twin; outcome classes and
values must agree (judged by the C15 check's own compare()).  Coverage comes from the Python twin (instrumented function
by function: the pure copies are loaded outside the import hook); the Rust side is opaque to the fuzzer but is what the
differential oracle watches."""

from __future__ import annotations

from ..fuzz import Cursor
from ..props import c15
from .common import judged


def _run(judge, case):
    def go(ctx):
        judge(ctx, case)

    judged("C15", go)


def parse_tree(data):
    c = Cursor(data)
    f = c.byte()
    sha_len = 32 if f & 1 else 20
    strict = bool(f & 2)
    text = c.rest()
    _run(c15.judge_parse_tree, ("parse_tree", text, sha_len, strict))
    feat = c15.mode_feature(text)
    return ("nt:" if feat != "octal" or len(text) > sha_len + 8 else "") + "pt:" + feat


def count_blocks(data):
    c = Cursor(data)
    n = c.byte() % 4 + 1
    chunks = [c.lp() for _ in range(n - 1)] + [c.rest()]
    _run(c15.judge_count, ("count_blocks", chunks))
    return ("nt:" if len(chunks) > 1 else "") + "cb"


def create_delta(data):
    c = Cursor(data)
    base = c.lp(two=False) * (1 + c.byte() % 3)
    target = c.rest()
    _run(c15.judge_create, ("create_delta", base, target))
    return "nt:cd" if base and target else "cd:empty-side"


def sorted_items(data):
    c = Cursor(data)
    name_order = bool(c.byte() & 1)
    entries = []
    seen = set()
    while c.left() > 0 and len(entries) < 6:
        mode = [0o100644, 0o40000, 0o160000, 0o120000, 0o100755][c.byte() % 5]
        name = c.lp()[:12]
        if not name or name in seen or b"/" in name or b"\0" in name:
            continue
        seen.add(name)
        entries.append((name, (mode, b"1" * 40)))
    _run(c15.judge_sorted, ("sorted_tree_items", entries, name_order))
    names = [n for n, _ in entries]
    collide = any(x != y and y.startswith(x) for x in names for y in names)
    return ("nt:" if collide else "") + "st"


def _instr():
    from .. import rustext

    pobj = rustext.load_pure("objects")
    pdt = rustext.load_pure("diff_tree")
    ppack = rustext.load_pure("pack")
    return [pobj.parse_tree, pobj.sorted_tree_items, pobj.key_entry, pobj.key_entry_name_order, pdt._count_blocks, ppack._create_delta_py, ppack.apply_delta]


def _pt_seeds():
    e = b"100644 a\0" + b"\x01" * 20 + b"40000 dir\0" + b"\x02" * 20 + b"160000 sub\0" + b"\x03" * 20
    return [b"\0" + e, b"\2" + e, b"\1" + b"100755 x\0" + b"\x04" * 32, b"\0" + b"0100644 z\0" + b"\x05" * 20, b"\0"]


TARGETS = {
    "parse_tree": dict(fn=parse_tree, seeds=_pt_seeds, max_len=200, twins=False, imports=["dulwich.objects"], warmup=c15.impls, instrument=_instr),
    "count_blocks": dict(fn=count_blocks, seeds=lambda: [b"\1\3a\nbline two\n" + b"x" * 70 + b"\n", b"\0" + b"y" * 130], max_len=600, twins=False,
                         imports=["dulwich.diff_tree"], warmup=c15.impls, instrument=_instr),
    "create_delta": dict(fn=create_delta, seeds=lambda: [b"\x10" + b"0123456789abcdef" + b"\2" + b"0123456789abcdefXX0123456789abcdef", b"\0\0abc"], max_len=900,
                         twins=False, imports=["dulwich.pack"], warmup=c15.impls, instrument=_instr),
    "sorted_tree_items": dict(fn=sorted_items, seeds=lambda: [b"\0\1\3foo\0\7foo-bar\1\7foo.bar\0\4foo0", b"\1\0\1a\1\2ab"], max_len=120, twins=False,
                              imports=["dulwich.objects"], warmup=c15.impls, instrument=_instr),
}
