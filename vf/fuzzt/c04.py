"""Fuzz targets for C04.

``pack_struct``: the input is decoded into a *pack description* (entries with type, declared-size skew, delta base
selector, payload) from which a pack with valid zlib streams and a valid trailer is built - byte flips never get past
zlib's checksum, so the object- and delta-level logic is only reachable this way.  The pack is ingested through
add_pack / add_thin_pack and judged by c04.judge_ingest (failed ingestion leaves no trace, successful ingestion stores
every object under its own name, lookups of the rejected objects on the same instance fail).

``reader:<name>``: the input replaces one on-disk file (pack index v1/v2, staging index v2-4, commit-graph,
multi-pack-index, packed-refs, loose object); where the format ends in a checksum over the file the target recomputes
it (flag byte), so that the fuzzer reaches the table logic behind the checksum.  Judged by c04.judge_reader
(termination is libFuzzer's -timeout, re-judged by call budget in the parent; memory by RLIMIT_AS).
"""

from __future__ import annotations

import hashlib
import os
import struct
import zlib

from ..fuzz import Cursor
from ..model import packfmt
from ..props import c04
from .common import JudgeCtx, judged

_state = {}


def _env():
    if not _state:
        ctx = JudgeCtx("C04")
        _state["ctx"] = ctx
        _state["template"] = c04._template(ctx)
        _state["readers"] = c04.reader_seeds(ctx)
        _state["work"] = ctx.scratch.new("rd")
        _state["base_ids"] = [packfmt.obj_id(t, b) for t, b in c04.base_objects()]
    return _state


TYPES = [1, 2, 3, 4, 6, 7, 0, 5]


def decode_pack(data):
    """-> (pack bytes, how, kind, probe ids, shape label)."""
    st = _env()
    c = Cursor(data)
    flags = c.byte()
    thin = flags & 1
    skew = [0, 1, -1, 0][(flags >> 1) & 3]
    bad_trailer = bool(flags & 8) and bool(flags & 0x80)  # rare: needs two bits
    kind = "memory" if flags & 0x10 else "diskp" if flags & 0x08 else "disk"  # diskp: the base objects sit in a pack
    how = ["add_thin_pack:all", "add_thin_pack:1", "add_thin_pack:7", "add_thin_pack:all"][(flags >> 5) & 3] if thin else "add_pack"
    body = bytearray(b"PACK" + struct.pack(">LL", 2, 0))
    offsets = []
    ids = []
    probe = []
    kinds = set()
    while c.left() > 0 and len(offsets) < 8:
        k = c.byte()
        type_num = TYPES[k & 7]
        size_skew = [0, 0, 0, 1, -1, 0, 0, 7][(k >> 3) & 7]
        extra = b""
        off = len(body)
        if type_num == 6:
            b = c.byte()
            if b & 0x80:
                dist = c.byte() | (c.byte() << 8)
            else:
                j = b % (len(offsets) + 1)
                dist = off - (offsets[j] if j < len(offsets) else off)
            extra = packfmt.enc_ofs(dist) if dist >= 0 else b"\x00"
            kinds.add("ofs")
        elif type_num == 7:
            r = c.byte()
            m = r % 5
            if m == 0:
                extra = st["base_ids"][(r >> 3) % len(st["base_ids"])]
            elif m == 1 and ids:
                extra = ids[(r >> 3) % len(ids)] or b"\x11" * 20
            elif m == 2:
                extra = b"\x11" * 20
            else:
                extra = c.take(20).ljust(20, b"\0")
            kinds.add("ref")
        payload = c.lp(two=True)
        body += packfmt.enc_obj_header(type_num, max(0, len(payload) + size_skew)) + extra + zlib.compress(payload, 1)
        offsets.append(off)
        if type_num in packfmt.TYPE_NAMES:
            i = packfmt.obj_id(packfmt.TYPE_NAMES[type_num], payload)
            ids.append(i)
            if size_skew == 0:
                probe.append(i.hex().encode())
            kinds.add(packfmt.TYPE_NAMES[type_num].decode())
        else:
            ids.append(None)
    struct.pack_into(">L", body, 8, max(0, len(offsets) + skew))
    trailer = hashlib.sha1(bytes(body)).digest()
    if bad_trailer:
        trailer = bytes([trailer[0] ^ 1]) + trailer[1:]
    shape = "+".join(sorted(kinds)) or "empty"
    return bytes(body) + trailer + c.rest()[:0], how, kind, probe, shape


def pack_struct(data):
    st = _env()
    pack, how, kind, probe, shape = decode_pack(data)
    out = judged("C04", c04.judge_ingest, st["template"], kind, how, "fuzz", "fuzz", pack, "none", "fuzz-ingest", probe_ids=probe)
    return "nt:" + out.split(":")[0] + ":" + shape if shape != "empty" else out.split(":")[0] + ":empty"


def encode_pack(entries, thin=False, kind="disk"):
    """Inverse of decode_pack for seeds: entries = [(type_num, payload, base)] with base = entry index (OFS) or 20-byte id (REF)."""
    out = bytearray([(1 if thin else 0) | (0x10 if kind == "memory" else 0)])
    for type_num, payload, base in entries:
        out.append(TYPES.index(type_num))
        if type_num == 6:
            out.append(base & 0x7F)
        elif type_num == 7:
            out.append(3)
            out += base
        out += struct.pack("<H", len(payload)) + payload
    return bytes(out)


def _pack_seeds():
    seeds = []
    ext = {packfmt.obj_id(t, b): (t, b) for t, b in c04.base_objects()}
    for name, (data, thin) in c04.pack_seeds().items():
        ents = packfmt.parse_pack(data)
        offs = [e[0] for e in ents]
        entries = []
        for off, tnum, size, payload, extra in ents:
            if len(payload) > 4000:
                payload = payload[:4000]
            entries.append((tnum, payload, offs.index(extra) if tnum == 6 else extra))
        entries = entries[:8]
        seeds.append(encode_pack(entries, thin))
        seeds.append(encode_pack(entries, thin, "memory"))
    # payload-level attacks are good starting points too
    bid = packfmt.obj_id(b"blob", c04.base_objects()[0][1])
    seeds.append(encode_pack([(3, b"x", None), (1, b"tree " + packfmt.obj_id(b"tree", c04.base_objects()[1][1]).hex().encode() + b"\nauthor A <a@b> 1 +0000\ncommitter A <a@b> 1 +0000\n\nm\n", None),
                              (4, b"object " + bid.hex().encode() + b"\ntype blob\ntag t\ntagger A <a@b> 1 +0000\n\nm\n", None),
                              (2, b"100644 f\0" + bid + b"40000 d\0" + packfmt.obj_id(b"tree", c04.base_objects()[1][1]), None)]))
    return seeds


# ---------------------------------------------------------------------------
# readers

CHECKSUMMED = {"idx v2", "idx v1", "pack(idx v2 damaged)", "store(idx v2 damaged)", "index v2", "index v3", "index v4", "commit-graph", "multi-pack-index"}


def _reader_target(rname):
    def fn(data):
        st = _env()
        files, target, reader = st["readers"][rname]
        flag = data[0] if data else 0
        body = data[1:]
        if "loose" in rname and flag & 1:
            body = zlib.compress(body, 1)
        elif rname in CHECKSUMMED and flag & 1:
            body = body + hashlib.sha1(body).digest()
        out = judged("C04", c04.judge_reader, st["work"], rname, files, target, reader, "fuzz", body, "none", check="fuzz-reader")
        return ("nt:" if out != "ok" else "") + out

    return fn


def _reader_seeds(rname):
    def seeds():
        st = _env()
        files, target, reader = st["readers"][rname]
        data = files[target]
        out = [b"\0" + data]
        if "loose" in rname:
            out.append(b"\1" + zlib.decompress(data))
        elif rname in CHECKSUMMED:
            out.append(b"\1" + data[:-20])
        return out

    return seeds


READERS = ["idx v1", "idx v2", "pack(idx v2 damaged)", "store(idx v2 damaged)", "index v2", "index v3", "index v4", "commit-graph", "multi-pack-index",
           "packed-refs(peeled)", "loose commit", "loose tree", "store(loose commit damaged)"]

TARGETS = {"pack_struct": dict(fn=pack_struct, seeds=_pack_seeds, max_len=6000,
                               imports=["dulwich.object_store", "dulwich.pack", "dulwich.objects"], warmup=_env, reset=_state.clear)}
for _r in READERS:
    TARGETS["reader:" + _r] = dict(fn=_reader_target(_r), seeds=_reader_seeds(_r), max_len=3000,
                                   imports=["dulwich.pack", "dulwich.index", "dulwich.commit_graph", "dulwich.midx", "dulwich.refs", "dulwich.objects"], warmup=_env, reset=_state.clear)
