"""Fuzz target for C11: arbitrary bytes as a staging index file (trailing SHA-1 recomputed by the target).

If the independent reference parser (vf/model/c11_index.py) accepts the bytes they are a valid index and the whole
"file" oracle of the C11 check applies: dulwich must list the same entries, rewrite the file in git's order with a
correct checksum and unknown optional extensions kept, and read its own output back the same.  Before anything is
reported the verdict is re-derived with C git in the loop (`git ls-files --debug` on the same bytes): where git and the
reference parser disagree about the input nothing is claimed.  Bytes the reference parser rejects are damage: dulwich
must answer with an ordinary exception (or read them leniently), which is C04's containment clause.
"""

from __future__ import annotations

import hashlib
import os

from ..core import HarnessError
from ..model import c11_index as M
from ..props import c11
from .common import JudgeCtx, judged

_state = {}


def _ctx():
    if "ctx" not in _state:
        _state["ctx"] = JudgeCtx("C11")
    return _state["ctx"]


def index_file(data):
    ctx = _ctx()
    flag = data[0] if data else 0
    body = data[1:]
    if flag & 1:
        body = body + hashlib.sha1(body).digest()
    try:
        P = M.parse_index(body)
    except M.FormatError:
        path = os.path.join(ctx.scratch.path, "damaged.idx")
        with open(path, "wb") as f:
            f.write(body)
        r = c11.dulwich_read(path)
        return "damaged:" + (r[1] if r[0] == "raise" else "read-leniently")
    except Exception as e:  # the reference parser itself must not be the thing under test
        return "reference-parser-error:" + type(e).__name__
    o = c11.file_outcome(ctx, body, "none", git_check=False)
    shape = f"v{P.version}:n={min(len(P.entries), 3)}" + (":ext" if P.extensions else "")
    if o is None:
        return "nt:valid-roundtrip:" + shape
    try:
        ok = judged("C11", c11.run_file, body, "none", git_check=True, check="fuzz-file")
    except HarnessError:
        return "reference-and-git-disagree:" + shape  # not a statement about dulwich
    return ("nt:valid-roundtrip:" if ok else "nt:valid-flagged:") + shape


def _seeds():
    out = []
    for v, ents, exts in c11._damage_bases():
        data = M.build_index(v, ents, exts)
        out.append(b"\1" + data[:-20])
    return out


TARGETS = {"index_file": dict(fn=index_file, seeds=_seeds, max_len=1500, imports=["dulwich.index"], warmup=_ctx, reset=_state.clear)}
