"""Helpers shared by the fuzz targets."""

from __future__ import annotations

import os

from ..core import Ctx, Scratch, Violation
from ..fuzz import Finding


class JudgeCtx(Ctx):
    """A context whose ``fail`` raises: lets a fuzz target reuse a property module's judge function unchanged."""

    def __init__(self, prop):
        super().__init__(prop, "quick", 1)
        self.raise_mode = True
        # inside a fuzz child the scratch lives below the campaign's work directory (removed by the parent: libFuzzer
        # leaves through _exit, nothing of ours runs at the end)
        root = os.environ.get("VF_FUZZ_WORK")
        if root:
            sc = Scratch.__new__(Scratch)
            sc.path = os.path.join(root, "scratch-%d" % os.getpid())
            os.makedirs(sc.path, exist_ok=True)
            sc._n = 0
            self._scratch = sc
            self._scratch_pid = os.getpid()

    def case(self, *a, **kw):  # counting is the fuzz child's job
        pass

    def label(self, *a, **kw):
        pass


def judged(prop, fn, *a, **kw):
    """Run ``fn(ctx, ...)``; a Violation becomes a Finding."""
    ctx = JudgeCtx(prop)
    try:
        return fn(ctx, *a, **kw)
    except Violation as v:
        raise Finding(v.bucket, v.message)
