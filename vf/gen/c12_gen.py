"""C12 generators: blob pool, name alphabet, listings, edit scripts, enumerated universe.

A listing *spec* is a list of (path, mode, ref) with ref = int (index into POOL)
or a 40-byte hex id (gitlink target).  Specs are plain data and are what replay
files contain.  POOL is a frozen deterministic table: append only.
"""

from __future__ import annotations

import hashlib

from ..model.c12_model import EXE, GITLINK, LNK, REG

# ---------------------------------------------------------------------------
# blob pool


def _doc(k: int, nchanged: int = 0) -> bytes:
    lines = [b"doc %d line %02d %s\n" % (k, j, bytes([97 + (k * 7 + j) % 26]) * (6 + (j * 3 + k) % 18)) for j in range(12)]
    # change lines spread over the document, deterministic
    order = [5, 0, 11, 3, 8, 1, 6, 10, 2, 9, 4, 7]
    for j in order[:nchanged]:  # nested: variants v1 < v2 share 12 - (v2 - v1) lines
        lines[j] = b"doc %d LINE %02d rewritten %s\n" % (k, j, b"#" * (4 + j))
    return b"".join(lines)


DOC_VARIANTS = (0, 1, 3, 5, 8, 11)


def _make_pool():
    pool = [b"x\n", b"y\n", b"z\n", b"", b"a", b"../a/b", b"a.b"]  # 0..6 (4,5,6: symlink targets)
    fam = {}
    for k in range(4):
        for v in DOC_VARIANTS:
            fam[len(pool)] = (k, v)
            pool.append(_doc(k, v))
    # block-boundary shapes for _count_blocks
    pool += [
        b"L" * 63 + b"\n",
        b"L" * 64 + b"\n",
        b"L" * 64,
        b"L" * 65,
        b"M" * 130 + b"\n" + b"M" * 64 + b"\n\n\n",
        b"\0\xff\n\r\n" * 9,
        b"same\n" * 20,
        b"no trailing newline",
    ]
    return pool, fam


POOL, DOC_FAMILY = _make_pool()
LINK_IDX = (4, 5, 6)
SMALL_IDX = (0, 1, 2, 3)
DOC_IDX = tuple(sorted(DOC_FAMILY))
GITLINKS = tuple(hashlib.sha1(b"c12-gitlink-%d" % i).hexdigest().encode() for i in range(3))


def similar_ref(ref, step):
    """Another variant of the same document family (for similarity renames)."""
    if isinstance(ref, int) and ref in DOC_FAMILY:
        k, v = DOC_FAMILY[ref]
        vs = DOC_VARIANTS
        v2 = vs[(vs.index(v) + 1 + step % (len(vs) - 1)) % len(vs)]
        for idx, kv in DOC_FAMILY.items():
            if kv == (k, v2):
                return idx
    return ref


# ---------------------------------------------------------------------------
# names: the bytes that sort around '/' (0x2f): ' ' 0x20, '-' 0x2d, '.' 0x2e, '0' 0x30

FAMILY = [b"a", b"a.b", b"a-", b"a0", b"ab", b"a.", b"a b", b"a-b"]
OTHER = [b"b", b"c", b"A", b"b.c", b"b-", b"b0", b"\xc3\xa9", b"\xff", b"~", b"_", b"0"]
NAMES = FAMILY * 3 + [b"a", b"a", b"b", b"b"] + OTHER


def put(L: dict, path: bytes, leaf) -> None:
    """Set path to leaf, removing whatever conflicts (a file at an ancestor,
    everything below path): listings stay valid by construction."""
    parts = path.split(b"/")
    for i in range(1, len(parts)):
        L.pop(b"/".join(parts[:i]), None)
    pre = path + b"/"
    for q in [q for q in L if q.startswith(pre)]:
        del L[q]
    L[path] = leaf


def dirname(p: bytes) -> bytes:
    return p.rsplit(b"/", 1)[0] if b"/" in p else b""


def apply_ops(L: dict, ops) -> dict:
    """Edit script over a listing {path: (mode, ref)}."""
    L = dict(L)
    for op in ops:
        keys = sorted(L)
        k = op[0]
        if k == "put":
            put(L, op[1], op[2])
            continue
        if not keys:
            continue
        p = keys[op[1] % len(keys)]
        mode, ref = L[p]
        if k == "del":
            del L[p]
        elif k == "deldir":
            d = dirname(p)
            if d:
                for q in [q for q in L if q.startswith(d + b"/")]:
                    del L[q]
            else:
                del L[p]
        elif k == "chmod":
            if mode in (REG, EXE):
                L[p] = (EXE if mode == REG else REG, ref)
            else:
                L[p] = (REG, ref if isinstance(ref, int) else 0)
        elif k == "retype":
            new = op[2]
            if new == GITLINK:
                L[p] = (GITLINK, GITLINKS[op[1] % len(GITLINKS)])
            else:
                L[p] = (new, ref if isinstance(ref, int) else 0)  # same blob, other type
        elif k == "mod":
            L[p] = (mode if mode != GITLINK else REG, op[2])
        elif k == "modsim":
            L[p] = (mode, similar_ref(ref, op[2]))
        elif k == "mv":
            del L[p]
            put(L, op[2], (mode, ref))
        elif k == "mvsim":
            del L[p]
            put(L, op[2], (mode, similar_ref(ref, op[3])))
        elif k == "cp":
            put(L, op[2], (mode, ref))
        elif k == "mvdir":
            d = dirname(p)
            if d and not (op[2] == d or op[2].startswith(d + b"/") or d.startswith(op[2] + b"/")):
                moved = {q: L[q] for q in L if q.startswith(d + b"/")}
                for q in moved:
                    del L[q]
                for q, leaf in moved.items():
                    put(L, op[2] + q[len(d):], leaf)
        elif k == "swap":
            q = keys[op[2] % len(keys)]
            L[p], L[q] = L[q], L[p]
        elif k == "file2dir":
            put(L, p + b"/" + op[2], (mode, ref) if op[3] is None else op[3])
        elif k == "dir2file":
            d = dirname(p)
            if d:
                put(L, d, op[2])
    return L


def to_spec(L: dict):
    return [(p, m, r) for p, (m, r) in sorted(L.items())]


def from_spec(spec) -> dict:
    return {bytes(p): (int(m), r if isinstance(r, int) else bytes(r)) for p, m, r in spec}


# ---------------------------------------------------------------------------
# Hypothesis strategies


def strategies():
    from hypothesis import strategies as st

    name = st.sampled_from(NAMES)
    path = st.one_of(
        st.lists(name, min_size=1, max_size=1),
        st.lists(name, min_size=1, max_size=2),
        st.lists(name, min_size=2, max_size=3),
        st.lists(name, min_size=3, max_size=5),
    ).map(b"/".join)
    blobref = st.one_of(st.sampled_from(SMALL_IDX), st.sampled_from(DOC_IDX), st.integers(0, len(POOL) - 1))
    leaf = st.one_of(
        st.tuples(st.sampled_from([REG, REG, REG, EXE]), blobref),
        st.tuples(st.sampled_from([REG, REG, REG, EXE]), blobref),
        st.tuples(st.just(LNK), st.sampled_from(LINK_IDX)),
        st.tuples(st.just(GITLINK), st.sampled_from(GITLINKS)),
    )

    def fold(items):
        L = {}
        for p, lf in items:
            put(L, p, lf)
        return L

    listing = st.one_of(
        st.lists(st.tuples(path, leaf), min_size=1, max_size=3),
        st.lists(st.tuples(path, leaf), min_size=4, max_size=9),
        st.lists(st.tuples(path, leaf), min_size=4, max_size=9),
        st.lists(st.tuples(path, leaf), min_size=8, max_size=14),
    ).map(fold)
    idx = st.integers(0, 63)
    op = st.one_of(
        st.tuples(st.just("put"), path, leaf),
        st.tuples(st.just("del"), idx),
        st.tuples(st.just("deldir"), idx),
        st.tuples(st.just("chmod"), idx),
        st.tuples(st.just("retype"), idx, st.sampled_from([REG, LNK, GITLINK])),
        st.tuples(st.just("mod"), idx, blobref),
        st.tuples(st.just("modsim"), idx, st.integers(0, 4)),
        st.tuples(st.just("mv"), idx, path),
        st.tuples(st.just("mvsim"), idx, path, st.integers(0, 4)),
        st.tuples(st.just("cp"), idx, path),
        st.tuples(st.just("mvdir"), idx, path),
        st.tuples(st.just("swap"), idx, idx),
        st.tuples(st.just("file2dir"), idx, name, st.one_of(st.none(), leaf)),
        st.tuples(st.just("dir2file"), idx, leaf),
    )
    docleaf = st.tuples(st.sampled_from([REG, REG, EXE]), st.sampled_from(DOC_IDX))
    doc_listing = st.lists(st.tuples(path, st.one_of(docleaf, docleaf, docleaf, leaf)), min_size=3, max_size=10).map(fold)
    renop = st.one_of(
        st.tuples(st.just("mv"), idx, path),
        st.tuples(st.just("mvsim"), idx, path, st.integers(0, 4)),
        st.tuples(st.just("mvsim"), idx, path, st.integers(0, 4)),
        st.tuples(st.just("mvsim"), idx, path, st.integers(0, 4)),
        st.tuples(st.just("mvsim"), idx, path, st.integers(0, 4)),
        st.tuples(st.just("cp"), idx, path),
        st.tuples(st.just("modsim"), idx, st.integers(0, 4)),
        st.tuples(st.just("swap"), idx, idx),
        st.tuples(st.just("mvdir"), idx, path),
        st.tuples(st.just("del"), idx),
        st.tuples(st.just("put"), path, docleaf),
    )
    flt = st.tuples(st.sampled_from(["file", "dir", "dir", "first-byte", "chop", "missing", "under-file", "name"]), idx, name)

    @st.composite
    def case(draw):
        how = draw(st.sampled_from(["edit"] * 6 + ["ren"] * 4 + ["indep"] * 2 + ["same", "none-a", "none-b", "empty-a", "empty-b"]))
        A = draw(doc_listing if how == "ren" else listing)
        a_none = b_none = False
        if how == "ren":
            B = apply_ops(A, draw(st.lists(renop, min_size=1, max_size=4)))
        elif how == "edit":
            B = apply_ops(A, draw(st.lists(op, min_size=1, max_size=5)))
        elif how == "indep":
            B = draw(listing)
        elif how == "same":
            B = dict(A)
        elif how == "none-a":
            B, A, a_none = A, {}, True
        elif how == "none-b":
            B, b_none = {}, True
        elif how == "empty-a":
            B, A = A, {}
        else:
            B = {}
        filters = [resolve_filter(f, A, B) for f in draw(st.lists(flt, min_size=0, max_size=3))]
        return dict(
            A=to_spec(A),
            B=to_spec(B),
            a_none=a_none,
            b_none=b_none,
            filters=sorted(set(filters)),
            perm=draw(st.integers(0, 0xFFFF)),
            git=draw(st.integers(0, 2)) == 0,
        )

    return case()


def resolve_filter(f, A, B) -> bytes:
    kind, i, name = f
    keys = sorted(set(A) | set(B))
    if not keys:
        return name
    p = keys[i % len(keys)]
    if kind == "file":
        return p
    if kind == "dir":
        parts = p.split(b"/")
        if len(parts) == 1:
            return p
        return b"/".join(parts[: 1 + i % (len(parts) - 1)])
    d = dirname(p)
    base = p[len(d) + 1 :] if d else p
    pre = d + b"/" if d else b""
    if kind == "first-byte":
        return pre + base[:1]
    if kind == "chop":
        return pre + (base[:-1] or b"zz")
    if kind == "missing":
        return pre + b"zz"
    if kind == "under-file":
        return p + b"/" + name
    return pre + name


# ---------------------------------------------------------------------------
# enumerated small universe (exhaustive pairs)


def universe(thorough=False):
    x, y = 0, 1
    g = GITLINKS[0]
    a_states = [
        {},
        {b"a": (REG, x)},
        {b"a": (REG, y)},
        {b"a": (EXE, x)},
        {b"a": (LNK, x)},
        {b"a": (GITLINK, g)},
        {b"a/b": (REG, x)},
        {b"a/b": (REG, y)},
        {b"a/b/c": (REG, x)},
    ]
    ab_states = [{}, {b"a.b": (REG, x)}, {b"a.b/b": (REG, x)}]
    a0_states = [{}, {b"a0": (REG, y)}]
    extra = [{}]
    if thorough:
        a_states += [{b"a/b": (REG, x), b"a/b.c": (REG, y)}, {b"a/b/c": (REG, y), b"a/b0": (REG, x)}]
        ab_states += [{b"a.b": (LNK, x)}]
        extra = [{}, {b"a-": (REG, x)}, {b"a-/b": (REG, y)}]
    out = []
    for s1 in a_states:
        for s2 in ab_states:
            for s3 in a0_states:
                for s4 in extra:
                    L = {}
                    for s in (s1, s2, s3, s4):
                        L.update(s)
                    out.append(L)
    return out


UNIVERSE_FILTERS = [[b"a"], [b"a/b"], [b"a.b"], [b"a/b/c"], [b"a", b"a0"], [b"ab"], [b"a/b", b"a.b/b"]]
