"""C17 case generators: raw tree specifications, checkout sequences, patches.

A *case* is plain data::

    {"cfg": {"ntfs": bool|None, "hfs": bool|None, "symlinks": bool|None}, "born": bool,
     "trees": [spec, ...], "steps": [step, ...]}

``spec`` is a list of entries ``(mode, name, kind, payload)`` in *raw order* (the order the bytes are written in):
kind "b" blob (payload = extra content bytes), "l" symlink blob (payload = target), "t" sub-tree (payload = spec),
"g" gitlink (payload None).  Names and symlink targets may contain the placeholders ``@S@`` (absolute path of the
per-case scratch root) and ``@W@`` (absolute path of the work tree); they are substituted when the case is
executed, so absolute paths always stay inside the per-case scratch directory.

``step`` is ``{"op": ..., "tree": i, ...}``; see vf/props/c17.py for the operations.

All functions take ``rnd`` with ``randrange``/``choice`` only (a ``random.Random`` or Hypothesis' shrinkable one).
Value 0 / the first pool element is always the simplest choice, so shrinking moves towards plain cases.
"""

from __future__ import annotations

from ..core import h64

F, X, L, D, G = 0o100644, 0o100755, 0o120000, 0o40000, 0o160000

UNIVERSE = [b"a", b"b", b"c", b"d", b"x", b"sub", b"lnk", b"f", b"hooks", b"pre-commit", b"config", b"other", b"heads", b"0nd"]

ZW = "\u200c".encode()  # ZERO WIDTH NON-JOINER, ignored by HFS+
DOTGIT_VARIANTS = [
    b".git", b".GIT", b".Git", b".gIt", b".git ", b".git.", b".git...", b".git. .", b"git~1", b"GIT~1", b"Git~1 ", b"git~1.",
    b".git::$INDEX_ALLOCATION", b".GIT::$INDEX_ALLOCATION", b".git:x", b".git :x",
    b".g" + ZW + b"it", ZW + b".git", b".git" + "\u200d".encode(), b".G" + "\u200d".encode() + b"IT", b".gi" + "\ufeff".encode() + b"t",
    b".git\\hooks", b"a\\.git\\x", b"a\\git~1", b".GIT \\x",
]
DOT_NAMES = [b"..", b".", b"", b". ", b".. ", b"...", b".. ."]
SLASH_NAMES = [
    b"a/b", b"a/../x", b"a/./b", b"a//b", b"../x", b"../../x", b"../other/b", b"a/", b".git/x", b".git/hooks/x", b".git/config",
    b"lnk/x", b"lnk/hooks/x", b".GIT/hooks/x", b"a/.git/x", b"a/.GIT/config", b"sub/../../other/x", b"a/b/../../../x",
    b"@S@/sandbox/abs-created", b"@S@/sandbox/other/b", b"@W@/.git/hooks/abs", b"@W@/abs-inside",
]
MISC_NAMES = [
    b"a\\..\\b", b"\\abs", b"..\\x", b"C:", b"C:x", b"C:\\x", b"c:/x", b".gitmodules", b".gitattributes", b".gitignore", b"\xff\xfe", b"caf\xe9",
    b"a\nb", b"a\tb", b" ", b"  x", b"-rf", b"~", b"$HOME", b"*", b"a\x7f", b"n" * 255, b"n" * 256, b"n" * 1200, b"con", b"aux.txt", b"NUL",
]
ADVERSARIAL = DOTGIT_VARIANTS + DOT_NAMES + SLASH_NAMES + MISC_NAMES
# we run as root: no name may be absolute unless it points into the per-case scratch directory (placeholder names)
assert not any(n.startswith(b"/") for n in ADVERSARIAL)

BLOB_MODES = [F, X, 0o104755, 0o102755, 0o101777, 0o100777, 0o100666, 0o100664, 0o106777, 0o100600, 0o100000, 0]
LINK_MODES = [L, L, L, 0o120777, 0o120644]
TREE_MODES = [D, D, D, 0o40755, 0o40777]


def marker(ti: int, path: bytes) -> bytes:
    return b"MK%014x" % (h64("c17", ti, path) & ((1 << 56) - 1))


def targets(depth: int):
    """Symlink targets for a link that lives ``depth`` directories below the work tree root.
    (target, class): class 'out' escapes the work tree, 'git' points into .git, 'in' stays inside."""
    up = b"../" * depth
    return [
        (up + b"../other", "out"),
        (up + b".git/hooks", "git"),
        (up + b"../canary.txt", "out"),
        (up + b".git/config", "git"),
        (up + b"..", "out"),
        (up + b".git", "git"),
        (up + b"../../other", "out"),
        (up + b".git/hooks/pre-commit", "git"),
        (up + b".git/refs/heads", "git"),
        (up + b"../newdir", "out"),
        (up + b".git/hooks/new-hook", "git"),
        (up + b".git/new-dir", "git"),
        (b"@S@/sandbox/other", "out"),
        (b"@S@/sandbox/canary.txt", "out"),
        (b"@W@/.git/hooks", "git"),
        (b"@W@/.git/config", "git"),
        (b"@S@/sandbox/abs-dangling", "out"),
        (up + b"../../../other", "out"),
        (up + b"../other/sub", "out"),
        (up + b".git/info", "git"),
        (up + b"../other/", "out"),
        (b".", "in"),
        (up + b"d", "in"),
        (up + b"b", "in"),
        (up + b"../work", "in"),
        (b"", "in"),
        (b"t" * 5000, "in"),
    ]


def chance(rnd, pct):
    """True with probability pct %; a shrunk (zero) draw gives False."""
    return rnd.randrange(100) >= 100 - pct


def canonical(spec):
    return sorted(spec, key=lambda e: e[1] + (b"/" if e[2] == "t" else b""))


def blob(name, mode=F, extra=b""):
    return (mode, name, "b", extra)


def link(name, target, mode=L):
    return (mode, name, "l", target)


def tree(name, children, mode=D):
    return (mode, name, "t", list(children))


def gitlink(name):
    return (G, name, "g", None)


def flatten(spec, prefix=b""):
    """[(path, mode, kind, payload)] of the leaves, the way a tree walk joins names (names may contain '/')."""
    out = []
    for mode, name, kind, payload in spec:
        p = prefix + name
        if kind == "t":
            out += flatten(payload, p + b"/")
        else:
            out.append((p, mode, kind, payload))
    return out


def dir_paths(spec, prefix=b""):
    out = set()
    for mode, name, kind, payload in spec:
        p = prefix + name
        if kind == "t":
            out.add(p)
            out |= dir_paths(payload, p + b"/")
        parts = p.split(b"/")
        for i in range(1, len(parts)):
            out.add(b"/".join(parts[:i]))
    return out


# ---------------------------------------------------------------------------
# operations

FIRST_OPS = ["reset_hard", "checkout", "clone", "build", "reset_index", "uwt", "switch", "stash_pop_crafted"]
LATER_OPS = ["checkout", "reset_hard", "uwt", "switch", "reset_index", "stash_pop_crafted", "build", "reset_mixed"]


def make_step(rnd, op, ti):
    if op in ("stash_roundtrip", "stash_push", "stash_pop"):
        return {"op": op}
    st = {"op": op, "tree": ti}
    if op in ("checkout", "switch", "uwt"):
        st["force"] = bool(rnd.randrange(2))
    if op == "switch":
        st["detach"] = bool(rnd.randrange(2))
    if op == "stash_pop_crafted":
        st["index_tree"] = [None, ti, ti + 1][rnd.randrange(3)]
    return st


def pick_cfg(rnd):
    tri = [None, False, True]
    return {"ntfs": tri[rnd.randrange(3)], "hfs": tri[rnd.randrange(3)], "symlinks": [None, None, None, False][rnd.randrange(4)]}


# ---------------------------------------------------------------------------
# part A: the known dangerous shapes, crossed with targets / operations / settings

SHAPES = [
    "sym-then-dir", "dir-then-sym", "file-then-dir", "dir-then-file", "slash-prefix", "dup-raw", "nested-sym", "dotgit-variant",
    "sym-into-git-then-dir", "final-sym-overwrite", "gitlink-vs-sym", "partial-then-traverse", "mixed-then-delete", "sym-then-delete-below",
    "dir-then-sym+slash-names", "dir-then-sym+slash-names", "dir-then-sym+slash-names",
]


def shape_case(rnd):
    shape = SHAPES[rnd.randrange(len(SHAPES))]
    tgts = targets(0)
    tgt, _cls = tgts[rnd.randrange(len(tgts) - 6)]  # escaping ones
    keep = blob(b"keep")
    q = [blob(b"q")]
    sub_bc = [blob(b"b"), blob(b"c"), tree(b"sub", [blob(b"c")])]
    # a name that exists nowhere in the canary forest and sorts first: whatever appears under it was *created*
    # (directories included), and it is met before any shallower sibling can abort the checkout
    fresh = [tree(b"0nd", [blob(b"f"), tree(b"deep", [blob(b"g")])])] if rnd.randrange(2) else []
    sub_bc = sub_bc + fresh
    labels = [shape]
    if shape == "sym-then-dir":
        trees = [[link(b"a", tgt), keep], [tree(b"a", sub_bc), keep]]
    elif shape == "dir-then-sym":
        trees = [[tree(b"a", sub_bc), keep], [link(b"a", tgt), keep]]
    elif shape == "file-then-dir":
        trees = [[blob(b"a"), keep], [tree(b"a", sub_bc), keep]]
    elif shape == "dir-then-file":
        trees = [[tree(b"a", sub_bc), keep], [blob(b"a", BLOB_MODES[rnd.randrange(len(BLOB_MODES))]), keep]]
    elif shape == "dir-then-sym+slash-names":
        # a real directory whose entries go away, then - in the same transition - a symlink of that name plus entries
        # whose *names* contain the slash (CVE-2021-21300 shape: a leading-directory check cached across the removal
        # and the creation of the symlink)
        names = [b"a/b", b"a/sub/c"] + ([b"a/0nd/deep/g"] if fresh else []) + ([b"a/pwn"] if chance(rnd, 50) else [])
        trees = [[tree(b"a", sub_bc), keep], [link(b"a", tgt)] + [blob(n, X if n.endswith(b"pwn") else F) for n in names] + [keep]]
        if chance(rnd, 30):
            trees[0].append(tree(b"zz", [blob(b"f")]))  # an unrelated directory that goes away too
    elif shape == "slash-prefix":
        trees = [[link(b"a", tgt), blob(b"a/b"), blob(b"a/sub/c")] + ([blob(b"a/0nd/deep/g")] if fresh else []) + [keep]]
        if chance(rnd, 50):
            trees[0] = [blob(b"a/b"), link(b"a", tgt), keep]
    elif shape == "dup-raw":
        order = rnd.randrange(3)
        ents = [link(b"a", tgt), tree(b"a", sub_bc)]
        if order == 1:
            ents.reverse()
        if order == 2:
            ents = [tree(b"a", sub_bc), link(b"a", tgt), tree(b"a", [blob(b"x")])]
        trees = [ents + [keep]]
    elif shape == "nested-sym":
        t1, _ = targets(1)[rnd.randrange(len(targets(1)) - 6)]
        trees = [[tree(b"a", [link(b"b", t1)]), keep], [tree(b"a", [tree(b"b", [blob(b"c"), blob(b"x")] + fresh)]), keep]]
    elif shape == "dotgit-variant":
        v = DOTGIT_VARIANTS[rnd.randrange(len(DOTGIT_VARIANTS))]
        k = rnd.randrange(4)
        if k == 0:
            ent = tree(v, [blob(b"config"), tree(b"hooks", [blob(b"pre-commit", X)])])
        elif k == 1:
            ent = blob(v)
        elif k == 2:
            ent = link(v, tgt)
        else:
            ent = tree(b"d", [tree(v, [blob(b"x")])])
        trees = [[blob(b"0first"), ent, blob(b"zlast")]]
    elif shape == "sym-into-git-then-dir":
        t = [b".git", b".git/hooks", b".git/refs", b"@W@/.git"][rnd.randrange(4)]
        trees = [[link(b"lnk", t), keep], [tree(b"lnk", [tree(b"hooks", [blob(b"pre-commit", X), blob(b"x")]), blob(b"config"), tree(b"heads", [blob(b"b")])] + fresh), keep]]
    elif shape == "final-sym-overwrite":
        t = [b"../canary.txt", b".git/config", b".git/hooks/pre-commit", b"@S@/sandbox/canary.txt", b".git/hooks/new-hook", b"../other/b"][rnd.randrange(6)]
        trees = [[link(b"f", t), keep], [blob(b"f", BLOB_MODES[rnd.randrange(len(BLOB_MODES))]), keep]]
    elif shape == "gitlink-vs-sym":
        trees = [[link(b"a", tgt), keep], [gitlink(b"a"), keep]]
        if chance(rnd, 50):
            trees.reverse()
    elif shape == "partial-then-traverse":
        # a checkout that is refused part-way leaves the symlink behind; later steps meet it
        bad = [tree(b"zz", [blob(b".git")]), blob(b"zz/../x"), tree(b".git", [blob(b"x")])][rnd.randrange(3)]
        trees = [[link(b"a", tgt), bad], [tree(b"a", sub_bc), keep], q]
    elif shape == "mixed-then-delete":
        trees = [[link(b"a", tgt), keep], [tree(b"a", sub_bc), keep], q]
    else:  # sym-then-delete-below
        trees = [[tree(b"a", sub_bc), link(b"lnk", tgt)], [tree(b"lnk", sub_bc), keep], q]
    n = len(trees)
    variant = rnd.randrange(4)
    first = FIRST_OPS[rnd.randrange(len(FIRST_OPS))]
    steps = [make_step(rnd, first, 0)]
    if shape == "mixed-then-delete" or (n >= 2 and variant == 3):
        # index/HEAD moved without touching the work tree, then a materialising operation
        steps.append({"op": "reset_mixed", "tree": 1})
        steps.append(make_step(rnd, ["reset_hard", "checkout", "uwt", "switch"][rnd.randrange(4)], n - 1 if n > 2 else 0))
        if n == 2:
            trees.append(q)
            steps[-1]["tree"] = 2
    else:
        for i in range(1, n):
            steps.append(make_step(rnd, LATER_OPS[rnd.randrange(len(LATER_OPS) - 1)], i))
        if variant == 1 and n >= 2:
            steps.append(make_step(rnd, LATER_OPS[rnd.randrange(len(LATER_OPS) - 1)], 0))
        elif variant == 2 and n >= 2:
            steps[0]["tree"], steps[1]["tree"] = steps[1]["tree"], steps[0]["tree"]
    if len(steps) >= 2 and chance(rnd, 15):
        # restore individual paths of the later tree instead of switching to it (checkout -- <paths>, restore, reset_file)
        last = steps[-1]
        if "tree" in last and last["op"] != "reset_mixed":
            leaves = flatten(trees[last["tree"]])
            if leaves:
                steps[-1] = {"op": ["checkout_paths", "restore", "reset_file"][rnd.randrange(3)], "tree": last["tree"],
                             "paths": [leaves[rnd.randrange(len(leaves))][0] for _ in range(rnd.randrange(1, 3))]}
    if shape != "dup-raw" and shape not in ("slash-prefix", "dir-then-sym+slash-names"):
        trees = [canonical(t) for t in trees]
    return {"cfg": pick_cfg(rnd), "born": bool(rnd.randrange(2)), "trees": trees, "steps": steps, "shape": shape}


# ---------------------------------------------------------------------------
# part B: free-form trees and sequences


def gen_name(rnd, adversarial_pct):
    if chance(rnd, adversarial_pct):
        return ADVERSARIAL[rnd.randrange(len(ADVERSARIAL))]
    return UNIVERSE[rnd.randrange(len(UNIVERSE))]


def gen_spec(rnd, depth=0, adversarial_pct=18):
    n = rnd.randrange(1, 5) if depth == 0 else rnd.randrange(1, 4)
    ents = []
    for _ in range(n):
        name = gen_name(rnd, adversarial_pct)
        k = rnd.randrange(10)
        if k <= 3:
            ents.append(blob(name, BLOB_MODES[rnd.randrange(len(BLOB_MODES))] if chance(rnd, 30) else F))
        elif k <= 6:
            tg = targets(depth)
            ents.append(link(name, tg[rnd.randrange(len(tg))][0], LINK_MODES[rnd.randrange(len(LINK_MODES))]))
        elif k <= 8 and depth < 2:
            ents.append(tree(name, gen_spec(rnd, depth + 1, adversarial_pct), TREE_MODES[rnd.randrange(len(TREE_MODES))]))
        elif k == 9:
            ents.append(gitlink(name))
        else:
            ents.append(blob(name))
    order = rnd.randrange(8)
    if order < 6:
        # canonical order without duplicate names (the usual tree)
        seen, out = set(), []
        for e in canonical(ents):
            if e[1] not in seen:
                seen.add(e[1])
                out.append(e)
        return out
    if order == 6:
        return ents  # raw: unsorted, duplicates possible
    dup = ents[rnd.randrange(len(ents))]
    other_kind = link(dup[1], targets(depth)[rnd.randrange(8)][0]) if dup[2] != "l" else tree(dup[1], [blob(b"b"), blob(b"x")])
    return canonical(ents + [other_kind])  # duplicate name with another type


def free_case(rnd):
    nt = rnd.randrange(1, 5)
    trees = [gen_spec(rnd) for _ in range(nt)]
    ns = rnd.randrange(1, 5)
    steps = [make_step(rnd, FIRST_OPS[rnd.randrange(len(FIRST_OPS))], rnd.randrange(nt))]
    for _ in range(ns - 1):
        op = LATER_OPS[rnd.randrange(len(LATER_OPS))]
        if chance(rnd, 15):
            op = ["checkout_paths", "restore", "reset_file", "stash_roundtrip", "stash_push", "stash_pop"][rnd.randrange(6)]
        st = make_step(rnd, op, rnd.randrange(nt))
        if op in ("checkout_paths", "restore", "reset_file"):
            leaves = flatten(trees[st["tree"]])
            st["paths"] = [leaves[rnd.randrange(len(leaves))][0] for _ in range(rnd.randrange(1, 3))] if leaves else [b"a"]
        steps.append(st)
    return {"cfg": pick_cfg(rnd), "born": bool(rnd.randrange(2)), "trees": trees, "steps": steps, "shape": "free"}


# ---------------------------------------------------------------------------
# part C: patch application on top of a checkout

PATCH_PATHS = [
    b"p", b"newfile", b"d/g", b"d/new", b"lnk/x", b"lnk/b", b"lnk/sub/c", b"lnk/hooks/x", b"lnk/config", b"f", b"f2", b"../x", b"../other/b",
    b"../canary.txt", b"d/../../other/x", b"a/../../../x", b"@S@/sandbox/abs-x", b"@S@/sandbox/canary.txt", b"@W@/.git/hooks/abs", b".git/hooks/x",
    b".git/config", b".git/hooks/pre-commit", b".GIT/x", b".git /x", b"git~1/x", b"d/.git/x", b".", b"", b"lnk", b"d", b"d/lnk2/x", b"d/lnk2/b",
    b".g" + ZW + b"it/x", b"./p", b"d//g", b"lnk/../x", b"newdir/deep/file",
]


def patch_case(rnd):
    tg = targets(0)
    dir_t = [t for t, c in tg if c != "in"][rnd.randrange(20)]
    file_t = [b"../canary.txt", b".git/config", b".git/hooks/pre-commit", b"@S@/sandbox/canary.txt", b".git/hooks/new-hook", b"../other/b",
              b"../new-file", b".git/canary", b"@W@/.git/description", b"p"][rnd.randrange(10)]
    t1 = targets(1)
    base = canonical([
        blob(b"p", F, b"line2\nline3\n"), tree(b"d", [blob(b"g", F, b"line2\n"), link(b"lnk2", [t for t, c in t1 if c != "in"][rnd.randrange(20)])]),
        link(b"lnk", dir_t), link(b"f", file_t), link(b"f2", [b"../other/x", b".git/hooks/b", b".git/HEAD", b".git/index"][rnd.randrange(4)]),
    ])
    nfiles = rnd.randrange(1, 4)
    files = []
    for i in range(nfiles):
        kind = ["add", "modify", "delete", "rename", "copy", "add", "modify3"][rnd.randrange(7)]
        path = PATCH_PATHS[rnd.randrange(len(PATCH_PATHS))]
        fp = {"kind": kind, "path": path, "mode": [F, X, 0o104755, 0o100777][rnd.randrange(4)] if chance(rnd, 40) else F}
        if kind in ("rename", "copy"):
            fp["to"] = PATCH_PATHS[rnd.randrange(len(PATCH_PATHS))]
            fp["hunks"] = bool(rnd.randrange(2))
        files.append(fp)
    step = {"op": "apply_patch", "tree": 0, "files": files, "strip": [1, 1, 1, 0][rnd.randrange(4)], "three_way": chance(rnd, 10),
            "reverse": chance(rnd, 8), "cached": chance(rnd, 6)}
    first = ["reset_hard", "checkout", "clone", "build"][rnd.randrange(4)]
    steps = [make_step(rnd, first, 0), step]
    if chance(rnd, 25):
        steps.append(make_step(rnd, LATER_OPS[rnd.randrange(4)], 1))
    return {"cfg": pick_cfg(rnd), "born": bool(rnd.randrange(2)), "trees": [base, [blob(b"q")]], "steps": steps, "shape": "patch"}


# ---------------------------------------------------------------------------
# static description of a case (labels, non-triviality inputs)


def step_pairs(case):
    """Consecutive (earlier tree index, later tree index) pairs of the whole-tree steps."""
    seq = [s["tree"] for s in case["steps"] if "tree" in s and s["op"] not in ("apply_patch", "stash_roundtrip")]
    return [(seq[i], seq[i + 1]) for i in range(len(seq) - 1)]


def static_labels(case):
    labels = set()
    trees = case["trees"]
    flats = [flatten(t) for t in trees]
    dirs = [dir_paths(t) for t in trees]
    for ti, fl in enumerate(flats):
        names = [e[1] for e in trees[ti]]
        if len(names) != len(set(names)):
            labels.add("duplicate-name")
        if [e[1] + (b"/" if e[2] == "t" else b"") for e in trees[ti]] != sorted(e[1] + (b"/" if e[2] == "t" else b"") for e in trees[ti]):
            labels.add("unsorted-tree")
        links = {p for p, m, k, _ in fl if k == "l"}
        if links & dirs[ti]:
            labels.add("symlink-and-directory-same-tree")
        for p, m, k, pl in fl:
            if k == "b" and m not in (F, X):
                labels.add("odd-blob-mode")
            if k == "b" and m & 0o7000:
                labels.add("setuid-setgid-sticky")
            if k == "b" and m & 0o022:
                labels.add("group-or-world-writable")
            if k == "g":
                labels.add("gitlink")
            if k == "l":
                cls = _target_class(pl, p.count(b"/"))
                labels.add("symlink-" + cls)
            low = p.lower()
            if b"git" in low and any(c.lower().strip(b". ") in (b".git", b"git~1") or b".git" in c.lower() or b"git~1" in c.lower() or ZW in c
                                       for c in p.replace(b"\\", b"/").split(b"/")):
                labels.add("dotgit-variant")
            if b"\\" in p:
                labels.add("backslash-name")
    for name in (e[1] for t in trees for e in _all_entries(t)):
        if b"/" in name:
            labels.add("slash-in-name")
        if name in (b"", b".", b".."):
            labels.add("dot-or-empty-name")
        if name.startswith(b"@"):
            labels.add("absolute-name")
    for i, j in step_pairs(case):
        if i == j:
            continue
        files_i = {p: k for p, m, k, _ in flats[i]}
        files_j = {p: k for p, m, k, _ in flats[j]}
        for p, k in files_i.items():
            if k == "l" and p in dirs[j]:
                labels.add("symlink-then-directory")
            if k == "b" and p in dirs[j]:
                labels.add("file-then-directory")
            if k == "l" and files_j.get(p) == "b":
                labels.add("symlink-then-file")
        for p, k in files_j.items():
            if k == "l" and p in dirs[i]:
                labels.add("directory-then-symlink")
            if k == "b" and p in dirs[i]:
                labels.add("directory-then-file")
    return labels


def _all_entries(spec):
    for e in spec:
        yield e
        if e[2] == "t":
            yield from _all_entries(e[3])


def _target_class(t: bytes, depth: int = 0) -> str:
    """Where a symlink at ``depth`` directories below the work tree root points: outside / into-git / inside."""
    if t.startswith(b"@"):
        if t.startswith(b"@W@/.git"):
            return "absolute-into-git"
        return "inside" if t.startswith(b"@W@") else "absolute-outside"
    parts = [x for x in t.split(b"/") if x and x != b"."]
    ups = 0
    while ups < len(parts) and parts[ups] == b"..":
        ups += 1
    rest = parts[ups:]
    if ups > depth:
        if rest[:1] == [b"work"] and ups == depth + 1:
            return "into-git" if rest[1:2] == [b".git"] else "inside"
        return "outside"
    if ups == depth and rest[:1] == [b".git"]:
        return "into-git"
    return "inside"


def has_escaping_symlink(case):
    for t in case["trees"]:
        for p, m, k, pl in flatten(t):
            if k == "l" and _target_class(pl, p.count(b"/")) != "inside":
                return True
    return False
