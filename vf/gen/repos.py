"""Small deterministic repositories + an independent closure walker.

Used by C09 / C08 / C10 (and available to others).  Everything is built
through dulwich's public API with fixed timestamps, so two builds are
byte-identical.
"""

from __future__ import annotations

import hashlib
import os
import zlib


def mk_commit(tree_id, parents, n, msg=None):
    from dulwich.objects import Commit

    c = Commit()
    c.tree = tree_id
    c.parents = list(parents)
    c.author = c.committer = b"A U Thor <author@example.com>"
    c.author_time = c.commit_time = 1_000_000_000 + n
    c.author_timezone = c.commit_timezone = 0
    c.message = msg or (b"commit %d\n" % n)
    return c


def mk_tree(store, listing):
    """listing: {path: (mode, bytes)} -> tree id (objects added to store)."""
    from dulwich.index import commit_tree
    from dulwich.objects import Blob

    blobs = []
    for path, (mode, data) in sorted(listing.items()):
        b = Blob.from_string(data)
        store.add_object(b)
        blobs.append((path, b.id, mode))
    return commit_tree(store, blobs)


def build_history(repo, variant=0):
    """A 6-commit history with a merge, shared blobs/subtrees and an annotated tag.

    Returns dict(commits=[ids], tag=id, refs={name: id}).
    """
    from dulwich.objects import Tag

    s = repo.object_store
    base = {b"a": (0o100644, b"alpha\n"), b"dir/b": (0o100644, b"beta\n" * 20), b"dir/sub/c": (0o100755, b"#!/bin/sh\n"),
            b"link": (0o120000, b"a")}
    l1 = dict(base)
    l2 = dict(l1)
    l2[b"a"] = (0o100644, b"alpha 2\n")
    l3 = dict(l1)
    l3[b"dir/new"] = (0o100644, b"new %d\n" % variant)
    l4 = dict(l2)
    l4[b"dir/new"] = l3[b"dir/new"]
    l5 = dict(l4)
    del l5[b"link"]
    l5[b"a"] = (0o100644, b"alpha\n")  # reverted to an old blob
    cs = []
    t1 = mk_tree(s, l1)
    c1 = mk_commit(t1, [], 1)
    c2 = mk_commit(mk_tree(s, l2), [c1.id], 2)
    c3 = mk_commit(mk_tree(s, l3), [c1.id], 3)
    c4 = mk_commit(mk_tree(s, l4), [c2.id, c3.id], 4)
    c5 = mk_commit(mk_tree(s, l5), [c4.id], 5)
    c6 = mk_commit(t1, [], 6, b"unrelated root\n")
    for c in (c1, c2, c3, c4, c5, c6):
        s.add_object(c)
        cs.append(c.id)
    tag = Tag()
    tag.name = b"v1"
    tag.object = (type(c4), c4.id)
    tag.tagger = b"T <t@example.com>"
    tag.tag_time = 1_000_000_100
    tag.tag_timezone = 0
    tag.message = b"tag v1\n"
    s.add_object(tag)
    refs = {b"refs/heads/master": c5.id, b"refs/heads/topic": c3.id, b"refs/heads/other": c6.id, b"refs/tags/v1": tag.id,
            b"refs/tags/light": c2.id}
    return dict(commits=cs, tag=tag.id, refs=refs)


def init_repo(path, layout="loose", refs_layout="loose", variant=0, bare=False):
    """Create a repository in a given storage layout.  Returns (info dict)."""
    from dulwich.repo import Repo

    os.makedirs(path)
    r = Repo.init_bare(path) if bare else Repo.init(path)
    try:
        info = build_history(r, variant)
        for name, val in info["refs"].items():
            r.refs[name] = val
        r.refs.set_symbolic_ref(b"HEAD", b"refs/heads/master")
        if layout == "packed":
            r.object_store.pack_loose_objects()
        elif layout == "mixed":
            # pack what is reachable from topic, leave the rest loose
            r.object_store.pack_loose_objects()
            extra = dict(info)
            from dulwich.objects import Blob

            b = Blob.from_string(b"loose extra %d\n" % variant)
            r.object_store.add_object(b)
            t = mk_tree(r.object_store, {b"x": (0o100644, b"loose extra %d\n" % variant), b"a": (0o100644, b"alpha\n")})
            c = mk_commit(t, [info["commits"][4]], 7)
            r.object_store.add_object(c)
            r.refs[b"refs/heads/master"] = c.id
            info["commits"].append(c.id)
            info["refs"][b"refs/heads/master"] = c.id
        if refs_layout == "packed":
            r.refs.pack_refs(all=True)
        elif refs_layout == "mixed":
            r.refs.pack_refs(all=True)
            r.refs[b"refs/heads/topic"] = info["commits"][1]  # loose over stale packed
            info["refs"][b"refs/heads/topic"] = info["commits"][1]
            r.refs[b"refs/heads/looseonly"] = info["commits"][0]
            info["refs"][b"refs/heads/looseonly"] = info["commits"][0]
    finally:
        r.close()
    return info


# ---------------------------------------------------------------------------
# independent reading of a repository (no dulwich): loose objects only need zlib


def parse_object_refs(type_name: bytes, data: bytes):
    """Ids referenced by an object: (id hex bytes, is_gitlink)."""
    out = []
    if type_name == b"commit":
        for line in data.split(b"\n"):
            if not line:
                break
            if line.startswith(b"tree ") or line.startswith(b"parent "):
                out.append(line.split(b" ", 1)[1])
    elif type_name == b"tag":
        for line in data.split(b"\n"):
            if not line:
                break
            if line.startswith(b"object "):
                out.append(line.split(b" ", 1)[1])
    elif type_name == b"tree":
        pos = 0
        while pos < len(data):
            sp = data.index(b" ", pos)
            nul = data.index(b"\0", sp)
            mode = int(data[pos:sp], 8)
            sha = data[nul + 1 : nul + 21]
            pos = nul + 21
            if mode != 0o160000:
                out.append(sha.hex().encode())
    return out


def closure(get, tips):
    """BFS over commits->tree+parents, trees->entries (no gitlinks), tags->target.

    ``get(hex_id) -> (type_name, bytes)`` must raise KeyError for missing objects.
    Returns {id: (type, sha1(content))}; raises KeyError(id) on the first missing object.
    """
    seen = {}
    todo = list(tips)
    while todo:
        i = todo.pop()
        if i in seen:
            continue
        t, data = get(i)
        real = hashlib.sha1(t + b" " + str(len(data)).encode() + b"\0" + data).hexdigest().encode()
        if real != i:
            raise ValueError(f"object {i!r} hashes to {real!r}")
        seen[i] = (t, hashlib.sha1(data).hexdigest())
        todo.extend(parse_object_refs(t, data))
    return seen


def dulwich_getter(store):
    def get(i):
        o = store[i]
        return o.type_name, o.as_raw_string()

    return get
