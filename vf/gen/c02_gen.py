"""C02 generators: object-set specifications (plain data, replayable) and their materialisation.

A *spec list* describes a closed set of git objects by construction:

    ("B", bytes)                         literal blob
    ("P", seed, n)                       blob of n pseudo-random bytes (counter-mode SHA-1 of seed)
    ("R", pattern, n)                    blob: pattern repeated to n bytes
    ("E", i, permille, dele, ins)        blob: content of blob i with `dele` bytes at len*permille/1000 replaced by `ins`
    ("D", i, ops)                        blob: result of copy/insert ops over blob i (ops as in c02_packref.make_delta)
    ("T", [(kind, name, j), ...])        tree; kind in f(ile) x(exec) l(ink) d(ir); j = index of an earlier blob/tree
    ("C", tree_j, [parent_j...], msg)    commit
    ("G", target_j, name, msg)           annotated tag

Indices always point to *earlier* specs, so every set is closed under
reachability (git index-pack --strict accepts it) and acyclic.
"""

from __future__ import annotations

import hashlib

from ..model import c02_packref as ref

BOUNDARY_SIZES = [0, 1, 15, 16, 17, 127, 128, 2047, 2048, 2049, 16383, 16384, 65535, 65536, 65537]
HUGE_SIZES = [(1 << 18) - 1, 1 << 18, (1 << 18) + 1]
KIND_MODE = {"f": 0o100644, "x": 0o100755, "l": 0o120000, "d": 0o40000}


def pseudo(seed: int, n: int) -> bytes:
    out = bytearray()
    i = 0
    while len(out) < n:
        out += hashlib.sha1(b"c02:%d:%d" % (seed, i)).digest()
        i += 1
    return bytes(out[:n])


class Obj:
    __slots__ = ("type", "data", "name", "spec_index")

    def __init__(self, type_num, data, hash_len, k):
        self.type = type_num
        self.data = data
        self.name = ref.oid(type_num, data, hash_len)
        self.spec_index = k


def materialise(specs, hash_len=20):
    """-> list of Obj, one per spec (duplicates by id are possible: the caller dedups)."""
    objs = []
    for k, s in enumerate(specs):
        kind = s[0]
        if kind == "B":
            t, data = 3, bytes(s[1])
        elif kind == "P":
            t, data = 3, pseudo(s[1], s[2])
        elif kind == "R":
            pat = bytes(s[1]) or b"\0"
            t, data = 3, (pat * (s[2] // len(pat) + 1))[: s[2]]
        elif kind == "E":
            _, i, permille, dele, ins = s
            b = objs[i].data
            pos = len(b) * permille // 1000
            t, data = 3, b[:pos] + bytes(ins) + b[pos + dele :]
        elif kind == "D":
            _, i, ops = s
            t, data = 3, ref.make_delta(objs[i].data, [tuple(o) for o in ops])[1]
        elif kind == "T":
            ents = []
            seen = set()
            for ek, name, j in s[1]:
                name = bytes(name)
                if name in seen:
                    continue
                seen.add(name)
                o = objs[j]
                if (ek == "d") != (o.type == 2) or o.type not in (2, 3):
                    ek = "d" if o.type == 2 else "f"
                    if o.type not in (2, 3):
                        continue
                ents.append((name + (b"/" if ek == "d" else b""), KIND_MODE[ek], name, o.name))
            ents.sort()
            t, data = 2, b"".join(b"%o %s\0%s" % (mode, name, oid) for _, mode, name, oid in ents)
        elif kind == "C":
            _, tj, parents, msg = s
            lines = [b"tree " + objs[tj].name.hex().encode()]
            for p in parents:
                lines.append(b"parent " + objs[p].name.hex().encode())
            lines.append(b"author A U Thor <author@example.com> 1000000000 +0000")
            lines.append(b"committer C O Mitter <committer@example.com> 1000000000 +0000")
            t, data = 1, b"\n".join(lines) + b"\n\n" + bytes(msg)
        elif kind == "G":
            _, j, name, msg = s
            o = objs[j]
            t = 4
            data = (
                b"object " + o.name.hex().encode() + b"\ntype " + ref.TYPE_NAMES[o.type] + b"\ntag " + bytes(name)
                + b"\ntagger T Agger <tagger@example.com> 1000000000 +0000\n\n" + bytes(msg)
            )
        else:
            raise ValueError(f"unknown spec {s!r}")
        objs.append(Obj(t, data, hash_len, k))
    return objs


def unique(objs):
    """First occurrence of every id, in spec order."""
    seen = set()
    out = []
    for o in objs:
        if o.name not in seen:
            seen.add(o.name)
            out.append(o)
    return out


def simple_delta(base: bytes, target: bytes):
    """Common prefix / literal middle / common suffix: a valid delta for any pair."""
    p = 0
    m = min(len(base), len(target))
    while p < m and base[p] == target[p]:
        p += 1
    s = 0
    while s < m - p and base[len(base) - 1 - s] == target[len(target) - 1 - s]:
        s += 1
    ops = []
    if p:
        ops.append(("c", 0, p))
    mid = target[p : len(target) - s]
    if mid:
        ops.append(("i", mid))
    if s:
        ops.append(("c", len(base) - s, s))
    delta, out = ref.make_delta(base, ops)
    assert out == target
    return delta


# ---------------------------------------------------------------------------
# Hypothesis strategies


def strategies():
    from hypothesis import strategies as st

    names = st.sampled_from([b"a", b"b", b"a.b", b"a-", b"a0", b"ab", b"A", b"z", b"d", b"d.x", b"file with space", b"caf\xc3\xa9", b"x\xff"])
    small = st.binary(max_size=40)
    msg = st.sampled_from([b"", b"m\n", b"subject\n\nbody\n", b"no newline", b"\n\n"])

    @st.composite
    def specs(draw, max_objs=40, max_blob=65537, huge=False, family_bias=True, min_objs=0):
        out = []
        blobs, trees, commits, tags = [], [], [], []
        nfam = draw(st.integers(0 if min_objs == 0 else 1, 3))
        budget = max_objs
        for _ in range(nfam):
            if budget <= 0:
                break
            form = draw(st.sampled_from(["P", "P", "R", "B", "size"]))
            if form == "P":
                n = draw(st.sampled_from([40, 300, 1000, 2047, 2048, 4096, 8192] + ([20000, 65536, 70000] if max_blob > 65536 else [])))
                out.append(("P", draw(st.integers(0, 5)), min(n, max_blob)))
            elif form == "R":
                n = draw(st.sampled_from([17, 127, 128, 1000, 5000, 16384]))
                out.append(("R", draw(st.binary(min_size=1, max_size=4)), min(n, max_blob)))
            elif form == "B":
                out.append(("B", draw(st.binary(max_size=200))))
            else:
                n = draw(st.sampled_from([s for s in BOUNDARY_SIZES if s <= max_blob] + (HUGE_SIZES if huge else [])))
                out.append(("P", draw(st.integers(0, 5)), n) if draw(st.booleans()) else ("R", b"\0", n))
            root = len(out) - 1
            blobs.append(root)
            budget -= 1
            members = [root]
            for _ in range(draw(st.integers(0, min(budget, 11 if family_bias else 3)))):
                src = draw(st.sampled_from(members))
                out.append(("E", src, draw(st.integers(0, 1000)), draw(st.integers(0, 40)),
                            draw(st.one_of(small, st.just(b""), st.binary(min_size=100, max_size=300)))))
                members.append(len(out) - 1)
                blobs.append(len(out) - 1)
                budget -= 1
        for _ in range(draw(st.integers(0, max(0, min(budget, 6))))):
            form = draw(st.sampled_from(["lit", "size", "empty", "dup"]))
            if form == "lit":
                out.append(("B", draw(small)))
            elif form == "size":
                out.append(("R", draw(st.binary(min_size=1, max_size=3)), draw(st.sampled_from([s for s in BOUNDARY_SIZES if s <= max_blob]))))
            elif form == "empty":
                out.append(("B", b""))
            else:
                if not blobs:
                    continue
                out.append(("E", draw(st.sampled_from(blobs)), 0, 0, b""))  # identical content: same id, dropped as duplicate
            blobs.append(len(out) - 1)
            budget -= 1
        # trees, commits, tags on top
        for _ in range(draw(st.integers(0, max(0, min(budget, 5))))):
            n = draw(st.integers(0, 6))
            ents = []
            for _ in range(n):
                pool = blobs + trees
                if not pool:
                    break
                j = draw(st.sampled_from(pool))
                ek = "d" if j in trees else draw(st.sampled_from(["f", "f", "x", "l"]))
                ents.append((ek, draw(names), j))
            out.append(("T", ents))
            trees.append(len(out) - 1)
            budget -= 1
        for _ in range(draw(st.integers(0, max(0, min(budget, 4))))):
            if not trees:
                break
            parents = draw(st.lists(st.sampled_from(commits), max_size=3, unique=True)) if commits else []
            out.append(("C", draw(st.sampled_from(trees)), parents, draw(msg)))
            commits.append(len(out) - 1)
            budget -= 1
        for _ in range(draw(st.integers(0, max(0, min(budget, 2))))):
            pool = blobs + trees + commits + tags
            if not pool:
                break
            out.append(("G", draw(st.sampled_from(pool)), draw(st.sampled_from([b"v1", b"v1.0", b"t"])), draw(msg)))
            tags.append(len(out) - 1)
            budget -= 1
        return out

    return dict(specs=specs, st=st, small=small)
