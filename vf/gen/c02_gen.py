"""C02 generators: object-set specifications (plain data, replayable) and their materialisation.

A *spec list* describes a closed set of git objects by construction:

    ("B", bytes)                         literal blob
    ("P", seed, n)                       blob of n pseudo-random bytes (counter-mode SHA-1 of seed)
    ("R", pattern, n)                    blob: pattern repeated to n bytes
    ("E", i, permille, dele, ins)        blob: content of blob i with `dele` bytes at len*permille/1000 replaced by `ins`
    ("D", i, ops)                        blob: result of copy/insert ops over blob i (ops as in c02_packref.make_delta)
    ("X", j, suffix)                     blob whose bytes are those of object j (any type) + suffix: type-confusable content
    ("T", [(kind, name, j), ...])        tree; kind in f(ile) x(exec) l(ink) d(ir); j = index of an earlier blob/tree
    ("C", tree_j, [parent_j...], msg)    commit
    ("G", target_j, name, msg)           annotated tag

Indices always point to *earlier* specs, so every set is closed under
reachability (git index-pack --strict accepts it) and acyclic.
"""

from __future__ import annotations

import hashlib

from ..model import c02_packref as ref

BOUNDARY_SIZES = [0, 1, 15, 16, 17, 127, 128, 2047, 2048, 2049, 16383, 16384, 65535, 65536, 65537]
HUGE_SIZES = [(1 << 18) - 1, 1 << 18, (1 << 18) + 1]
KIND_MODE = {"f": 0o100644, "x": 0o100755, "l": 0o120000, "d": 0o40000}


def pseudo(seed: int, n: int) -> bytes:
    out = bytearray()
    i = 0
    while len(out) < n:
        out += hashlib.sha1(b"c02:%d:%d" % (seed, i)).digest()
        i += 1
    return bytes(out[:n])


class Obj:
    __slots__ = ("type", "data", "name", "spec_index")

    def __init__(self, type_num, data, hash_len, k):
        self.type = type_num
        self.data = data
        self.name = ref.oid(type_num, data, hash_len)
        self.spec_index = k


def norm_ops(base_len, ops):
    """Clamp drawn copy operations into the base (keeps every drawn case valid by construction)."""
    out = []
    for o in ops:
        if o[0] == "c":
            if base_len == 0:
                continue
            off = min(o[1], base_len - 1)
            out.append(("c", off, max(1, min(o[2], base_len - off))))
        else:
            out.append(("i", bytes(o[1])))
    return out or [("i", b"x")]


_ZEXACT = {}


def zexact(seed, k, level):
    import zlib

    key = (seed, k, level)
    if key not in _ZEXACT:
        want = k * 65536
        src = pseudo(seed, want)
        found = None
        for L in range(want - 11, want - 400, -1):  # overhead of stored blocks: a few bytes per 16-64 KiB
            n = len(zlib.compress(src[:L], level))
            if n == want:
                found = L
                break
            if n < want - 8:
                break
        _ZEXACT[key] = src[:found] if found is not None else src[: want - 11]
    return _ZEXACT[key]


def materialise(specs, hash_len=20):
    """-> list of Obj, one per spec (duplicates by id are possible: the caller dedups)."""
    objs = []
    for k, s in enumerate(specs):
        kind = s[0]
        if kind == "B":
            t, data = 3, bytes(s[1])
        elif kind == "P":
            t, data = 3, pseudo(s[1], s[2])
        elif kind == "Z":
            # incompressible content cut so that its deflate stream at the given level is exactly k * 64 KiB long (the
            # slice size of the mmap inflater): ("Z", seed, k, level)
            t, data = 3, zexact(s[1], s[2], s[3])
        elif kind == "R":
            pat = bytes(s[1]) or b"\0"
            t, data = 3, (pat * (s[2] // len(pat) + 1))[: s[2]]
        elif kind == "E":
            _, i, permille, dele, ins = s
            b = objs[i].data
            pos = len(b) * permille // 1000
            t, data = 3, b[:pos] + bytes(ins) + b[pos + dele :]
        elif kind == "D":
            _, i, ops = s
            t, data = 3, ref.make_delta(objs[i].data, norm_ops(len(objs[i].data), ops))[1]
        elif kind == "X":
            t, data = 3, objs[s[1]].data + bytes(s[2])
        elif kind == "T":
            ents = []
            seen = set()
            for ek, name, j in s[1]:
                name = bytes(name)
                if name in seen:
                    continue
                seen.add(name)
                o = objs[j]
                if (ek == "d") != (o.type == 2) or o.type not in (2, 3):
                    ek = "d" if o.type == 2 else "f"
                    if o.type not in (2, 3):
                        continue
                ents.append((name + (b"/" if ek == "d" else b""), KIND_MODE[ek], name, o.name))
            ents.sort()
            t, data = 2, b"".join(b"%o %s\0%s" % (mode, name, oid) for _, mode, name, oid in ents)
        elif kind == "C":
            _, tj, parents, msg = s
            lines = [b"tree " + objs[tj].name.hex().encode()]
            for p in parents:
                lines.append(b"parent " + objs[p].name.hex().encode())
            lines.append(b"author A U Thor <author@example.com> 1000000000 +0000")
            lines.append(b"committer C O Mitter <committer@example.com> 1000000000 +0000")
            t, data = 1, b"\n".join(lines) + b"\n\n" + bytes(msg)
        elif kind == "G":
            _, j, name, msg = s
            o = objs[j]
            t = 4
            data = (
                b"object " + o.name.hex().encode() + b"\ntype " + ref.TYPE_NAMES[o.type] + b"\ntag " + bytes(name)
                + b"\ntagger T Agger <tagger@example.com> 1000000000 +0000\n\n" + bytes(msg)
            )
        else:
            raise ValueError(f"unknown spec {s!r}")
        objs.append(Obj(t, data, hash_len, k))
    return objs


def unique(objs):
    """First occurrence of every id, in spec order."""
    seen = set()
    out = []
    for o in objs:
        if o.name not in seen:
            seen.add(o.name)
            out.append(o)
    return out


def simple_delta(base: bytes, target: bytes):
    """Common prefix / literal middle / common suffix: a valid delta for any pair."""
    p = 0
    m = min(len(base), len(target))
    while p < m and base[p] == target[p]:
        p += 1
    s = 0
    while s < m - p and base[len(base) - 1 - s] == target[len(target) - 1 - s]:
        s += 1
    ops = []
    if p:
        ops.append(("c", 0, p))
    mid = target[p : len(target) - s]
    if mid:
        ops.append(("i", mid))
    if s:
        ops.append(("c", len(base) - s, s))
    delta, out = ref.make_delta(base, ops)
    assert out == target
    return delta


# ---------------------------------------------------------------------------
# Hypothesis strategies


def strategies():
    from hypothesis import strategies as st

    names = st.sampled_from([b"a", b"b", b"a.b", b"a-", b"a0", b"ab", b"A", b"z", b"d", b"d.x", b"file with space", b"caf\xc3\xa9", b"x\xff"])
    small = st.binary(max_size=40)
    msg = st.sampled_from([b"", b"m\n", b"subject\n\nbody\n", b"no newline", b"\n\n"])

    PROFILES = dict(
        # name: (families, root sizes, max members per family, extra blobs, allow D-ops)
        plain=((1, 3), [40, 300, 1000, 2047, 2048, 4096, 8192, 20000, 65535, 65536, 65537] + BOUNDARY_SIZES, 3, 6, False),
        # Myers in the debug-profile Rust build costs (N+M)*D, difflib is quadratic: unrelated pairs must stay small
        deltify=((1, 2), [15, 16, 40, 127, 128, 300, 600], 8, 2, False),
        deltify1=((1, 1), [1000, 2047, 2048, 4096], 7, 0, False),
        hand=((1, 3), [0, 16, 40, 127, 128, 300, 2047, 2048, 8192, 65536, 70000, 140000], 8, 4, True),
        git=((1, 3), [40, 300, 1000, 2047, 2048, 5000, 20000, 70000], 10, 4, False),
    )

    @st.composite
    def specs(draw, profile="plain", max_objs=40, huge=False):
        (fmin, fmax), sizes, maxmem, maxextra, dops = PROFILES[profile]
        out = []
        blobs, trees, commits, tags = [], [], [], []
        nfam = draw(st.integers(fmin, fmax))
        budget = max_objs
        for _ in range(nfam):
            if budget <= 0:
                break
            if profile in ("plain", "hand", "git") and budget >= 8 and draw(st.integers(0, 3)) == 0:
                # one object per common compression level whose deflate stream is exactly 64 KiB (or 128 KiB) long
                k = draw(st.sampled_from([1, 1, 2]))
                zs = draw(st.integers(0, 3))
                for lvl in (-1, 0, 1, 9):
                    out.append(("Z", zs, k, lvl))
                    blobs.append(len(out) - 1)
                    budget -= 1
            n = draw(st.sampled_from(sizes + (HUGE_SIZES if huge else [])))
            form = draw(st.sampled_from(["P", "P", "R", "B"]))
            if form == "P" or (form == "B" and n > 200):
                out.append(("P", draw(st.integers(0, 5)), n))
            elif form == "R":
                out.append(("R", draw(st.binary(min_size=1, max_size=4)), n))
            else:
                out.append(("B", draw(st.binary(min_size=n, max_size=n))))
            root = len(out) - 1
            blobs.append(root)
            budget -= 1
            members = [root]
            chain = draw(st.booleans())
            for _ in range(draw(st.integers(min(budget, maxmem) // 2, min(budget, maxmem)))):
                src = members[-1] if chain else draw(st.sampled_from(members))
                if dops and n >= 65536 and draw(st.integers(0, 2)) == 0:
                    # explicit operations: a copy longer than 64 KiB (must be split) and offsets needing 1..3 bytes
                    ops = []
                    for _ in range(draw(st.integers(1, 3))):
                        if draw(st.integers(0, 3)):
                            off = draw(st.sampled_from([0, 1, 255, 256, 65535, 65536]))
                            ln = draw(st.sampled_from([1, 100, 65535, 65536, 65537, 69000]))
                            ops.append(("c", off, ln))
                        else:
                            ops.append(("i", draw(st.binary(min_size=1, max_size=130))))
                    out.append(("D", root, ops))  # always over the root: its length is known to be n
                else:
                    out.append(("E", src, draw(st.integers(0, 1000)), draw(st.integers(0, 40)),
                                draw(st.one_of(st.binary(min_size=1, max_size=40), st.binary(min_size=100, max_size=300)))))
                    members.append(len(out) - 1)
                blobs.append(len(out) - 1)
                budget -= 1
        for _ in range(draw(st.integers(0, max(0, min(budget, maxextra))))):
            form = draw(st.sampled_from(["lit", "size", "empty", "dup"]))
            if form == "lit":
                out.append(("B", draw(small)))
            elif form == "size":
                out.append(("R", draw(st.binary(min_size=1, max_size=3)), draw(st.sampled_from([x for x in BOUNDARY_SIZES if x <= max(sizes)]))))
            elif form == "empty":
                out.append(("B", b""))
            else:
                if not blobs:
                    continue
                out.append(("E", draw(st.sampled_from(blobs)), 0, 0, b""))  # identical content: same id, dropped as duplicate
            blobs.append(len(out) - 1)
            budget -= 1
        # trees, commits, tags on top
        for _ in range(draw(st.integers(0, max(0, min(budget, 5))))):
            n = draw(st.integers(0, 6))
            ents = []
            for _ in range(n):
                pool = blobs + trees
                if not pool:
                    break
                j = draw(st.sampled_from(pool))
                ek = "d" if j in trees else draw(st.sampled_from(["f", "f", "x", "l"]))
                ents.append((ek, draw(names), j))
            out.append(("T", ents))
            trees.append(len(out) - 1)
            budget -= 1
        for _ in range(draw(st.integers(0, max(0, min(budget, 4))))):
            if not trees:
                break
            parents = draw(st.lists(st.sampled_from(commits), max_size=3, unique=True)) if commits else []
            out.append(("C", draw(st.sampled_from(trees)), parents, draw(msg)))
            commits.append(len(out) - 1)
            budget -= 1
        for _ in range(draw(st.integers(0, max(0, min(budget, 2))))):
            pool = blobs + trees + commits + tags
            if not pool:
                break
            out.append(("G", draw(st.sampled_from(pool)), draw(st.sampled_from([b"v1", b"v1.0", b"t"])), draw(msg)))
            tags.append(len(out) - 1)
            budget -= 1
        # blobs that look like a tree / commit / tag of the same set
        for _ in range(draw(st.integers(0, 2)) if (trees or commits or tags) else 0):
            out.append(("X", draw(st.sampled_from(trees + commits + tags)), draw(st.sampled_from([b"", b"", b"\n", b"x"]))))
        return out

    return dict(specs=specs, st=st, small=small)
