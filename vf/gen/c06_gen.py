"""C06 input builders: a fixed object universe, server repository templates and packs.

The universe is deterministic (fixed timestamps).  Objects are *created* through dulwich's object classes (they are
inputs, not oracles); packs sent to the server are written by the independent writer in vf/model/packfmt.py.
"""

from __future__ import annotations

import binascii
import os
import shutil
import zlib

from .. import cgit
from ..model import packfmt
from . import repos

ZERO = b"0" * 40
TYPE_NUM = {b"commit": 1, b"tree": 2, b"blob": 3, b"tag": 4}

REFS_LAYOUTS = ["loose", "packed", "mixed"]
OBJ_LAYOUTS = ["loose", "packed"]

UPDATE_HOOK = b"""#!/bin/sh
# decline every ref whose name contains "forbidden"
case "$1" in
  *forbidden*) echo "ref $1 is forbidden" >&2; exit 1;;
esac
exit 0
"""


class _Store:
    """add_object sink used while building the universe."""

    def __init__(self):
        self.objects = {}
        self.object_store = self

    def add_object(self, o):
        self.objects[o.id] = o

    def __contains__(self, k):
        return k in self.objects

    def __getitem__(self, k):
        return self.objects[k]


class Universe:
    """Objects known to the client; a subset (``server_ids``) is what the server starts with."""

    def __init__(self):
        from dulwich.objects import Blob, Tag

        s = _Store()
        # commit_tree() needs add_object only
        info = repos.build_history(s, 0)
        self.ids = {}
        for i, c in enumerate(info["commits"], 1):
            self.ids["c%d" % i] = c
        self.ids["tag"] = info["tag"]
        self.server_refs = dict(info["refs"])
        self.server_ids = set(s.objects)
        c = self.ids
        base = {b"a": (0o100644, b"alpha\n"), b"dir/b": (0o100644, b"beta\n" * 20), b"dir/sub/c": (0o100755, b"#!/bin/sh\n"),
                b"dir/new": (0o100644, b"new 0\n")}

        def commit(name, listing, parents, n):
            t = repos.mk_tree(s, listing)
            o = repos.mk_commit(t, parents, n, b"client commit " + name.encode() + b"\n")
            s.add_object(o)
            self.ids[name] = o.id
            return o

        l1 = dict(base)
        l1[b"a"] = (0o100644, b"alpha\n" + b"client line\n" * 30)
        n1 = commit("n1", l1, [c["c5"]], 11)
        l2 = dict(l1)
        l2[b"dir/sub/d"] = (0o100644, b"delta\n")
        commit("n2", l2, [n1.id], 12)
        l3 = dict(base)
        l3[b"topic-file"] = (0o100644, b"topic work\n")
        commit("n3", l3, [c["c3"]], 13)
        commit("r1", {b"README": (0o100644, b"an unrelated project\n")}, [], 14)
        # objects the client knows but never sends
        commit("x1", {b"a": (0o100644, b"never sent\n")}, [c["c5"]], 15)
        from dulwich.objects import Commit

        for name, target in (("t2", n1.id), ("t3", c["c5"])):
            tag = Tag()
            tag.name = name.encode()
            tag.object = (Commit, target)
            tag.tagger = b"T <t@example.com>"
            tag.tag_time = 1_000_000_200
            tag.tag_timezone = 0
            tag.message = b"client tag " + name.encode() + b"\n"
            s.add_object(tag)
            self.ids[name] = tag.id
        b = Blob.from_string(b"a blob pushed under refs/tags\n")
        s.add_object(b)
        self.ids["b1"] = b.id
        self.ids["rnd"] = b"deadbeef" * 5  # an id of nothing at all
        self.store = s
        self.raw = {i: (o.type_name, o.as_raw_string()) for i, o in s.objects.items()}
        self.name_of = {v: k for k, v in self.ids.items()}
        # tips whose closure may be sent in a pack / that exist on the server / that are never present
        self.pack_tips = ["n1", "n2", "n3", "r1", "t2", "t3", "b1"]
        self.server_tips = ["c1", "c2", "c3", "c4", "c5", "c6", "tag"]
        self.missing_tips = ["x1", "rnd"]

    def get(self, i):
        return self.raw[i]

    def closure(self, tips):
        return set(repos.closure(self.get, list(tips)))

    def pack_objects(self, tips, have=None, omit=()):
        """Ids to send for ``tips``: closure minus what the server has minus ``omit``; deterministic order."""
        have = self.server_ids if have is None else have
        ids = self.closure(tips) - set(have) - set(omit)
        order = {b"commit": 0, b"tag": 0, b"tree": 1, b"blob": 2}
        return sorted(ids, key=lambda i: (order[self.raw[i][0]], i))

    def build_pack(self, ids, style="full"):
        """Pack bytes for the listed object ids, written by the reference writer.

        style "full": every object whole.  "thin": the largest blob that has a server-side blob to lean on is sent
        as a REF_DELTA against it (a thin pack, as `git push` produces).  "ofs": same blob as an OFS_DELTA against
        another blob of the pack when there is one.
        """
        entries = []
        blobs = [i for i in ids if self.raw[i][0] == b"blob"]
        delta_for = None
        if style == "thin" and blobs:
            target = max(blobs, key=lambda i: len(self.raw[i][1]))
            base = self.ids_blob_on_server()
            delta_for = (target, "ref", base)
        for i in ids:
            t, data = self.raw[i]
            if delta_for and delta_for[0] == i:
                base_id = delta_for[2]
                base_data = self.raw[base_id][1]
                entries.append((packfmt.OBJ_REF_DELTA, make_delta(base_data, data), binascii.unhexlify(base_id)))
            else:
                entries.append((TYPE_NUM[t], data, None))
        return packfmt.build_pack(entries)

    def ids_blob_on_server(self):
        cands = sorted(i for i in self.server_ids if self.raw[i][0] == b"blob")
        return max(cands, key=lambda i: (len(self.raw[i][1]), i))


def make_delta(base: bytes, target: bytes) -> bytes:
    """A valid delta turning base into target: copy the common prefix, insert the rest (gitformat-pack "deltified")."""
    n = 0
    m = min(len(base), len(target), 0xFFFF)
    while n < m and base[n] == target[n]:
        n += 1
    out = bytearray(packfmt.enc_varint(len(base)) + packfmt.enc_varint(len(target)))
    if n:
        # copy offset 0 (no offset bytes), size n in up to 2 bytes
        cmd = 0x80
        size_bytes = bytearray()
        if n & 0xFF:
            cmd |= 0x10
            size_bytes.append(n & 0xFF)
        if n >> 8:
            cmd |= 0x20
            size_bytes.append(n >> 8)
        out.append(cmd)
        out += size_bytes
    rest = target[n:]
    for k in range(0, len(rest), 127):
        chunk = rest[k : k + 127]
        out.append(len(chunk))
        out += chunk
    return bytes(out)


# ---------------------------------------------------------------------------
# server repositories


def build_server(path, uni: Universe, refs_layout="loose", obj_layout="loose"):
    """A bare repository holding the server part of the universe."""
    from dulwich.repo import Repo

    os.makedirs(path)
    r = Repo.init_bare(path)
    try:
        for i in sorted(uni.server_ids):
            r.object_store.add_object(uni.store[i])
        if obj_layout == "packed":
            r.object_store.pack_loose_objects()
            for i in sorted(uni.server_ids):
                p = os.path.join(path, "objects", i[:2].decode(), i[2:].decode())
                if os.path.exists(p):
                    os.unlink(p)
        for name, val in uni.server_refs.items():
            r.refs[name] = val
        if refs_layout in ("packed", "mixed"):
            # packed by C git: header with the peeled/fully-peeled traits and a ^peeled line for the annotated tag
            r.close()
            cgit.git(["pack-refs", "--all"], cwd=path)
            r = Repo(path)
        if refs_layout == "mixed":
            r.refs[b"refs/heads/topic"] = uni.ids["c2"]  # loose over a stale packed entry
            r.refs[b"refs/heads/looseonly"] = uni.ids["c1"]
        r.refs.set_symbolic_ref(b"HEAD", b"refs/heads/master")
        r.refs.set_symbolic_ref(b"refs/heads/sym", b"refs/heads/other")
    finally:
        r.close()
    # reflogs, descriptions etc. are irrelevant; drop sample hooks so that only installed hooks run
    hooks = os.path.join(path, "hooks")
    if os.path.isdir(hooks):
        for f in os.listdir(hooks):
            os.unlink(os.path.join(hooks, f))
    else:
        os.mkdir(hooks)


def install_hook(gitdir, name, script: bytes):
    p = os.path.join(gitdir, "hooks", name)
    with open(p, "wb") as f:
        f.write(script)
    os.chmod(p, 0o755)


def rival_hook(actions) -> bytes:
    """A pre-receive hook that plays a second pusher finishing first: actions = [(ref, new hex | None for delete)].

    It runs between the moment the server has read the commands and the moment it applies them, i.e. exactly where a
    concurrent push can land.  It uses C git so that it is an actor independent of dulwich."""
    lines = [b"#!/bin/sh", b"cat >/dev/null"]
    for ref, new in actions:
        if new is None:
            lines.append(b"git update-ref -d " + ref + b" || exit 0")
        else:
            lines.append(b"git update-ref " + ref + b" " + new + b" || exit 0")
    lines.append(b"exit 0")
    return b"\n".join(lines) + b"\n"


def build_client_repo(path, uni: Universe):
    """A non-bare-less (bare) client repository with every universe object and a branch per tip (for `git push`)."""
    from dulwich.repo import Repo

    os.makedirs(path)
    r = Repo.init_bare(path)
    try:
        for i in sorted(uni.raw):
            r.object_store.add_object(uni.store[i])
        for name, i in uni.ids.items():
            if name == "rnd":
                continue
            t = uni.raw[i][0]
            if t == b"commit":
                r.refs[b"refs/heads/" + name.encode()] = i
            else:
                r.refs[b"refs/tags/" + name.encode()] = i
    finally:
        r.close()


def copy_template(template, dst):
    shutil.copytree(template, dst, symlinks=True)
    return dst
