"""C05 generators and the independent repository model.

A *history spec* is plain data (what replay files contain):

    {"commits": [{"parents": [int...], "ops": [op...], "t": int}, ...],
     "tags":    [{"target": target, "signed": bool}, ...],
     "refs":    [(name, target), ...],            # the sender's refs
     "head":    name | None}                      # symbolic HEAD target (None: detached at refs[0])

    target = ("c", i) | ("tree", i) | ("blob", fam, ver) | ("tag", k)
    op     = ("base", v) | ("set", p, fam, ver, exe) | ("bump", p, k) | ("del", p) | ("cpdir",) | ("link", k) | ("sym", k)
             | ("take", parent_no, p)

Objects are serialised by this module from the git object format (commit / tree /
tag grammar, `<type> <len>\\0` header, SHA-1), never by dulwich, and written as
loose files by hand; a repository is read back with ``git cat-file
--batch-all-objects`` or by inflating loose files.  So the model of "which
objects exist and what bytes they have" is independent of the code under test.
"""

from __future__ import annotations

import hashlib
import os
import zlib

from .repos import closure as _closure

# ---------------------------------------------------------------------------
# contents

PATHS = [b"a", b"b", b"d/x", b"d/y", b"d/s/z", b"e/x", b"e/y", b"e/s/z", b"big", b"c/only"]
NFAM = 5
NVER = 4
SYM_TARGETS = [b"a", b"d/x", b"../nowhere"]
GITLINKS = [hashlib.sha1(b"c05-gitlink-%d" % i).hexdigest().encode() for i in range(3)]


def doc(fam: int, ver: int) -> bytes:
    """Blob contents: families 0..3 are ~0.5-1.5 kB texts whose versions differ in a few lines (so C git's
    repack makes deltas between them); family 4 is tiny (never deltified)."""
    if fam == 4:
        return b"tiny %d\n" % ver
    n = 14 + 9 * fam
    lines = [b"family %d line %02d %s\n" % (fam, j, bytes([97 + (fam * 5 + j) % 26]) * (10 + (j * 7 + fam) % 30)) for j in range(n)]
    order = [3, 9, 0, 12, 6]
    for j in order[:ver]:
        lines[j] = b"family %d LINE %02d changed in version %d %s\n" % (fam, j, ver, b"#" * (5 + j))
    if ver == 3:
        lines.append(b"appended in version 3\n" * 3)
    return b"".join(lines)


def hexid(type_name: bytes, data: bytes) -> bytes:
    return hashlib.sha1(type_name + b" " + str(len(data)).encode() + b"\0" + data).hexdigest().encode()


def ser_tree(entries) -> bytes:
    """entries: [(name, mode, hexid)]; git order: directories compare as name + '/'."""
    def key(e):
        return e[0] + (b"/" if e[1] == 0o40000 else b"")

    return b"".join(b"%o %s\0%s" % (mode, name, bytes.fromhex(i.decode())) for name, mode, i in sorted(entries, key=key))


def ser_commit(tree, parents, t, n) -> bytes:
    out = [b"tree " + tree + b"\n"]
    out += [b"parent " + p + b"\n" for p in parents]
    out.append(b"author A U Thor <author@example.com> %d +0000\n" % (1_100_000_000 + t))
    out.append(b"committer C O Mitter <committer@example.com> %d +0000\n" % (1_100_000_000 + t))
    out.append(b"\ncommit %d\n" % n)
    return b"".join(out)


def ser_tag(target, target_type, name, k, signed) -> bytes:
    out = b"object %s\ntype %s\ntag %s\ntagger T Agger <tagger@example.com> %d +0000\n\ntag %d\n" % (
        target, target_type, name, 1_200_000_000 + k, k)
    if signed:
        out += b"-----BEGIN PGP SIGNATURE-----\n\nnotreallyasignature\n-----END PGP SIGNATURE-----\n"
    return out


# ---------------------------------------------------------------------------
# history


class History:
    """All objects a spec describes, and the ids of its commits / trees / tags."""

    def __init__(self, spec):
        self.spec = spec
        self.objs = {}  # hexid -> (type, data)
        self.commit_ids = []
        self.tree_ids = []
        self.tag_ids = []
        self.listings = []
        self.parents = [list(c["parents"]) for c in spec["commits"]]
        for n, c in enumerate(spec["commits"]):
            listing = self._listing(n, c)
            self.listings.append(listing)
            tree = self._write_tree(listing)
            self.tree_ids.append(tree)
            data = ser_commit(tree, [self.commit_ids[p] for p in c["parents"]], c["t"], n)
            self.commit_ids.append(self._add(b"commit", data))
        for k, t in enumerate(spec["tags"]):
            tid = self.resolve(t["target"])
            data = ser_tag(tid, self.objs[tid][0], b"t%d" % k, k, t.get("signed", False))
            self.tag_ids.append(self._add(b"tag", data))
        self.refs = {}
        for name, target in spec["refs"]:
            self.refs[name] = self.resolve(target)
        head = spec.get("head")
        self.head = head if head in self.refs else None  # symbolic target
        self.head_id = self.refs[head] if self.head else (self.refs[spec["refs"][0][0]] if spec["refs"] else None)

    def _add(self, t, data):
        i = hexid(t, data)
        self.objs[i] = (t, data)
        return i

    def _listing(self, n, c):
        ps = c["parents"]
        listing = dict(self.listings[ps[0]]) if ps else {}
        for op in c["ops"]:
            kind = op[0]
            if kind == "base":
                v = op[1]
                listing.update({b"a": ("f", 0, v % NVER, False), b"b": ("f", 4, v % NVER, False), b"d/x": ("f", 1, v % NVER, False),
                                b"d/y": ("f", 2, 0, True), b"d/s/z": ("f", 3, v % NVER, False)})
            elif kind == "set":
                listing[PATHS[op[1] % len(PATHS)]] = ("f", op[2] % NFAM, op[3] % NVER, bool(op[4]))
            elif kind == "bump":
                # next version of whatever file lives at the path (same family: the blobs deltify against each other)
                p = PATHS[op[1] % len(PATHS)]
                v = listing.get(p)
                if v is not None and v[0] == "f":
                    listing[p] = ("f", v[1], (v[2] + 1 + op[2] % (NVER - 1)) % NVER, v[3])
                else:
                    listing[p] = ("f", op[1] % 4, op[2] % NVER, False)
            elif kind == "del":
                listing.pop(PATHS[op[1] % len(PATHS)], None)
            elif kind == "cpdir":
                for p in [p for p in listing if p.startswith(b"e/")]:
                    del listing[p]
                for p, v in list(listing.items()):
                    if p.startswith(b"d/"):
                        listing[b"e/" + p[2:]] = v
            elif kind == "link":
                k = op[1]
                if k >= len(GITLINKS) and n > 0:
                    # a gitlink naming a commit of this very repository (a project mounting one of its own branches):
                    # any commit built earlier, ancestor or not.  Gitlinks are never followed, so the commit belongs to a
                    # closure only if it is reachable some other way
                    listing[b"sub"] = ("G", (k - len(GITLINKS)) % n)
                else:
                    listing[b"sub"] = ("g", k % len(GITLINKS))
            elif kind == "sym":
                listing[b"l"] = ("l", op[1] % len(SYM_TARGETS))
            elif kind == "take":
                if ps:
                    src = self.listings[ps[op[1] % len(ps)]]
                    p = PATHS[op[2] % len(PATHS)]
                    if p in src:
                        listing[p] = src[p]
                    else:
                        listing.pop(p, None)
            else:
                raise ValueError(f"unknown op {op!r}")
        return listing

    def _leaf(self, v):
        if v[0] == "f":
            return (0o100755 if v[3] else 0o100644), self._add(b"blob", doc(v[1], v[2]))
        if v[0] == "l":
            return 0o120000, self._add(b"blob", SYM_TARGETS[v[1]])
        if v[0] == "G":
            return 0o160000, self.commit_ids[v[1]]
        return 0o160000, GITLINKS[v[1]]

    def _write_tree(self, listing, prefix=b""):
        entries = []
        subdirs = {}
        for p, v in listing.items():
            if not p.startswith(prefix):
                continue
            rest = p[len(prefix):]
            if b"/" in rest:
                subdirs.setdefault(rest.split(b"/", 1)[0], None)
            else:
                mode, i = self._leaf(v)
                entries.append((rest, mode, i))
        for d in subdirs:
            entries.append((d, 0o40000, self._write_tree(listing, prefix + d + b"/")))
        return self._add(b"tree", ser_tree(entries))

    def resolve(self, target):
        kind = target[0]
        if kind == "c":
            return self.commit_ids[target[1] % len(self.commit_ids)]
        if kind == "tree":
            return self.tree_ids[target[1] % len(self.tree_ids)]
        if kind == "blob":
            return self._add(b"blob", doc(target[1] % NFAM, target[2] % NVER))
        if kind == "tag":
            return self.tag_ids[target[1]]
        raise ValueError(f"unknown target {target!r}")

    # -- queries on the model ------------------------------------------------
    def get(self, i):
        return self.objs[i]

    def closure(self, tips):
        return set(_closure(self.get, list(tips)))

    def peel(self, i):
        while self.objs[i][0] == b"tag":
            i = self.objs[i][1].split(b"\n", 1)[0].split(b" ")[1]
        return i

    def tag_chain(self, i):
        """Tag objects from i down to (excluding) the first non-tag."""
        out = []
        while self.objs[i][0] == b"tag":
            out.append(i)
            i = self.objs[i][1].split(b"\n", 1)[0].split(b" ")[1]
        return out

    def commit_parents(self, i):
        return [l.split(b" ")[1] for l in self.objs[i][1].split(b"\n\n", 1)[0].split(b"\n") if l.startswith(b"parent ")]

    def ancestors(self, idxs):
        seen = set()
        todo = list(idxs)
        while todo:
            i = todo.pop()
            if i in seen:
                continue
            seen.add(i)
            todo.extend(self.parents[i])
        return seen

    def shape_labels(self):
        n = len(self.parents)
        labels = set()
        if sum(1 for p in self.parents if not p) > 1:
            labels.add("dag:disjoint-roots")
        if any(len(p) == 2 for p in self.parents):
            labels.add("dag:merge")
        if any(len(p) > 2 for p in self.parents):
            labels.add("dag:octopus")
        anc = [self.ancestors([i]) for i in range(n)]
        for x in range(n):
            for y in range(x + 1, n):
                if x in anc[y]:
                    continue
                common = anc[x] & anc[y]
                best = [c for c in common if not any(c in anc[o] and o != c for o in common)]
                if len(best) > 1:
                    labels.add("dag:criss-cross")
        ts = [c["t"] for c in self.spec["commits"]]
        if any(ts[p] >= ts[i] for i in range(n) for p in self.parents[i]):
            labels.add("dag:clock-skew")
        if any(self.objs[self.resolve(t["target"])][0] == b"tag" for t in self.spec["tags"]):
            labels.add("dag:tag-chain")
        kinds = {self.objs[self.peel(t)][0] for t in self.tag_ids}
        for k in kinds - {b"commit"}:
            labels.add("dag:tag-of-" + k.decode())
        if any(v[0] == "g" for l in self.listings for v in l.values()):
            labels.add("dag:gitlink")
        for i, l in enumerate(self.listings):
            for v in l.values():
                if v[0] == "G":
                    labels.add("dag:gitlink-to-own-commit")
                    if v[1] not in anc[i]:
                        labels.add("dag:gitlink-to-own-commit-outside-history")
        if len(set(self.tree_ids)) < len(self.tree_ids):
            labels.add("dag:same-root-tree-twice")
        return labels


# ---------------------------------------------------------------------------
# repositories on disk, written and read without dulwich


def write_loose(repo, objs, ids):
    base = os.path.join(repo, "objects")
    for i in ids:
        t, data = objs[i]
        d = os.path.join(base, i[:2].decode())
        p = os.path.join(d, i[2:].decode())
        if os.path.exists(p):
            continue
        os.makedirs(d, exist_ok=True)
        with open(p, "wb") as f:
            f.write(zlib.compress(t + b" " + str(len(data)).encode() + b"\0" + data, 1))


def init_bare(path):
    os.makedirs(os.path.join(path, "objects", "pack"))
    os.makedirs(os.path.join(path, "objects", "info"))
    os.makedirs(os.path.join(path, "refs", "heads"))
    os.makedirs(os.path.join(path, "refs", "tags"))
    with open(os.path.join(path, "config"), "wb") as f:
        f.write(b"[core]\n\trepositoryformatversion = 0\n\tfilemode = true\n\tbare = true\n")
    with open(os.path.join(path, "HEAD"), "wb") as f:
        f.write(b"ref: refs/heads/b0\n")
    return path


def write_refs(path, refs, head, peel=None, packed=False):
    """refs: {name: hexid}; head: ("sym", name) | ("id", hexid).  packed: one packed-refs file with peeled lines."""
    if packed:
        lines = [b"# pack-refs with: peeled fully-peeled sorted \n"]
        for name in sorted(refs):
            lines.append(refs[name] + b" " + name + b"\n")
            if peel is not None and peel(refs[name]) != refs[name]:
                lines.append(b"^" + peel(refs[name]) + b"\n")
        with open(os.path.join(path, "packed-refs"), "wb") as f:
            f.write(b"".join(lines))
    else:
        for name, val in refs.items():
            p = os.path.join(path, name.decode())
            os.makedirs(os.path.dirname(p), exist_ok=True)
            with open(p, "wb") as f:
                f.write(val + b"\n")
    with open(os.path.join(path, "HEAD"), "wb") as f:
        f.write(b"ref: " + head[1] + b"\n" if head[0] == "sym" else head[1] + b"\n")


def read_refs_git(cgit, path):
    """{name: hexid} as C git sees them (HEAD excluded)."""
    out = cgit.out(["for-each-ref", "--format=%(objectname) %(refname)"], cwd=path)
    return {l.split(b" ", 1)[1]: l.split(b" ", 1)[0] for l in out.splitlines()}


def read_all_objects(cgit, path):
    """{hexid: (type, data)} of every object C git can find in the repository (reachable or not)."""
    rc, data, err = cgit.git(["cat-file", "--batch-all-objects", "--batch", "--unordered"], cwd=path, check=False)
    if rc != 0:
        return None, err
    res = {}
    pos = 0
    n = len(data)
    while pos < n:
        nl = data.index(b"\n", pos)
        i, t, size = data[pos:nl].split(b" ")
        size = int(size)
        res[i] = (t, data[nl + 1 : nl + 1 + size])
        pos = nl + 1 + size + 1
    return res, b""


# ---------------------------------------------------------------------------
# Hypothesis strategies


def strategies():
    from hypothesis import strategies as st

    i8 = st.integers(0, 7)

    def op(nparents):
        alts = [
            st.tuples(st.just("bump"), st.integers(0, 4), st.integers(0, 2)),
            st.tuples(st.just("bump"), st.integers(0, 4), st.integers(0, 2)),
            st.tuples(st.just("bump"), st.sampled_from([0, 2, 4]), st.integers(0, 2)),
            st.tuples(st.just("bump"), st.sampled_from([0, 2, 4]), st.integers(0, 2)),
            st.tuples(st.just("bump"), st.integers(0, len(PATHS) - 1), st.integers(0, 2)),
            st.tuples(st.just("set"), st.integers(0, len(PATHS) - 1), st.integers(0, NFAM - 1), st.integers(0, NVER - 1), st.booleans()),
            st.tuples(st.just("set"), st.integers(0, 4), st.integers(0, 3), st.integers(0, NVER - 1), st.just(False)),
            st.tuples(st.just("del"), st.integers(0, len(PATHS) - 1)),
            st.tuples(st.just("cpdir")),
            st.tuples(st.just("link"), st.integers(0, 2)),
            st.tuples(st.just("link"), st.integers(3, 11)),
            st.tuples(st.just("sym"), st.integers(0, 2)),
        ]
        if nparents > 1:
            alts += [st.tuples(st.just("take"), st.integers(0, nparents - 1), st.integers(0, len(PATHS) - 1))] * 2
        return st.one_of(alts)

    @st.composite
    def history(draw, max_commits=9):
        n = draw(st.integers(1, max_commits))
        tmode = draw(st.sampled_from(["mono", "mono", "equal", "reversed", "skew"]))
        commits = []
        for i in range(n):
            if i == 0:
                parents = []
            else:
                kind = draw(st.sampled_from("sssssssmmmmroo"))
                if kind == "r":
                    parents = []
                elif kind == "s" or i < 2:
                    parents = [i - 1 - min(draw(st.integers(0, 3)), i - 1)]
                else:
                    k = 2 if kind == "m" or i < 3 else draw(st.integers(3, min(4, i)))
                    parents = draw(st.lists(st.integers(0, i - 1), min_size=k, max_size=k, unique=True))
            ops = draw(st.lists(op(len(parents)), min_size=0, max_size=3))
            if not parents:
                ops = [("base", draw(st.integers(0, 3)))] + ops
            t = {"mono": 10 * i, "equal": 5, "reversed": 10 * (n - i)}.get(tmode)
            if t is None:
                t = draw(st.integers(0, 60))
            commits.append({"parents": parents, "ops": ops, "t": t})
        ntags = draw(st.integers(0, 4))
        tags = []
        for k in range(ntags):
            kind = draw(st.sampled_from("cccccttttrb" if k else "cccccrb"))
            if kind == "c":
                target = ("c", draw(st.integers(0, n - 1)))
            elif kind == "t":
                target = ("tag", draw(st.integers(0, k - 1)))
            elif kind == "r":
                target = ("tree", draw(st.integers(0, n - 1)))
            else:
                target = ("blob", draw(st.integers(0, NFAM - 1)), draw(st.integers(0, NVER - 1)))
            tags.append({"target": target, "signed": draw(st.booleans())})
        # refs: branch b0 always exists; the last commit is usually a tip
        tips = draw(st.lists(st.integers(0, n - 1), min_size=0, max_size=3, unique=True))
        if draw(st.integers(0, 9)) < 8 and (n - 1) not in tips:
            tips = [n - 1] + tips
        if not tips:
            tips = [draw(st.integers(0, n - 1))]
        refs = [(b"refs/heads/b%d" % j, ("c", c)) for j, c in enumerate(tips)]
        for k in range(ntags):
            if draw(st.integers(0, 9)) < 7:
                refs.append((b"refs/tags/t%d" % k, ("tag", k)))
        if draw(st.integers(0, 9)) < 3:
            refs.append((b"refs/tags/light", ("c", draw(st.integers(0, n - 1)))))
        if draw(st.integers(0, 9)) < 2:
            refs.append((b"refs/misc/tree", ("tree", draw(st.integers(0, n - 1)))))
        if draw(st.integers(0, 9)) < 2:
            refs.append((b"refs/misc/blob", ("blob", draw(st.integers(0, NFAM - 1)), draw(st.integers(0, NVER - 1)))))
        if ntags and draw(st.integers(0, 9)) < 2:
            refs.append((b"refs/heads/zz-notes-like", ("c", draw(st.integers(0, n - 1)))))
        head = b"refs/heads/b0" if draw(st.integers(0, 9)) < 8 else None
        return {"commits": commits, "tags": tags, "refs": refs, "head": head}

    return dict(history=history, i8=i8)
