"""C14 — history specs, incremental materialiser and the construction-time object model.

A *spec* is plain data (replayable):

    {"salt": int,
     "idxver": None | 1 | 2 | 3,                      # pack.indexVersion of the repository
     "commits": [[parents (lower indices)], time, edit, branch], ...
     "tags": [[after, kind, target, n], ...]}         # kind "a" annotated->commit, "l" lightweight->commit,
                                                      # "aa" annotated->previous annotated tag (index into tags)

``History`` turns a spec into dulwich objects one commit at a time and records, *from the construction itself* (never
by reading anything back from an object store), for every object its type and the ids it refers to.  That record is
the brute-force model the un-accelerated answers are checked against.
"""

from __future__ import annotations

BASE = {
    b"a": (0o100644, b"alpha\n"),
    b"dir/b": (0o100644, b"beta\n" * 20),
    b"dir/sub/c": (0o100755, b"#!/bin/sh\n"),
    b"link": (0o120000, b"a"),
}
PATHS = [b"a", b"dir/b", b"dir/sub/c", b"dir/sub/d", b"e/f", b"top", b"dir/g"]
NBRANCH = 4


def branch_ref(j: int) -> bytes:
    return b"refs/heads/b%d" % j


def tag_ref(n: int) -> bytes:
    return b"refs/tags/t%d" % n


def edit_listing(listing: dict, edit: int, salt: int) -> dict:
    """Small deterministic edit, so that blobs and subtrees are shared between commits."""
    out = dict(listing)
    path = PATHS[edit % len(PATHS)]
    kind = (edit // len(PATHS)) % 4
    if kind == 0:
        out[path] = (0o100644, b"content %d/%d of %s\n" % (edit, salt, path))
    elif kind == 1:
        if len(out) > 1:
            out.pop(path, None)
        else:
            out[b"keep"] = (0o100644, b"keep %d\n" % salt)
    elif kind == 2:
        out[path] = (0o100755, b"#!/bin/sh\n# %d\n" % (edit % 3))  # few distinct blobs: shared across history
    else:
        out[b"n%d" % (edit % 5)] = (0o100644, b"shared\n")
    return out


class History:
    """Incremental materialiser + model."""

    def __init__(self, spec):
        self.spec = spec
        self.objs = {}  # hex id -> (type_name, tuple(child ids))
        self.cids = []  # commit index -> id, materialised so far
        self.listings = []
        self.tagids = {}  # tag index -> id of annotated tag object (kind a/aa)
        self.octopus = set()  # commit ids with > 2 parents
        self.shafiles = {}  # id -> the ShaFile as constructed (to store an object again after it was pruned)
        self.last_tips = []

    @property
    def done(self) -> bool:
        return len(self.cids) >= len(self.spec["commits"])

    def _build_trees(self, listing, out):
        from dulwich.objects import Blob, Tree

        root = {}
        for path, (mode, data) in listing.items():
            parts = path.split(b"/")
            d = root
            for p in parts[:-1]:
                d = d.setdefault(p, {})
            d[parts[-1]] = (mode, data)

        def rec(d):
            t = Tree()
            kids = []
            for name, v in d.items():
                if isinstance(v, dict):
                    sid = rec(v)
                    t.add(name, 0o040000, sid)
                    kids.append(sid)
                else:
                    b = Blob.from_string(v[1])
                    out.append((b, ()))
                    t.add(name, v[0], b.id)
                    kids.append(b.id)
            out.append((t, tuple(kids)))
            return t.id

        return rec(root)

    def next_commit(self):
        """Build commit number len(self.cids).

        Returns (new_objects, ref_updates): the ShaFile objects that are new to the model, in dependency order, and
        {refname: id} to be set after they have been stored.
        """
        from dulwich.objects import Commit, Tag

        spec = self.spec
        i = len(self.cids)
        parents, ctime, edit, branch = spec["commits"][i]
        salt = spec.get("salt", 0)
        base = self.listings[parents[0]] if parents else BASE
        listing = edit_listing(base, edit, salt)
        built = []
        tree_id = self._build_trees(listing, built)
        c = Commit()
        c.tree = tree_id
        c.parents = [self.cids[p] for p in parents]
        c.author = c.committer = b"A U Thor <author@example.com>"
        c.author_time = c.commit_time = 1_000_000_000 + ctime
        c.author_timezone = c.commit_timezone = 0
        c.message = b"commit %d salt %d\n" % (i, salt)
        built.append((c, (tree_id, *c.parents)))
        self.cids.append(c.id)
        self.listings.append(listing)
        if len(parents) > 2:
            self.octopus.add(c.id)
        refs = {branch_ref(branch): c.id}
        for n, (after, kind, target, _x) in enumerate(spec.get("tags", [])):
            if after != i:
                continue
            if kind == "l":
                refs[tag_ref(n)] = self.cids[min(target, i)]
                continue
            if kind == "aa" and target in self.tagids:
                tcls, tid = Tag, self.tagids[target]
            else:
                tcls, tid = Commit, self.cids[min(target, i)]
            t = Tag()
            t.name = b"t%d" % n
            t.object = (tcls, tid)
            t.tagger = b"T <t@example.com>"
            t.tag_time = 1_000_000_500 + n
            t.tag_timezone = 0
            t.message = b"tag %d salt %d\n" % (n, salt)
            built.append((t, (tid,)))
            self.tagids[n] = t.id
            refs[tag_ref(n)] = t.id
        new = []
        self.last_tips = [c.id] + [v for v in refs.values()]
        for o, kids in built:
            if o.id not in self.objs:
                self.objs[o.id] = (o.type_name, tuple(kids))
                self.shafiles[o.id] = o
                new.append(o)
        return new, refs

    # -- brute force over the construction record ------------------------------------------------
    def closure(self, tips, shallow=()):
        """Everything reachable from tips; the parents of commits in ``shallow`` are not followed."""
        seen = set()
        todo = list(tips)
        while todo:
            i = todo.pop()
            if i in seen:
                continue
            seen.add(i)
            kids = self.objs[i][1]
            todo.extend(kids[:1] if i in shallow else kids)
        return seen

    def parents_of(self, cid):
        t, kids = self.objs[cid]
        assert t == b"commit"
        return list(kids[1:])

    def peel(self, oid):
        while self.objs[oid][0] == b"tag":
            oid = self.objs[oid][1][0]
        return oid

    def commit_closure(self, tips):
        seen = set()
        todo = [self.peel(t) for t in tips]
        while todo:
            i = todo.pop()
            if i in seen or self.objs[i][0] != b"commit":
                continue
            seen.add(i)
            todo.extend(self.objs[i][1][1:])
        return seen


# ---------------------------------------------------------------------------
# Hypothesis strategies


def spec_strategy():
    from hypothesis import strategies as st

    @st.composite
    def spec(draw):
        n = draw(st.integers(4, 14))
        shape = draw(st.sampled_from(["free", "free", "octopus", "octopus", "octopus", "crisscross", "multiroot", "linear"]))
        tmode = draw(st.sampled_from(["mono", "mono", "equal", "reversed", "random"]))
        commits = []
        for i in range(n):
            if i == 0 or (shape == "multiroot" and i < 3):
                k = 0
            elif shape == "linear":
                k = 1
            else:
                k = min(i, draw(st.sampled_from([0, 1, 1, 1, 1, 1, 1, 2, 2, 2, 3, 4])))
            parents = []
            if k:
                first = i - 1 if draw(st.booleans()) else draw(st.integers(0, i - 1))
                parents = [first]
                if k > 1:
                    pool = [j for j in range(i) if j != first]
                    parents += draw(st.lists(st.sampled_from(pool), min_size=k - 1, max_size=k - 1, unique=True))
            if tmode == "mono":
                t = 100 + 10 * i
            elif tmode == "equal":
                t = 100
            elif tmode == "reversed":
                t = 1000 - 10 * i
            else:
                t = draw(st.integers(0, 60))
            commits.append([parents, t, draw(st.integers(0, 55)), draw(st.integers(0, NBRANCH - 1))])
        if shape == "octopus" and n >= 4:
            i = draw(st.integers(3, min(n - 1, 6)))  # early enough to be materialised by most scripts
            k = draw(st.integers(3, min(5, i)))
            commits[i][0] = draw(st.lists(st.sampled_from(list(range(i))), min_size=k, max_size=k, unique=True))
        if shape == "crisscross" and n >= 6:
            for i, ps in enumerate([[], [0], [0], [1, 2], [2, 1], [3, 4]]):
                commits[i][0] = ps
        tags = []
        for n_t in range(draw(st.integers(0, 3))):
            after = draw(st.integers(0, n - 1))
            kind = draw(st.sampled_from(["a", "a", "l", "aa"]))
            if kind == "aa":
                prev = [j for j, t in enumerate(tags) if t[1] in ("a", "aa") and t[0] <= after]
                if prev:
                    tags.append([after, "aa", draw(st.sampled_from(prev)), n_t])
                    continue
                kind = "a"
            tags.append([after, kind, draw(st.integers(0, after)), n_t])
        idxver = draw(st.sampled_from([None, None, None, 1, 2, 3]))
        return {"salt": draw(st.integers(0, 3)), "idxver": idxver, "commits": commits, "tags": tags}

    return spec()


def script_strategy():
    """[initial history] + layout ops + 1-3 accelerator writes + 0-3 changes (staleness) + 0-2 writes + 0-2 changes.

    Built in phases so that, by construction, accelerators exist and are frequently followed by further history,
    new packs, repacks, pruning and ref changes.
    """
    from hypothesis import strategies as st

    adv = st.tuples(st.just("advance"), st.integers(1, 4))
    fetch = st.tuples(st.just("fetchpack"), st.integers(1, 4))
    one = lambda x: x.map(lambda o: [o])
    layout = st.one_of(
        one(st.just(("pack_loose",))), one(fetch), one(adv),
        one(st.tuples(st.just("git_repack"), st.booleans())), one(st.just(("repack",))),
        # two or three packs by construction (what a multi-pack-index is for)
        fetch.map(lambda f: [("pack_loose",), f]), fetch.map(lambda f: [("pack_loose",), f]),
        st.tuples(fetch, fetch).map(lambda t: [("pack_loose",), t[0], t[1]]),
        st.tuples(fetch, adv).map(lambda t: [t[0], t[1], ("pack_loose",)]),
    )
    acc = st.one_of(
        st.tuples(st.just("cg"), st.sampled_from(["dulwich", "dulwich", "dulwich-all", "dulwich-tips", "git", "git", "git-bloom"])),
        st.tuples(st.just("cg"), st.sampled_from(["dulwich", "git"])),
        st.tuples(st.just("midx"), st.sampled_from(["dulwich", "dulwich", "git", "git-bitmap"])),
        st.tuples(st.just("midx"), st.sampled_from(["dulwich", "git"])),
        st.just(("bitmap",)), st.just(("bitmap",)),
        st.tuples(st.just("git_repack"), st.just(True)),
        st.tuples(st.just("pack_refs"), st.sampled_from(["dulwich", "dulwich-tags", "git", "git"])),
        st.tuples(st.just("pack_refs"), st.sampled_from(["dulwich", "git"])),
        st.tuples(st.just("foreign"), st.sampled_from(["cg", "midx", "bitmap"])),
        st.just(("swapbitmap",)),
    )
    change = st.one_of(
        adv, adv, fetch, fetch,
        st.just(("pack_loose",)),
        st.just(("repack",)),
        st.just(("prune",)),
        st.just(("gc",)),
        st.tuples(st.just("git_repack"), st.booleans()),
        st.tuples(st.just("delref"), st.integers(1, NBRANCH - 1), st.sampled_from(["dulwich", "git"])),
        st.tuples(st.just("delref"), st.integers(1, NBRANCH - 1), st.sampled_from(["dulwich", "git"])),
        st.tuples(st.just("moveref"), st.integers(0, NBRANCH - 1), st.sampled_from(["dulwich", "git"])),
        st.tuples(st.just("retag"), st.integers(0, 3), st.sampled_from(["dulwich", "git"])),
        # refs re-packed by another process while the long-lived instance holds its cache
        st.tuples(st.just("pack_refs"), st.sampled_from(["git", "git", "dulwich"])),
        st.just(("reopen",)),
        st.just(("query",)), st.just(("query",)),
        st.tuples(st.just("shallow"), st.integers(0, 13)),
    )
    return st.tuples(
        st.integers(2, 6),
        st.lists(layout, min_size=0, max_size=2).map(lambda ls: [o for l in ls for o in l]),
        st.lists(acc, min_size=1, max_size=3),
        st.lists(change, min_size=0, max_size=3),
        st.lists(acc, min_size=0, max_size=2),
        st.lists(change, min_size=0, max_size=2),
    ).map(lambda t: [("advance", t[0])] + [tuple(o) for part in t[1:] for o in part])


def case_strategy():
    from hypothesis import strategies as st

    return st.tuples(spec_strategy(), script_strategy()).map(lambda t: {"spec": t[0], "script": t[1]})
