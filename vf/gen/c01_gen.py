"""C01 generators: records of git's canonical object grammar and edit sequences.

Everything is built by construction (no filtering).  Records are the plain
dicts described in ``vf/model/c01_ref.py``.
"""

from __future__ import annotations

import binascii

from hypothesis import strategies as st

from ..model import c01_ref as ref

PGP_BEGIN = b"-----BEGIN PGP SIGNATURE-----"
SSH_BEGIN = b"-----BEGIN SSH SIGNATURE-----"

KNOWN_COMMIT_HEADERS = (b"tree", b"parent", b"author", b"committer", b"encoding", b"mergetag", b"gpgsig")


def hexlen(fmt):
    return 40 if fmt == "sha1" else 64


# ---------------------------------------------------------------------------
# ids


def _fix_zero(raw: bytes) -> bytes:
    # the all-zero id is git's "null" id (fsck: nullSha1); never a real object name
    return raw if any(raw) else raw[:-1] + b"\x01"


_KIND = {"blob": 0, "tree": 1, "commit": 2, "tag": 3}


def typed_hex(raw: bytes, kind: str) -> bytes:
    """Make the id's two lowest bits of the first byte say what it names.

    One git process keeps one table id -> type; an id used as a tree here and
    as a parent there makes git reject the *batch*, not the object.  Real ids
    name one object, so ids are kept type-disjoint by construction.
    """
    return binascii.hexlify(_fix_zero(bytes([(raw[0] & 0xFC) | _KIND[kind]]) + raw[1:]))


def raw_ids(fmt):
    n = 20 if fmt == "sha1" else 32
    patterns = [
        b"\x00" * n,
        b"\x0a" * n,
        b"\x20" * n,
        (b"\x00\x0a\x20\x2f\xff" * 8)[:n],
        b"\xff" * n,
        bytes(range(1, n + 1)),
        b"100644 a\x00"[:n].ljust(n, b"\x07"),
        b"\x0040000 b\x00".ljust(n, b"\x00"),
    ]
    return st.one_of(st.sampled_from(patterns), st.binary(min_size=n, max_size=n))


def hexids(fmt, kind):
    return raw_ids(fmt).map(lambda r: typed_hex(r, kind))


def mode_kind(mode):
    return "tree" if mode == ref.MODE_DIR else "commit" if mode == ref.MODE_GITLINK else "blob"


# ---------------------------------------------------------------------------
# blobs

_BOUNDARY = [0, 1, 15, 16, 127, 128, 2047, 2048, 16383, 16384, 65535, 65536, 65537]


def _fill(t):
    n, kind, seed = t
    if kind == 0:
        return b"\0" * n
    if kind == 1:
        pat = bytes([seed % 251 + 1, 10, (seed >> 8) % 256])
        return (pat * (n // 3 + 1))[:n]
    import hashlib

    out = bytearray()
    c = 0
    while len(out) < n:
        out += hashlib.sha1(b"%d:%d" % (seed, c)).digest()
        c += 1
    return bytes(out[:n])


blob_bytes = st.one_of(
    st.binary(max_size=48),
    st.binary(max_size=48),
    st.sampled_from([b"", b"\n", b"a\nb", b"a\r\nb\r\n", b"\0", b"blob 3\0abc", b"tree 0\0"]),
    st.tuples(st.sampled_from(_BOUNDARY), st.integers(0, 2), st.integers(0, 2**32 - 1)).map(_fill),
)


def _chunk(t):
    data, cuts = t
    if not data:
        return [[], [b""], [b"", b""]][len(cuts) % 3]
    pos = sorted({c % (len(data) + 1) for c in cuts})
    out = []
    last = 0
    for p in pos:
        out.append(data[last:p])
        last = p
    out.append(data[last:])
    return out


blob_chunks = st.tuples(blob_bytes, st.lists(st.integers(0, 1 << 20), max_size=3)).map(_chunk)

blob_records = blob_chunks.map(lambda ch: {"t": "blob", "chunks": ch})


# ---------------------------------------------------------------------------
# trees

# bytes around '/' (0x2f): ' ' 0x20, '+' 0x2b, '-' 0x2d, '.' 0x2e sort before it, '0' 0x30 after it
_NAME_SYMS = [b"a", b"b", b"A", b".", b"-", b"_", b"0", b"~", b" ", b"+", b"\xff", b"\x80", b"\xc3\xa9", b"\x01", b"\x7f"]
_BASES = [b"a", b"ab", b"a.b", b"A", b"\xff", b"a-"]
_SUFFIXES = [b"", b"", b".", b"-", b"0", b".b", b"-b", b"0b", b"b", b" ", b"\x01", b"\xff", b"+", b"~"]


def _legal_name(n: bytes) -> bytes:
    if n in (b"", b".", b".."):
        return n + b"_"
    return n


tree_names = st.one_of(
    st.tuples(st.sampled_from(_BASES), st.sampled_from(_SUFFIXES)).map(lambda t: t[0] + t[1]),
    st.tuples(st.sampled_from(_BASES), st.sampled_from(_SUFFIXES)).map(lambda t: t[0] + t[1]),
    st.lists(st.sampled_from(_NAME_SYMS), min_size=1, max_size=5).map(b"".join),
).map(_legal_name)

tree_modes = st.sampled_from(
    [ref.MODE_FILE, ref.MODE_FILE, ref.MODE_EXEC, ref.MODE_LINK, ref.MODE_DIR, ref.MODE_DIR, ref.MODE_DIR, ref.MODE_GITLINK, ref.MODE_GITLINK]
)


def tree_entries(fmt):
    return st.tuples(tree_names, tree_modes, raw_ids(fmt)).map(lambda t: (t[0], t[1], typed_hex(t[2], mode_kind(t[1]))))


# suffixes whose first byte sorts before '/': "a" + suffix lands between "a" and "a/"
_LOW_SUFFIXES = [b".", b"-", b" ", b"+", b".b", b"-b", b"\x01", b"!", b"#x", b",", b".."]


def _family(t):
    base, base_mode, base_raw, sibs = t
    out = [(base, base_mode, typed_hex(base_raw, mode_kind(base_mode)))]
    for suf, mode, raw in sibs:
        out.append((base + suf, mode, typed_hex(raw, mode_kind(mode))))
    return out


def tree_families(fmt):
    """An entry `base` (directory, or gitlink/file as the control) next to `base<c>...` with c < '/'."""
    return st.tuples(
        st.sampled_from(_BASES),
        st.sampled_from([ref.MODE_DIR, ref.MODE_DIR, ref.MODE_DIR, ref.MODE_GITLINK, ref.MODE_GITLINK, ref.MODE_FILE]),
        raw_ids(fmt),
        st.lists(st.tuples(st.sampled_from(_LOW_SUFFIXES), tree_modes, raw_ids(fmt)), min_size=1, max_size=3),
    ).map(_family)


def tree_records(fmt, max_size=7):
    plain = st.lists(tree_entries(fmt), max_size=max_size)
    fam = st.one_of(st.just([]), tree_families(fmt), tree_families(fmt))
    return st.tuples(plain, fam, st.booleans()).map(
        lambda t: {"t": "tree", "fmt": fmt, "entries": (t[1] + t[0]) if t[2] else (t[0] + t[1])}
    )


# ---------------------------------------------------------------------------
# idents, times, zones

_NAME_CH = [b"A", b"b", b" ", b".", b",", b"\xff", b"\xc3\xa9", b"\t", b"'", b'"', b"\\", b"\x01", b"\r", b"@", b"-", b"0", b"  "]
_MAIL_CH = [b"a", b"@", b".", b" ", b"\xff", b"\x01", b"+", b"x.org", b"\xc3\xa9"]

ident_names = st.one_of(
    st.sampled_from([b"A U Thor", b"", b"J\xf6rg", b"Caf\xc3\xa9 Au Lait", b"x ", b" y", b"a  b"]),
    st.lists(st.sampled_from(_NAME_CH), max_size=5).map(b"".join),
)
ident_mails = st.one_of(
    st.sampled_from([b"a@example.com", b"", b"no-at", b"sp ace@x"]),
    st.lists(st.sampled_from(_MAIL_CH), max_size=4).map(b"".join),
)
idents = st.tuples(ident_names, ident_mails).map(lambda t: t[0] + b" <" + t[1] + b">")

times = st.one_of(
    st.sampled_from([0, 1, 2**31 - 1, 2**31, 2**32 - 1, 2**32, 2**40, 2**62, 1000000000, 1700000000]),
    st.integers(0, 2**33),
    st.sampled_from([-1, -(2**31), -(2**31) - 1, -1000000000, 2**63 - 1, 2**63, 2**64, 10**25, -(2**63)]),
)


def _tz(t):
    sign, hh, mm = t
    secs = hh * 3600 + mm * 60
    if sign < 0:
        return (-secs, secs == 0)
    return (secs, False)


zones = st.one_of(
    st.just((0, True)),  # "-0000": only reachable by parsing, and the spelling a rewrite must keep
    st.sampled_from(
        [(0, False), (0, True), (3600, False), (-1800, False), (14 * 3600, False), (-12 * 3600, False), (19800, False),
         (99 * 3600 + 59 * 60, False), (-(99 * 3600 + 59 * 60), False), (60, False), (-60, False)]
    ),
    st.tuples(st.sampled_from([1, -1]), st.integers(0, 99), st.integers(0, 59)).map(_tz),
    st.tuples(st.sampled_from([1, -1]), st.integers(0, 14), st.sampled_from([0, 30, 45])).map(_tz),
)

# a timezone *value* for a setter: seconds east of UTC on a minute
zone_values = zones.map(lambda z: z[0])

# ---------------------------------------------------------------------------
# messages, signatures, extra headers

_MSG_PIECES = [b"subject", b"\n", b"\n\n", b" ", b"body line", b"\xff\xfe", b"caf\xc3\xa9", b"\r\n", b"tree 0000", b"parent x",
               b"\t", b"Signed-off-by: A <a@b>", b" leading", b"gpgsig x"]

plain_messages = st.one_of(
    st.sampled_from([b"", b"x", b"x\n", b"subject\n\nbody\n", b"\n", b"\nx", b" x", b"no newline at end", b"a\r\nb\r\n", b"\n\n\n"]),
    st.lists(st.sampled_from(_MSG_PIECES), max_size=6).map(b"".join),
)
commit_messages = st.one_of(
    st.none(),
    plain_messages,
    plain_messages,
    st.sampled_from([b"quote:\n" + PGP_BEGIN + b"\nabc\n-----END PGP SIGNATURE-----\n", b"inline " + PGP_BEGIN + b" text\n",
                     SSH_BEGIN + b"\n"]),
)
# tag messages never contain a signature marker: the split message/signature is then unambiguous
tag_messages = st.one_of(st.none(), plain_messages, plain_messages)

_SIG_BODY = [b"iQEcBAABAgAGBQJ", b"=AbCd", b"", b"Version: GnuPG v1", b"Comment: x", b"U1NIU0lHAAAAAQ", b"wsBcBAABCAAQBQJ", b"\xff"]


def _armor(t):
    kind, lines, tail = t
    begin = PGP_BEGIN if kind == "pgp" else SSH_BEGIN
    end = b"-----END PGP SIGNATURE-----" if kind == "pgp" else b"-----END SSH SIGNATURE-----"
    return b"\n".join([begin] + lines + [end]) + tail


# commit gpgsig header value: no trailing LF (git strips it), or the old style with one
commit_sigs = st.tuples(st.sampled_from(["pgp", "pgp", "ssh"]), st.lists(st.sampled_from(_SIG_BODY), max_size=4),
                        st.sampled_from([b"", b"", b"\n"])).map(_armor)
# tag signature: appended to the body, ends with LF
tag_sigs = st.tuples(st.sampled_from(["pgp", "pgp", "ssh"]), st.lists(st.sampled_from(_SIG_BODY), max_size=4),
                     st.just(b"\n")).map(_armor)

_EXTRA_KEYS = [b"x-custom", b"HG:extra", b"HG:rename-source", b"change-id", b"gpgsig-sha256", b"Reviewed", b"a", b"treeish", b"author-x",
               b"kept-sig"]
_EXTRA_LINES = [b"v", b"", b" lead", b"x y z", b"\xff", b"-----BEGIN X-----", b"tree 1", b"trailing ", b"\t"]


def _extra_value(lines):
    v = b"\n".join(lines)
    return v if v else b"v"  # an empty value is not written by git as "key SP LF" (out of the canonical grammar)


extra_headers = st.lists(
    st.tuples(st.sampled_from(_EXTRA_KEYS), st.lists(st.sampled_from(_EXTRA_LINES), min_size=1, max_size=4).map(_extra_value)),
    max_size=3,
)

encodings = st.sampled_from([None, None, None, b"ISO-8859-1", b"UTF-8", b"latin1", b"x", b"EUC-JP"])

_TAG_NAMES = [b"v1.0", b"t", b"rel-\xc3\xa9", b"a/b", b"v 1", b"\xff", b"1", b"v1.0-rc1+x", b"HEAD", b"tag with  spaces "]
REFSAFE_TAG_NAMES = {b"v1.0", b"t", b"rel-\xc3\xa9", b"a/b", b"1", b"v1.0-rc1+x"}
tag_names = st.sampled_from(_TAG_NAMES)
OTYPES = [b"commit", b"tree", b"blob", b"tag"]


def _mk_tag(d):
    d["object"] = typed_hex(d.pop("rawid"), d["otype"].decode())
    if d["tagger"] is None:
        d["tag_time"] = None
        d["tag_tz"] = None
    if d["signature"] is not None and d["message"] and not d["message"].endswith(b"\n"):
        d["message"] = d["message"] + b"\n"  # a signature starts at the beginning of a line
    d["t"] = "tag"
    return d


def tag_records(fmt, tagger=st.one_of(st.none(), idents, idents, idents), message=tag_messages):
    return st.fixed_dictionaries(
        {
            "rawid": raw_ids(fmt),
            "otype": st.sampled_from(OTYPES),
            "name": tag_names,
            "tagger": tagger,
            "tag_time": times,
            "tag_tz": zones,
            "message": message,
            "signature": st.one_of(st.none(), st.none(), tag_sigs),
        }
    ).map(_mk_tag)


def mergetag_records(fmt):
    # what `git merge <signed tag>` embeds: a tag of a commit with tagger; its text ends with LF
    msg = plain_messages.map(lambda m: m if m.endswith(b"\n") or not m else m + b"\n")
    return st.fixed_dictionaries(
        {
            "rawid": raw_ids(fmt),
            "otype": st.just(b"commit"),
            "name": tag_names,
            "tagger": idents,
            "tag_time": times,
            "tag_tz": zones,
            "message": msg,
            "signature": st.one_of(st.none(), tag_sigs, tag_sigs),
        }
    ).map(_mk_tag)


def _mk_commit(d):
    d["t"] = "commit"
    return d


def commit_records(fmt, with_extra=True):
    return st.fixed_dictionaries(
        {
            "tree": hexids(fmt, "tree"),
            "parents": st.lists(hexids(fmt, "commit"), max_size=4),
            "author": idents,
            "author_time": times,
            "author_tz": zones,
            "committer": idents,
            "commit_time": times,
            "commit_tz": zones,
            "encoding": encodings,
            "mergetag": st.one_of(st.just([]), st.just([]), st.lists(mergetag_records(fmt), min_size=1, max_size=2)),
            "extra": extra_headers if with_extra else st.just([]),
            "gpgsig": st.one_of(st.none(), st.none(), commit_sigs),
            "message": commit_messages,
        }
    ).map(_mk_commit)


def records(typ, fmt, with_extra=True):
    if typ == "blob":
        return blob_records
    if typ == "tree":
        return tree_records(fmt)
    if typ == "commit":
        return commit_records(fmt, with_extra)
    return tag_records(fmt)


# ---------------------------------------------------------------------------
# field edits (setter values) per type

COMMIT_FIELDS = ["tree", "parents", "author", "author_time", "author_timezone", "committer", "commit_time", "commit_timezone",
                 "encoding", "mergetag", "gpgsig", "message"]
TAG_FIELDS = ["object", "name", "tagger", "tag_time", "tag_timezone", "message", "signature"]


def commit_field_values(fmt):
    return {
        "tree": hexids(fmt, "tree"),
        "parents": st.lists(hexids(fmt, "commit"), max_size=4),
        "author": idents,
        "author_time": times,
        "author_timezone": zone_values,
        "committer": idents,
        "commit_time": times,
        "commit_timezone": zone_values,
        "encoding": encodings,
        "mergetag": st.lists(mergetag_records(fmt), max_size=2),
        "gpgsig": st.one_of(st.none(), commit_sigs),
        "message": commit_messages,
    }


def tag_field_values(fmt):
    return {
        "object": st.tuples(st.sampled_from(OTYPES), raw_ids(fmt)).map(lambda t: (t[0], typed_hex(t[1], t[0].decode()))),
        "name": tag_names,
        # a tagger edit carries a time and zone that are used only if the tag had none
        "tagger": st.one_of(st.none(), st.tuples(idents, times, zone_values), st.tuples(idents, times, zone_values)),
        "tag_time": times,
        "tag_timezone": zone_values,
        "message": tag_messages,
        "signature": st.one_of(st.none(), tag_sigs),
    }


OBSERVERS = ["id", "id", "id", "id256", "raw", "raw", "chunks", "sha", "len", "copy", "eq", "hash", "check", "fields"]
observers = st.sampled_from(OBSERVERS).map(lambda k: ("obs", k))

PARSE_HOWS = ["from_string", "raw_string", "raw_string_sha", "raw_chunks", "legacy_file"]


def parse_hows(fmt, typ):
    hows = list(PARSE_HOWS)
    if fmt == "sha256":
        hows.remove("raw_string_sha")  # a sha256 store hands over a 64-hex name; `.id` is documented as SHA-1 only
        if typ == "tree":
            hows.remove("from_string")  # no way to say "32-byte ids" through from_string
    return st.tuples(st.sampled_from(hows), st.integers(0, 1 << 16))


def reparse_hows(fmt, typ):
    """set_raw_string / set_raw_chunks on a live object."""
    hows = ["raw_string", "raw_chunks", "raw_string_sha"]
    if fmt == "sha256":
        hows.remove("raw_string_sha")
        if typ == "tree":
            hows.remove("raw_string")  # set_raw_string cannot switch a live tree to 32-byte ids
    return st.tuples(st.sampled_from(hows), st.integers(0, 1 << 16))


def _field_ops(fields, values):
    sets = st.one_of([st.tuples(st.just("set"), st.just(f), values[f]) for f in fields])
    sames = st.sampled_from(fields).map(lambda f: ("same", f))
    return sets, sames


def ops_for(typ, fmt):
    if typ == "blob":
        sets = st.one_of(
            st.tuples(st.just("set"), st.just("data"), blob_bytes),
            st.tuples(st.just("set"), st.just("chunked"), blob_chunks),
            st.tuples(st.just("set"), st.just("chunked"), blob_chunks),
        )
        sames = st.sampled_from(["data", "chunked"]).map(lambda f: ("same", f))
    elif typ == "tree":
        e = tree_entries(fmt)
        sets = st.one_of(
            e.map(lambda t: ("add",) + t),
            e.map(lambda t: ("setitem",) + t),
            st.integers(0, 63).map(lambda i: ("del", i)),
            # re-add an existing name with another mode: file <-> directory flips its sort position
            st.tuples(st.integers(0, 63), tree_modes, raw_ids(fmt)).map(lambda t: ("remode", t[0], t[1], typed_hex(t[2], mode_kind(t[1])))),
        )
        sames = st.integers(0, 63).map(lambda i: ("same", i))
    elif typ == "commit":
        sets, sames = _field_ops(COMMIT_FIELDS, commit_field_values(fmt))
    else:
        sets, sames = _field_ops(TAG_FIELDS, tag_field_values(fmt))
    reparse = st.tuples(st.just("reparse"), records(typ, fmt), reparse_hows(fmt, typ))
    return st.lists(st.one_of(sets, sets, sets, observers, observers, sames, reparse), min_size=1, max_size=14)


def machine_cases():
    """(type, format, back end, start, ops)"""

    def for_tf(tf):
        typ, fmt = tf
        build_fields = {"commit": COMMIT_FIELDS, "tag": TAG_FIELDS}.get(typ)
        if build_fields:
            start = st.one_of(
                st.tuples(st.just("build"), records(typ, fmt, with_extra=False), st.permutations(build_fields)),
                st.tuples(st.just("parse"), records(typ, fmt), parse_hows(fmt, typ)),
            )
        else:
            start = st.one_of(
                st.tuples(st.just("build"), records(typ, fmt), st.just([])),
                st.tuples(st.just("parse"), records(typ, fmt), parse_hows(fmt, typ)),
            )
        return st.fixed_dictionaries(
            {
                "type": st.just(typ),
                "fmt": st.just(fmt),
                "backend": st.sampled_from(["rs", "py"]) if typ == "tree" else st.just("-"),
                "start": start,
                "ops": ops_for(typ, fmt),
            }
        )

    # built once (no flatmap: a strategy built per draw is validated per draw, which dominated the run time)
    tfs = [("blob", "sha1"), ("tree", "sha1"), ("tree", "sha1"), ("tree", "sha256"), ("commit", "sha1"), ("commit", "sha1"),
           ("commit", "sha256"), ("tag", "sha1"), ("tag", "sha1"), ("tag", "sha256")]
    built = {tf: for_tf(tf) for tf in set(tfs)}
    return st.one_of([built[tf] for tf in tfs])
