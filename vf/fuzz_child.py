"""Child process of vf.fuzz.campaign:  python -m vf.fuzz_child <module> <target> <workdir> <corpus> [libFuzzer flags]"""

from __future__ import annotations

import importlib
import json
import os
import sys
import traceback


def main():
    module, target, work, corpus = sys.argv[1:5]
    flags = sys.argv[5:]
    from . import core, fuzz

    sys.path.insert(0, fuzz.DEPS)
    sys.path.insert(0, core.REPO)
    os.environ.setdefault("DULWICH_VERIF", "1")
    import atheris

    from . import rustext

    with atheris.instrument_imports(include=["dulwich"]):
        if os.environ.get("VF_FUZZ_PURE"):
            rustext.force_pure()
        elif os.path.isdir(rustext.ext_dir()):
            rustext.install()
        mod = importlib.import_module(module)
        t = mod.TARGETS[target]
        for m in t.get("imports", []):
            importlib.import_module(m)
        if t.get("warmup"):
            t["warmup"]()
    for f in (t["instrument"]() if t.get("instrument") else []):
        atheris.instrument_func(f)  # code loaded outside the import hook (second, pure copies of a module)
    import dulwich

    if os.path.realpath(os.path.dirname(dulwich.__file__)) != os.path.realpath(os.path.join(core.REPO, "dulwich")):
        raise SystemExit(f"dulwich imported from {dulwich.__file__}")
    fn = t["fn"]
    with open(os.path.join(work, "excluded.json")) as f:
        excluded = set(json.load(f))
    st = dict(execs=0, excluded=0, labels={}, nt_keys=[], harness_error=None)
    nt = set()
    stats_path = os.path.join(work, "stats.json")

    def flush():
        st["nt_keys"] = sorted(nt)[:200000]
        tmp = stats_path + ".tmp"
        with open(tmp, "w") as f:
            json.dump(st, f)
        os.replace(tmp, stats_path)

    def one(data):
        st["execs"] += 1
        try:
            lab = fn(data)
        except fuzz.Finding as f:
            if f.bucket in excluded:
                st["excluded"] += 1
                lab = "excluded-known"
            else:
                st["last_finding"] = [f.bucket, f.message[:600]]
                flush()
                raise
        except BaseException:
            st["harness_error"] = traceback.format_exc()
            flush()
            raise
        lab = lab or "none"
        st["labels"][lab] = st["labels"].get(lab, 0) + 1
        if lab.startswith("nt:") and len(nt) < 200000:
            nt.add(core.h64(data))
        if st["execs"] % 500 == 0:
            flush()

    flush()
    atheris.Setup([sys.argv[0]] + flags + [corpus], one)
    try:
        atheris.Fuzz()
    finally:
        flush()


if __name__ == "__main__":
    main()
