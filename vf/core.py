"""Shared machinery: context, case encoding, findings, evidence, sharding.

Every property module exposes

    PROPERTY = "Cxx"; LEVEL = "exploration" | "fault_enumeration"
    RULE = "<how cases are generated and what counts as non-trivial>"
    ASSUMPTIONS = [...]
    def run(ctx): ...                      # search tier
    def replay(ctx, check, case): ...      # plain re-execution of one case

Oracles report through ``ctx.fail(bucket, message, check, case)``.
"""

from __future__ import annotations

import base64
import hashlib
import json
import multiprocessing
import os
import pickle
import shutil
import sys
import tempfile
import time
import traceback
from collections import Counter

VERIF_DIR = os.path.dirname(os.path.dirname(os.path.abspath(__file__)))
REPO = os.environ.get("VERIF_REPO", "/repo")
NPROC = min(16, os.cpu_count() or 1)


class HarnessError(Exception):
    """Something is wrong with the machinery, not with dulwich (exit 2)."""


class CpuLimit(BaseException):
    """The code under test burnt more CPU time on one small case than any terminating run needs (see cpu_limit)."""


class cpu_limit:
    """Context manager: raise CpuLimit inside the block once this process has used ``seconds`` of CPU time in it.

    CPU time (ITIMER_PROF), never the wall clock: a loaded machine does not shorten the allowance.  Callers pick an
    allowance several orders of magnitude above the normal cost of a case, so only a walk that does not terminate (a
    tree that contains itself, a ref loop followed for ever) reaches it; they report it as that, not as slowness.
    """

    def __init__(self, seconds):
        self.seconds = seconds

    def __enter__(self):
        import signal

        def fire(signum, frame):
            raise CpuLimit()

        self._old = signal.signal(signal.SIGPROF, fire)
        signal.setitimer(signal.ITIMER_PROF, self.seconds, 1.0)
        return self

    def __exit__(self, *exc):
        import signal

        signal.setitimer(signal.ITIMER_PROF, 0)
        signal.signal(signal.SIGPROF, self._old)
        return False


class Violation(Exception):
    """Raised inside Hypothesis tests so that the failing case is shrunk."""

    def __init__(self, bucket, message, check, case):
        super().__init__(f"{bucket}: {message}")
        self.bucket = bucket
        self.message = message
        self.check = check
        self.case = case


# ---------------------------------------------------------------------------
# case encoding (JSON with bytes / tuples preserved)


def enc(o):
    if isinstance(o, (bytes, bytearray)):
        return {"$b": base64.b64encode(bytes(o)).decode("ascii")}
    if isinstance(o, tuple):
        return {"$t": [enc(x) for x in o]}
    if isinstance(o, (list,)):
        return [enc(x) for x in o]
    if isinstance(o, (set, frozenset)):
        return {"$s": [enc(x) for x in sorted(o, key=repr)]}
    if isinstance(o, dict):
        if all(isinstance(k, str) and not k.startswith("$") for k in o):
            return {k: enc(v) for k, v in o.items()}
        return {"$d": [[enc(k), enc(v)] for k, v in o.items()]}
    if isinstance(o, (str, int, float, bool)) or o is None:
        return o
    return {"$r": repr(o)}


def dec(o):
    if isinstance(o, list):
        return [dec(x) for x in o]
    if isinstance(o, dict):
        if "$b" in o and len(o) == 1:
            return base64.b64decode(o["$b"])
        if "$t" in o and len(o) == 1:
            return tuple(dec(x) for x in o["$t"])
        if "$s" in o and len(o) == 1:
            return set(dec(x) for x in o["$s"])
        if "$d" in o and len(o) == 1:
            return {dec(k): dec(v) for k, v in o["$d"]}
        if "$r" in o and len(o) == 1:
            return o["$r"]
        return {k: dec(v) for k, v in o.items()}
    return o


def show(o, limit=96):
    """Human-readable, truncated rendering of a case for evidence samples."""
    if isinstance(o, (bytes, bytearray)):
        b = bytes(o)
        if len(b) <= limit:
            return repr(b)[1:]
        return f"{repr(b[:limit // 2])[1:]}...<{len(b)} bytes>"
    if isinstance(o, (list, tuple)):
        items = [show(x, limit) for x in o[:24]]
        if len(o) > 24:
            items.append(f"...<{len(o)} items>")
        return items
    if isinstance(o, (set, frozenset)):
        return show(sorted(o, key=repr), limit)
    if isinstance(o, dict):
        out = {}
        for i, (k, v) in enumerate(o.items()):
            if i >= 24:
                out["..."] = f"<{len(o)} keys>"
                break
            out[k if isinstance(k, str) else str(show(k, limit))] = show(v, limit)
        return out
    if isinstance(o, (str, int, float, bool)) or o is None:
        if isinstance(o, str) and len(o) > 4 * limit:
            return o[: 4 * limit] + "..."
        return o
    return repr(o)[:limit]


def h64(*parts) -> int:
    m = hashlib.blake2b(digest_size=8)
    for p in parts:
        if isinstance(p, (bytes, bytearray)):
            m.update(b"b%d:" % len(p))
            m.update(p)
        else:
            s = repr(p).encode()
            m.update(b"r%d:" % len(s))
            m.update(s)
    return int.from_bytes(m.digest(), "big")


# ---------------------------------------------------------------------------
# scratch space


def scratch_root() -> str:
    base = "/dev/shm" if os.path.isdir("/dev/shm") and os.access("/dev/shm", os.W_OK) else "/var/tmp"
    return base


class Scratch:
    def __init__(self, tag="vf"):
        self.path = tempfile.mkdtemp(prefix=f"{tag}-{os.getpid()}-", dir=scratch_root())
        self._n = 0

    def new(self, name="d") -> str:
        self._n += 1
        p = os.path.join(self.path, f"{name}{self._n}")
        os.mkdir(p)
        return p

    def cleanup(self):
        shutil.rmtree(self.path, ignore_errors=True)


# ---------------------------------------------------------------------------
# context


class Ctx:
    MAX_SAMPLES = 10

    def __init__(self, prop, tier, seed, shard=0):
        self.prop = prop
        self.tier = tier
        self.seed = seed
        self.shard = shard
        self.evaluations = 0
        self.nontrivial = set()
        self.nontrivial_bulk = 0  # distinct by construction (disjoint enumerations)
        self.labels = Counter()
        self.samples = []
        self.violations = {}  # bucket -> dict(message, check, case, count)
        self.excluded = Counter()  # bucket -> count of cases excluded as known
        self.known_open = {}  # bucket -> entry (currently reproducing)
        self.raise_mode = False
        self.extra = {}
        self.notes = []
        self.inconclusive = False
        self.auto_twins = False
        self._scratch = None
        self.t0 = time.time()

    # -- budgets -----------------------------------------------------------
    @property
    def thorough(self):
        return self.tier == "thorough"

    def scale(self, quick, thorough):
        return thorough if self.thorough else quick

    # -- scratch -----------------------------------------------------------
    @property
    def scratch(self) -> Scratch:
        # a child context living in the same process as its parent shares the parent's scratch directory (and never
        # removes it); in a forked worker the pid differs and the child gets - and later removes - its own
        par = getattr(self, "_parent", None)
        if par is not None and getattr(self, "_parent_pid", None) == os.getpid():
            return par.scratch
        if self._scratch is None or self._scratch_pid != os.getpid():
            self._scratch = Scratch(f"vf-{self.prop}")
            self._scratch_pid = os.getpid()
        return self._scratch

    def cleanup(self):
        if self._scratch is not None and self._scratch_pid == os.getpid():
            self._scratch.cleanup()
            self._scratch = None

    # -- measuring the generator --------------------------------------------
    def case(self, key=None, nontrivial=False, labels=(), sample=None, n=1):
        """Record one executed case.  ``key`` identifies it for distinctness."""
        self.evaluations += n
        if nontrivial:
            if key is None:
                self.nontrivial_bulk += n
            else:
                self.nontrivial.add(key if isinstance(key, int) else h64(key))
        for l in labels:
            self.labels[l] += n
        if sample is not None and len(self.samples) < self.MAX_SAMPLES:
            # keep a spread: first few non-trivial ones
            if nontrivial or len(self.samples) < 2:
                self.samples.append(show(sample))

    def label(self, *labels, n=1):
        for l in labels:
            self.labels[l] += n

    def note(self, key, value):
        self.extra[key] = value

    # -- reporting -----------------------------------------------------------
    def fail(self, bucket, message, check, case):
        """Report an oracle failure.  Returns True if it counts as a new violation."""
        if bucket in self.known_open:
            self.excluded[bucket] += 1
            return False
        if self.raise_mode:
            raise Violation(bucket, message, check, case)
        self.record_violation(bucket, message, check, case)
        return True

    def record_violation(self, bucket, message, check, case):
        v = self.violations.get(bucket)
        try:
            size = len(json.dumps(enc(case)))
        except Exception:
            size = 1 << 30
        if v is None:
            self.violations[bucket] = dict(message=message, check=check, case=case, count=1, size=size)
        else:
            v["count"] += 1
            if size < v["size"]:
                v.update(message=message, check=check, case=case, size=size)

    # -- shards ----------------------------------------------------------------
    def child(self, shard):
        c = Ctx(self.prop, self.tier, self.seed, shard)
        c.known_open = self.known_open
        c.auto_twins = self.auto_twins
        c._parent = self
        c._parent_pid = os.getpid()
        return c

    def export(self):
        return dict(
            evaluations=self.evaluations,
            nontrivial=self.nontrivial,
            nontrivial_bulk=self.nontrivial_bulk,
            labels=self.labels,
            samples=self.samples,
            violations=self.violations,
            excluded=self.excluded,
            extra=self.extra,
            notes=self.notes,
            inconclusive=self.inconclusive,
        )

    def merge(self, d):
        self.evaluations += d["evaluations"]
        self.nontrivial |= d["nontrivial"]
        self.nontrivial_bulk += d["nontrivial_bulk"]
        self.labels.update(d["labels"])
        for s in d["samples"]:
            if len(self.samples) < self.MAX_SAMPLES:
                self.samples.append(s)
        for b, v in d["violations"].items():
            mine = self.violations.get(b)
            if mine is None:
                self.violations[b] = v
            else:
                mine["count"] += v["count"]
                if v["size"] < mine["size"]:
                    for k in ("message", "check", "case", "size"):
                        mine[k] = v[k]
        self.excluded.update(d["excluded"])
        for k, v in d["extra"].items():
            if isinstance(v, (int, float)) and isinstance(self.extra.get(k), (int, float)):
                self.extra[k] += v
            elif isinstance(v, Counter) and isinstance(self.extra.get(k), Counter):
                self.extra[k].update(v)
            elif isinstance(v, set) and isinstance(self.extra.get(k), set):
                self.extra[k] |= v
            else:
                self.extra.setdefault(k, v)
        self.notes.extend(d["notes"])
        self.inconclusive = self.inconclusive or d["inconclusive"]

    def parallel(self, fn, items, nproc=None):
        """Run fn(subctx, item) for every item over forked worker processes.

        Items are dealt round-robin; every worker gets its own Ctx whose
        counters are merged into this one.  A worker that dies is a harness
        error (crash *isolation* is sandbox.py's job, not this function's).
        """
        items = list(items)
        if not items:
            return
        nproc = min(nproc or NPROC, len(items))
        if nproc <= 1 or os.environ.get("VERIF_NOFORK"):
            for it in items:
                fn(self, it)
            return
        mp = multiprocessing.get_context("fork")
        procs = []
        for k in range(nproc):
            r, w = mp.Pipe(duplex=False)
            p = mp.Process(target=_worker, args=(self, fn, items[k::nproc], k, w))
            p.start()
            w.close()
            procs.append((p, r))
        errors = []
        for p, r in procs:
            try:
                payload = r.recv_bytes()
                kind, data = pickle.loads(payload)
            except EOFError:
                kind, data = "died", None
            p.join()
            if kind == "ok":
                self.merge(data)
            elif kind == "err":
                errors.append(data)
            else:
                errors.append(f"worker died with exit code {p.exitcode}")
        if errors:
            raise HarnessError("worker failure:\n" + "\n".join(errors))


def _worker(parent, fn, items, k, w):
    ctx = parent.child(k)
    try:
        if parent.auto_twins:
            # odd shards run dulwich with the pure-Python twins, even shards with the Rust extensions, so a
            # defect in either implementation of parse_tree/apply_delta/... is visible to every property
            from . import rustext

            ctx.label("twins:" + rustext.use_twins("pure" if k % 2 else "rust"))
        for it in items:
            fn(ctx, it)
        out = ("ok", ctx.export())
    except BaseException:
        out = ("err", traceback.format_exc())
    finally:
        ctx.cleanup()
        parent.cleanup()  # this process's copy of the parent context owns the scratch directory created here
    try:
        w.send_bytes(pickle.dumps(out))
    except Exception:
        w.send_bytes(pickle.dumps(("err", "unpicklable result: " + traceback.format_exc())))
    w.close()
    sys.stdout.flush()
    os._exit(0)


# ---------------------------------------------------------------------------
# Hypothesis glue


def hyp_settings(max_examples, shrink=True, stateful_steps=None):
    from hypothesis import HealthCheck, Phase, settings

    phases = [Phase.explicit, Phase.generate]
    if shrink:
        phases.append(Phase.shrink)
    kw = dict(
        max_examples=max_examples,
        database=None,
        deadline=None,
        derandomize=False,
        report_multiple_bugs=False,
        print_blob=False,
        phases=phases,
        suppress_health_check=list(HealthCheck),
    )
    if stateful_steps is not None:
        kw["stateful_step_count"] = stateful_steps
    return settings(**kw)


def run_hypothesis(ctx, strategy, test, max_examples, shrink=True, max_rounds=4):
    """Run ``test(ctx, value)`` over ``strategy`` in this process.

    Oracle failures arrive as Violation (shrunk by Hypothesis); each new bucket
    is recorded and then excluded so the search continues behind it
    (collect-then-shrink).  Any other exception is a harness error.
    """
    import hypothesis
    from hypothesis import given

    found = {}
    for rnd in range(max_rounds):
        hseed = (ctx.seed * 1000 + ctx.shard) * 10 + rnd

        @hypothesis.seed(hseed)
        @hyp_settings(max_examples, shrink=shrink)
        @given(strategy)
        def t(value):
            test(ctx, value)

        ctx.raise_mode = True
        saved = dict(ctx.known_open)
        ctx.known_open = dict(saved)
        for b in found:
            ctx.known_open.setdefault(b, {"transient": True})
        try:
            t()
            return
        except Violation as v:
            found[v.bucket] = v
            ctx.record_violation(v.bucket, v.message, v.check, v.case)
        finally:
            ctx.raise_mode = False
            # transient exclusions must not be reported as known findings
            for b in found:
                if b in ctx.excluded and b not in saved:
                    del ctx.excluded[b]
            ctx.known_open = saved


def run_machine(ctx, machine_cls, max_examples, steps, shrink=True, max_rounds=3):
    import hypothesis
    from hypothesis.stateful import run_state_machine_as_test

    found = {}
    for rnd in range(max_rounds):
        hseed = (ctx.seed * 1000 + ctx.shard) * 10 + rnd
        ctx.raise_mode = True
        saved = dict(ctx.known_open)
        ctx.known_open = dict(saved)
        for b in found:
            ctx.known_open.setdefault(b, {"transient": True})
        try:
            run_state_machine_as_test(
                hypothesis.seed(hseed)(machine_cls),
                settings=hyp_settings(max_examples, shrink=shrink, stateful_steps=steps),
            )
            return
        except Violation as v:
            found[v.bucket] = v
            ctx.record_violation(v.bucket, v.message, v.check, v.case)
        finally:
            ctx.raise_mode = False
            for b in found:
                if b in ctx.excluded and b not in saved:
                    del ctx.excluded[b]
            ctx.known_open = saved


# ---------------------------------------------------------------------------
# known findings


def load_known(prop):
    out = []
    paths = [os.path.join(VERIF_DIR, "known_findings.json")]
    d = os.path.join(VERIF_DIR, "known_findings.d")
    if os.path.isdir(d):
        paths += [os.path.join(d, n) for n in sorted(os.listdir(d)) if n.endswith(".json")]
    for path in paths:
        if not os.path.exists(path):
            continue
        with open(path) as f:
            data = json.load(f)
        out += [e for e in data.get("findings", []) if e.get("property") == prop]
    return out


def load_replays(prop):
    d = os.path.join(VERIF_DIR, "replays", prop)
    out = []
    if os.path.isdir(d):
        for n in sorted(os.listdir(d)):
            if n.endswith(".json"):
                with open(os.path.join(d, n)) as f:
                    out.append((os.path.join(d, n), json.load(f)))
    return out


def write_replay(prop, bucket, v, seed):
    d = os.path.join(VERIF_DIR, "failures", prop)
    os.makedirs(d, exist_ok=True)
    name = "%016x.json" % h64(bucket)
    path = os.path.join(d, name)
    with open(path, "w") as f:
        json.dump(
            dict(property=prop, check=v["check"], bucket=bucket, message=v["message"], seed=seed, case=enc(v["case"])),
            f,
            indent=1,
        )
    return path


# ---------------------------------------------------------------------------
# evidence


def write_evidence(ctx, mod, wall, nviol):
    cov = dict(
        evaluations=ctx.evaluations,
        distinct_nontrivial=len(ctx.nontrivial) + ctx.nontrivial_bulk,
        rule=mod.RULE,
        samples=ctx.samples,
        labels=dict(sorted(ctx.labels.items())),
        excluded_known={k: v for k, v in ctx.excluded.items()},
        inconclusive_budget=ctx.inconclusive,
    )
    for k, v in ctx.extra.items():
        if isinstance(v, Counter):
            v = dict(sorted(v.items(), key=lambda kv: str(kv[0])))
        if isinstance(v, set):
            v = len(v)
        cov[k] = show(v) if not isinstance(v, (int, float, bool, str)) else v
    if ctx.notes:
        cov["notes"] = ctx.notes[:40]
    ev = dict(
        property_id=ctx.prop,
        tier=ctx.tier,
        seed=ctx.seed,
        level=mod.LEVEL,
        coverage=cov,
        assumptions=list(getattr(mod, "ASSUMPTIONS", [])),
        wall_s=round(wall, 2),
        violations=nviol,
    )
    d = os.path.join(VERIF_DIR, "evidence")
    os.makedirs(d, exist_ok=True)
    path = os.path.join(d, f"{ctx.prop}.json")
    tmp = path + ".tmp"
    with open(tmp, "w") as f:
        json.dump(ev, f, indent=1, sort_keys=False, default=repr)
    os.replace(tmp, path)
    return path, ev
