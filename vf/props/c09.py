"""C09 — a crash at any instant leaves a repository that opens and is consistent."""

from __future__ import annotations

import gc
import io
import os
import shutil
import warnings
import zlib
import hashlib

from .. import cgit
from ..core import HarnessError, h64
from ..gen import repos
from ..interpose import CrashPolicy, Interposer
from ..model import packfmt

PROPERTY = "C09"
LEVEL = "fault_enumeration"
NEEDS_RUST = True
RULE = (
    "scenario = (object layout in {loose, packed, mixed}, ref layout in {loose, packed, mixed}, operation) for every "
    "repository-changing operation (add_object, add_objects, commit, set_if_equals, remove_if_equals, set_symbolic_ref, "
    "pack_refs, add_packed_refs with removals, add_thin_pack, add_pack+commit, pack_loose_objects, repack, "
    "repack(exclude), garbage_collect, prune, Index.write, build_index_from_tree, config write, write_commit_graph, "
    "write_midx, local fetch), optionally after another operation (pack_refs, repack, gc, commit, pack_loose_objects, "
    "add_thin_pack, fetch) has run to completion.  The operation runs once under the interposer; the repository directory is copied "
    "before every file-system event at which its state changed (process-crash model: completed writes survive, data "
    "still buffered in Python is lost), de-duplicated by state hash - i.e. EVERY crash point of the scenario.  With "
    "fsync enabled each snapshot also yields power-loss variants (files written since their last fsync emptied or "
    "removed).  Each snapshot is judged by a fresh Repo: opens; refs/symrefs/index/config load; every ref holds its "
    "pre or post value and names a present, intact object with a readable closure; every pre-reachable object is "
    "readable and identical; visible packs pass check(); loose files hash to their names; git fsck is clean.  "
    "Non-trivial = a snapshot whose state differs from both the pre and the post state; distinct by (scenario, state hash)."
)
ASSUMPTIONS = [
    "process-crash model at Python-level file-system-call granularity; directory operations are ordered and durable",
    "power-loss model: un-fsynced file *data* may be empty or missing; torn sectors and directory-entry reordering are not modelled",
    "leftover *.lock, tmp_pack_* and orphan .pack files are allowed (prune() owns them)",
]

ID = b"A U Thor <author@example.com>"


# ---------------------------------------------------------------------------
# operations: name -> fn(repo, info)


def _thin_pack(info_blob_base: bytes):
    """A thin pack: one REF delta against a blob the repository already has + one full blob."""
    base = info_blob_base
    target = base + b"appended by thin pack\n"
    delta = packfmt.enc_varint(len(base)) + packfmt.enc_varint(len(target)) + bytes([0x80 | 0x10, len(base)]) + bytes([len(target) - len(base)]) + target[len(base):]
    assert packfmt.patch_delta(base, delta) == target
    return packfmt.build_pack([(packfmt.OBJ_BLOB, b"full blob in thin pack\n", None), (packfmt.OBJ_REF_DELTA, delta, packfmt.obj_id(b"blob", base))])


def operations():
    from dulwich.objects import Blob

    def op_add_object(r, info):
        r.object_store.add_object(Blob.from_string(b"a fresh loose object\n" * 30))

    def op_add_objects(r, info):
        r.object_store.add_objects([(Blob.from_string(b"fresh packed object %d\n" % i * 10), None) for i in range(5)])

    def op_commit(r, info):
        t = repos.mk_tree(r.object_store, {b"a": (0o100644, b"alpha\n"), b"fresh": (0o100644, b"fresh file\n")})
        r.get_worktree().commit(message=b"crash test commit\n", committer=ID, author=ID, commit_timestamp=1_000_000_500,
                                commit_timezone=0, author_timestamp=1_000_000_500, author_timezone=0, tree=t)

    def op_set_if_equals(r, info):
        r.refs.set_if_equals(b"refs/heads/topic", info["refs"][b"refs/heads/topic"], info["commits"][3])

    def op_remove_if_equals(r, info):
        r.refs.remove_if_equals(b"refs/heads/topic", info["refs"][b"refs/heads/topic"])

    def op_remove_tag(r, info):
        r.refs.remove_if_equals(b"refs/tags/v1", info["refs"][b"refs/tags/v1"])

    def op_set_symbolic_ref(r, info):
        r.refs.set_symbolic_ref(b"HEAD", b"refs/heads/topic")

    def op_pack_refs(r, info):
        r.refs.pack_refs(all=True)

    def op_add_packed_refs(r, info):
        r.refs.add_packed_refs({b"refs/heads/topic": info["refs"][b"refs/heads/topic"], b"refs/tags/light": None,
                                b"refs/heads/other": info["refs"][b"refs/heads/other"]})

    def op_add_thin_pack(r, info):
        data = _thin_pack(b"alpha\n")
        f = io.BytesIO(data)
        r.object_store.add_thin_pack(f.read, None)

    def op_add_pack(r, info):
        data = packfmt.build_pack([(packfmt.OBJ_BLOB, b"blob via add_pack %d\n" % i * 200, None) for i in range(4)])
        f, commit, abort = r.object_store.add_pack()
        f.write(data)
        commit()

    def op_pack_loose(r, info):
        r.object_store.pack_loose_objects()

    def op_repack(r, info):
        r.object_store.repack()

    def op_repack_exclude(r, info):
        # exclude something unreachable: add it first outside the crash window? no - exclude an id that is reachable
        # only from the unrelated root would break that ref legitimately, so exclude a non-existent id and a dangling blob
        r.object_store.repack(exclude={b"1" * 40})

    def op_gc(r, info):
        from dulwich.gc import garbage_collect

        garbage_collect(r, prune=True, grace_period=None)

    def op_gc_grace0(r, info):
        from dulwich.gc import garbage_collect

        garbage_collect(r, prune=True, grace_period=0)

    def op_prune(r, info):
        r.object_store.prune(grace_period=0)

    def op_commit_unborn(r, info):
        # a ref that does not resolve yet: the new root commit has to be in the store before the ref names it
        t = repos.mk_tree(r.object_store, {b"first": (0o100644, b"first file on a new branch\n")})
        r.get_worktree().commit(message=b"root of a new branch\n", committer=ID, author=ID, commit_timestamp=1_000_000_600, commit_timezone=0,
                                author_timestamp=1_000_000_600, author_timezone=0, tree=t, ref=b"refs/heads/newborn")

    def op_index_write(r, info):
        from dulwich.index import IndexEntry

        idx = r.open_index()
        blob = Blob.from_string(b"alpha\n").id  # an object the repository has (git fsck walks the index too)
        for i, name in enumerate([b"a", b"dir/b", b"zz"]):
            idx[name] = IndexEntry(ctime=(1000, 0), mtime=(1000, 0), dev=1, ino=2 + i, mode=0o100644, uid=0, gid=0, size=6,
                                   sha=blob, flags=0, extended_flags=0)
        idx.write()

    def op_build_index(r, info):
        from dulwich.index import build_index_from_tree

        tree = r[info["commits"][0]].tree
        build_index_from_tree(r.path, r.index_path(), r.object_store, tree)

    def op_config(r, info):
        c = r.get_config()
        c.set((b"user",), b"name", b"Crash Test")
        c.set((b"remote", b"origin"), b"url", b"https://example.com/" + b"x" * 300)
        c.write_to_path()

    def op_commit_graph(r, info):
        r.object_store.write_commit_graph(list(info["refs"].values())[:3])

    def op_midx(r, info):
        r.object_store.write_midx()

    def op_fetch(r, info):
        from dulwich import porcelain

        peer = os.path.join(os.path.dirname(r.path), "peer")
        porcelain.fetch(r, peer, outstream=io.BytesIO(), errstream=io.BytesIO())

    return {
        "add_object": op_add_object, "add_objects": op_add_objects, "commit": op_commit, "commit(unborn ref)": op_commit_unborn, "set_if_equals": op_set_if_equals,
        "remove_if_equals": op_remove_if_equals, "remove_if_equals(tag)": op_remove_tag, "set_symbolic_ref": op_set_symbolic_ref,
        "pack_refs": op_pack_refs, "add_packed_refs": op_add_packed_refs, "add_thin_pack": op_add_thin_pack, "add_pack": op_add_pack,
        "pack_loose_objects": op_pack_loose, "repack": op_repack, "repack(exclude)": op_repack_exclude, "gc(grace=None)": op_gc,
        "gc(grace=0)": op_gc_grace0, "prune": op_prune, "Index.write": op_index_write, "build_index_from_tree": op_build_index,
        "config": op_config, "write_commit_graph": op_commit_graph, "write_midx": op_midx, "fetch": op_fetch,
    }


NEEDS_PACKS = {"write_midx"}


# ---------------------------------------------------------------------------
# judging one snapshot


def loose_getter(objdir):
    def get(i):
        p = os.path.join(objdir, i[:2].decode(), i[2:].decode())
        with open(p, "rb") as f:
            raw = zlib.decompress(f.read())
        head, data = raw.split(b"\0", 1)
        return head.split(b" ")[0], data

    return get


def state_of(path):
    """(refs dict incl. HEAD, symrefs) through a fresh Repo."""
    from dulwich.repo import Repo

    r = Repo(path)
    try:
        return dict(r.refs.as_dict()), dict(r.refs.get_symrefs())
    finally:
        r.close()


def judge_snapshot(ctx, snap, pre, post, pre_closure, case, check="crash"):
    """Returns True if consistent."""
    from dulwich.repo import Repo

    op = case["op"]

    def fail(kind, msg):
        if case.get("powerloss"):
            kind += ":powerloss"
        ctx.fail(f"C09:{op}:{kind}", f"{op} [{case['layout']}/{case['refs']}] crash before '{case.get('next')}': {msg}", check, case)
        return False

    pre_refs, pre_sym = pre
    post_refs, post_sym = post
    ok = True
    with warnings.catch_warnings():
        warnings.simplefilter("ignore")
        try:
            r = Repo(snap)
        except Exception as e:
            return fail("open-fails", f"Repo() raised {type(e).__name__}: {e}")
        try:
            try:
                d = dict(r.refs.as_dict())
                sym = dict(r.refs.get_symrefs())
            except Exception as e:
                return fail("refs-unreadable", f"refs raised {type(e).__name__}: {e}")
            try:
                if not r.bare:
                    r.open_index()
            except Exception as e:
                ok = fail("index-unreadable", f"open_index raised {type(e).__name__}: {e}")
            try:
                r.get_config()
            except Exception as e:
                ok = fail("config-unreadable", f"get_config raised {type(e).__name__}: {e}")
            for name in sorted(set(pre_refs) | set(post_refs) | set(d)):
                v = d.get(name)
                if v != pre_refs.get(name) and v != post_refs.get(name):
                    ok = fail("ref-value", f"{name!r} is {v!r}, neither its old value {pre_refs.get(name)!r} nor its new value {post_refs.get(name)!r}")
                    break
            for name in sorted(set(pre_sym) | set(post_sym) | set(sym)):
                if sym.get(name) != pre_sym.get(name) and sym.get(name) != post_sym.get(name):
                    ok = fail("symref-value", f"symref {name!r} is {sym.get(name)!r}, old {pre_sym.get(name)!r}, new {post_sym.get(name)!r}")
                    break
            get = repos.dulwich_getter(r.object_store)
            try:
                repos.closure(get, [v for v in d.values() if v])
            except KeyError as e:
                ok = fail("ref-closure-missing", f"object {e.args[0]!r} reachable from a ref is missing")
            except Exception as e:
                ok = fail("ref-closure-corrupt", f"reading the closure of the refs raised {type(e).__name__}: {e}")
            for i, (t, h) in pre_closure.items():
                try:
                    o = r.object_store[i]
                    if (o.type_name, hashlib.sha1(o.as_raw_string()).hexdigest()) != (t, h):
                        ok = fail("pre-object-changed", f"object {i!r} reachable before the operation changed content")
                        break
                except KeyError:
                    ok = fail("pre-object-lost", f"object {i!r} ({t!r}) reachable before the operation is no longer readable")
                    break
                except Exception as e:
                    ok = fail("pre-object-unreadable", f"object {i!r} raises {type(e).__name__}: {e}")
                    break
            try:
                for p in r.object_store.packs:
                    p.check()
            except Exception as e:
                ok = fail("visible-pack-invalid", f"a pack visible to the store fails check(): {type(e).__name__}: {e}")
            # whatever the store lists after the crash is an object: a valid name that can be read (leftover lock and
            # temporary files are not objects), and the maintenance that walks the listing still works
            try:
                listed = list(r.object_store)
            except Exception as e:
                listed = []
                ok = fail("store-listing-raises", f"iter(object_store) raises {type(e).__name__}: {e}")
            for i in listed:
                if len(i) != 40 or any(c not in b"0123456789abcdef" for c in i):
                    ok = fail("store-lists-non-object", f"the store lists {i!r}, which is not an object name")
                    break
                try:
                    r.object_store[i]
                except Exception as e:
                    ok = fail("store-lists-unreadable-object", f"the store lists {i!r} but reading it raises {type(e).__name__}: {e}")
                    break
        finally:
            r.close()
    # loose object files under a valid name must inflate and hash to that name
    objdir = os.path.join(snap, "objects" if os.path.isdir(os.path.join(snap, "objects")) else ".git/objects")
    for d2 in sorted(os.listdir(objdir)):
        if len(d2) != 2:
            continue
        for f in sorted(os.listdir(os.path.join(objdir, d2))):
            if len(f) != 38 or any(c not in "0123456789abcdef" for c in f):
                continue
            try:
                t, data = loose_getter(objdir)((d2 + f).encode())
                real = hashlib.sha1(t + b" " + str(len(data)).encode() + b"\0" + data).hexdigest()
            except Exception as e:
                real = f"unreadable: {type(e).__name__}"
            if real != d2 + f:
                ok = fail("loose-file-invalid", f"loose object file {d2}/{f} is {real}")
    # (acceleration files are C14's business: git must not judge the commit-graph here)
    rc, out, err = cgit.git(["-c", "core.commitGraph=false", "fsck", "--no-dangling", "--no-progress"], cwd=snap, check=False)
    out = out + err
    if rc != 0:
        ok = fail("git-fsck", f"git fsck exits {rc}: {out[:300]!r}")
    return ok


# ---------------------------------------------------------------------------
# one scenario


def run_scenario(ctx, layout, refs_layout, opname, fsync=False, only_snapshot=None, check="crash", prefix=None):
    """``prefix``: an operation that runs to completion (undisturbed) first, so that the crashing operation starts from
    the state another operation leaves (freshly packed refs, one consolidated pack, a new commit, ...)."""
    from dulwich.repo import Repo

    work = ctx.scratch.new("c9")
    repo = os.path.join(work, "repo")
    info = repos.init_repo(repo, layout, refs_layout)
    if "fetch" in (opname, prefix):
        peer = os.path.join(work, "peer")
        pinfo = repos.init_repo(peer, "loose", "loose", variant=1)
        pr = Repo(peer)
        try:
            t = repos.mk_tree(pr.object_store, {b"peer": (0o100644, b"peer only\n")})
            c = repos.mk_commit(t, [pinfo["commits"][4]], 9)
            pr.object_store.add_object(c)
            pr.refs[b"refs/heads/master"] = c.id
        finally:
            pr.close()
    if fsync:
        r = Repo(repo)
        c = r.get_config()
        c.set((b"core",), b"fsyncObjectFiles", b"true")
        c.write_to_path()
        r.close()
    if opname in ("prune", "gc(grace=0)", "gc(grace=None)", "repack(exclude)"):
        # leftovers and unreachable objects for the maintenance operations to act on
        r = Repo(repo)
        from dulwich.objects import Blob

        r.object_store.add_object(Blob.from_string(b"dangling blob\n"))
        with open(os.path.join(r.object_store.path, "tmp_pack_leftover"), "wb") as f:
            f.write(b"junk")
        os.utime(os.path.join(r.object_store.path, "tmp_pack_leftover"), (1, 1))
        r.close()
    if prefix is not None:
        with warnings.catch_warnings():
            warnings.simplefilter("ignore")
            r = Repo(repo)
            try:
                operations()[prefix](r, info)
            except Exception as e:
                shutil.rmtree(work, ignore_errors=True)
                raise HarnessError(f"prefix operation {prefix} failed in {layout}/{refs_layout}: {type(e).__name__}: {e}")
            finally:
                r.close()
        gc.collect()
    pre = state_of(repo)
    r = Repo(repo)
    pre_closure = repos.closure(repos.dulwich_getter(r.object_store), [v for v in pre[0].values() if v])
    r.close()
    pre_hash = None
    snaps_dir = os.path.join(work, "snaps")
    os.mkdir(snaps_dir)
    pol = CrashPolicy(repo, snaps_dir)
    ip = Interposer(work, pol)
    op = operations()[opname]
    err = None
    ip.install()
    try:
        def body():
            rr = Repo(repo)
            try:
                op(rr, info)
            finally:
                rr.close()

        with warnings.catch_warnings():
            warnings.simplefilter("ignore")
            try:
                ip.run_single("A", body)
            except Exception as e:  # an operation that cannot run in this layout is not a crash finding
                err = e
    finally:
        ip.uninstall()
    gc.collect()
    if err is not None and prefix is not None:
        # after another operation this one may have nothing to act on (e.g. the objects it adds are there already)
        ctx.label(f"op-fails-after-prefix:{prefix}->{opname}:{type(err).__name__}")
        shutil.rmtree(work, ignore_errors=True)
        return 0, 0
    if err is not None:
        shutil.rmtree(work, ignore_errors=True)
        raise HarnessError(f"scenario {layout}/{refs_layout}/{opname} failed undisturbed: {type(err).__name__}: {err}")
    pol.snapshot(ip, "end")
    post = state_of(repo)
    states = [s["state"] for s in pol.snaps]
    n_events = len(ip.trace)
    results = []
    for k, s in enumerate(pol.snaps):
        if only_snapshot is not None and k != only_snapshot:
            continue
        case = dict(layout=layout, refs=refs_layout, op=opname, fsync=fsync, snapshot=k, next=s["next"])
        if prefix is not None:
            case["prefix"] = prefix
        intermediate = 0 < k < len(pol.snaps) - 1
        ok = judge_snapshot(ctx, s["path"], pre, post, pre_closure, case, check)
        ctx.case(h64("c9", layout, refs_layout, opname, fsync, prefix, s["state"]), nontrivial=intermediate,
                 labels=("snapshot", "op:" + opname, "layout:" + layout + "/" + refs_layout) + (("intermediate",) if intermediate else ())
                 + (("after:" + prefix,) if prefix else ()),
                 sample=dict(scenario=f"{layout}/{refs_layout}/{opname}", snapshot=k, of=len(pol.snaps), crash_before=s["next"]) if intermediate and k == 2 else None)
        if fsync and s["unsynced"]:
            # power loss: every file with unsynced data individually (and all together) loses what was written
            # since its last fsync: cut back to the synced size, or - never synced - emptied / absent
            uns = s["unsynced"]
            variants = [[u] for u in uns] + ([uns] if len(uns) > 1 else [])
            for vi, files in enumerate(variants):
                modes = ("synced-prefix",) if all(sz is not None for _, sz in files) else ("empty", "absent")
                for mode in modes:
                    vdir = os.path.join(work, "variant")
                    shutil.rmtree(vdir, ignore_errors=True)
                    shutil.copytree(s["path"], vdir, symlinks=True)
                    touched = False
                    for u, ssize in files:
                        rel = os.path.relpath(u, repo)
                        p = os.path.join(vdir, rel)
                        if os.path.isfile(p):
                            touched = True
                            if ssize is not None:
                                with open(p, "r+b") as fh:
                                    fh.truncate(ssize)
                            elif mode == "empty":
                                open(p, "wb").close()
                            else:
                                os.unlink(p)
                    if not touched:
                        continue
                    vcase = dict(case, powerloss=dict(files=[(os.path.relpath(u, repo), sz) for u, sz in files], mode=mode))
                    judge_snapshot(ctx, vdir, pre, post, pre_closure, vcase, check)
                    ctx.case(h64("c9pl", layout, refs_layout, opname, s["state"], vi, mode), nontrivial=True, labels=("power-loss-variant", "power-loss:" + mode, "op:" + opname))
    if pol.truncated:
        ctx.label("snapshots-truncated")
    shutil.rmtree(work, ignore_errors=True)
    return len(pol.snaps), n_events


def scenarios(ctx):
    ops = sorted(operations())
    layouts = [("loose", "loose"), ("packed", "packed"), ("mixed", "mixed")]
    if ctx.thorough:
        layouts += [("loose", "packed"), ("packed", "loose"), ("mixed", "loose"), ("loose", "mixed"), ("packed", "mixed"), ("mixed", "packed")]
    out = []
    for lay, rl in layouts:
        for op in ops:
            if op in NEEDS_PACKS and lay == "loose":
                continue
            out.append((lay, rl, op, False))
    # power-loss model with core.fsyncObjectFiles
    for lay, rl in (layouts if ctx.thorough else layouts[:1] + layouts[2:3]):
        for op in ("add_object", "commit", "commit(unborn ref)", "add_objects", "add_thin_pack", "pack_loose_objects") if not ctx.thorough else ops:
            if op in NEEDS_PACKS and lay == "loose":
                continue
            out.append((lay, rl, op, True))
    # two-step histories: the crashing operation starts from the state another operation has just left
    prefixes = [p for p in ("pack_refs", "repack", "gc(grace=0)", "commit", "pack_loose_objects", "add_thin_pack", "fetch") if p in ops]
    if not prefixes:
        raise HarnessError(f"prefix operations not found among {ops}")
    pairs = [(p, op) for p in prefixes for op in ops if op != "fetch" and p != "fetch" or (p == "fetch") != (op == "fetch")]
    if not ctx.thorough:
        # quick: a rotating eighth of the pairs in the mixed layout
        pairs = [pq for k, pq in enumerate(pairs) if (k + ctx.seed) % 8 == 0]
    for lay, rl in (layouts if ctx.thorough else [("mixed", "mixed")]):
        for p, op in pairs:
            if (op in NEEDS_PACKS or p in NEEDS_PACKS) and lay == "loose":
                continue
            out.append((lay, rl, op, False, p))
    return out


def _part(ctx, item):
    lay, rl, op, fsync = item[:4]
    n, ev = run_scenario(ctx, lay, rl, op, fsync, prefix=item[4] if len(item) > 4 else None)
    ctx.label("scenario")
    ctx.extra["events_total"] = ctx.extra.get("events_total", 0) + ev


def selftest(ctx):
    cgit.selfcheck()
    # a deliberately broken snapshot must be rejected by the judge (oracle is not vacuous)
    work = ctx.scratch.new("self")
    repo = os.path.join(work, "repo")
    info = repos.init_repo(repo, "loose", "loose")
    pre = state_of(repo)
    from dulwich.repo import Repo

    r = Repo(repo)
    pc = repos.closure(repos.dulwich_getter(r.object_store), [v for v in pre[0].values() if v])
    r.close()
    from ..core import Ctx

    probe = Ctx("C09", "quick", 0)
    if not judge_snapshot(probe, repo, pre, pre, pc, dict(op="self", layout="loose", refs="loose")) or probe.violations:
        raise HarnessError(f"judge rejects an intact repository: {list(probe.violations)}")
    victim = info["commits"][2]
    os.unlink(os.path.join(repo, ".git", "objects", victim[:2].decode(), victim[2:].decode()))
    probe = Ctx("C09", "quick", 0)
    judge_snapshot(probe, repo, pre, pre, pc, dict(op="self", layout="loose", refs="loose"))
    if not probe.violations:
        raise HarnessError("judge accepts a repository with a missing reachable object")
    shutil.rmtree(work, ignore_errors=True)


def run(ctx):
    selftest(ctx)
    ctx.note("git_version", cgit.version())
    ctx.note("exhaustive", True)
    ctx.parallel(_part, scenarios(ctx))


def replay(ctx, check, case):
    run_scenario(ctx, case["layout"], case["refs"], case["op"], case.get("fsync", False), only_snapshot=case.get("snapshot"), prefix=case.get("prefix"))
