"""C20 — configuration files round-trip and mean the same to dulwich and git."""

from __future__ import annotations

import io
import itertools
import os

from .. import cgit
from ..core import HarnessError, h64, run_hypothesis

PROPERTY = "C20"
LEVEL = "exploration"
RULE = (
    "values: exhaustive enumeration of all strings up to length L (quick 4, thorough 5) over the 15-symbol alphabet "
    "{SP,TAB,\",\\,#,;,LF,CR,n,t,b,a,=,0x80,BS} plus Hypothesis-generated configs (sections in case variants, "
    "subsections over all bytes except NUL/LF, multi-valued keys, set/add/remove/write/re-read sequences) plus values "
    "stored by `git config --file`.  Each value is written by dulwich and read back by dulwich and by "
    "`git config --list -z` (batched, mismatches re-judged in isolation).  Non-trivial = the value contains a "
    "special byte (blank, quote, backslash, comment char, LF, CR, tab, control, high byte) or leading/trailing blank, "
    "or the subsection contains a quote/backslash/bracket/dot/space, or the key is multi-valued; distinct by "
    "(direction, subsection, value bytes)."
)
ASSUMPTIONS = [
    "git 2.39.5 is the reference reader/writer; behaviours are observed from the installed binary in the run itself",
    "section names are [A-Za-z][A-Za-z0-9-]* (dotted legacy section syntax and include/includeIf are not generated)",
    "values never contain NUL (git cannot represent it)",
]

ALPHABET = [b" ", b"\t", b'"', b"\\", b"#", b";", b"\n", b"\r", b"n", b"t", b"b", b"a", b"=", b"\x80", b"\x08"]
SPECIAL = set(b" \t\"\\#;\n\r\x80\x08=") | set(range(1, 32)) | set(range(127, 256))

_CLASS = {
    0x20: "SP", 0x09: "TAB", 0x22: "DQ", 0x5C: "BSL", 0x23: "HASH", 0x3B: "SEMI", 0x0A: "LF", 0x0D: "CR",
    0x3D: "EQ", 0x08: "BS", 0x0B: "VT", 0x0C: "FF", 0x5D: "RBR", 0x5B: "LBR", 0x2E: "DOT",
}


def classify(v: bytes, maxlen=6) -> str:
    out = []
    for c in v:
        if c in _CLASS:
            t = _CLASS[c]
        elif c < 32 or c == 127:
            t = "CTL"
        elif c >= 128:
            t = "HI"
        else:
            t = "x"
        if not out or out[-1] != t:
            out.append(t)
    if len(out) > maxlen:
        out = out[: maxlen // 2] + ["~"] + out[-(maxlen // 2):]
    return "-".join(out) or "EMPTY"


def nontrivial_value(v: bytes) -> bool:
    return any(c in SPECIAL for c in v)


# ---------------------------------------------------------------------------
# the two readers and the writer


def fullkey(section, key) -> bytes:
    if len(section) == 1:
        return section[0].lower() + b"." + key.lower()
    return section[0].lower() + b"." + section[1] + b"." + key.lower()


def dulwich_write(entries) -> bytes:
    """entries: list of (section tuple, key, value) added in order."""
    from dulwich.config import ConfigFile

    cf = ConfigFile()
    for section, key, value in entries:
        cf.add(section, key, value)
    f = io.BytesIO()
    cf.write_to_file(f)
    return f.getvalue()


def meaning_of(cf) -> dict:
    """{full key (git case rules): [values in order]} through the public API."""
    out = {}
    for section in cf.sections():
        for key, value in cf.items(section):
            out.setdefault(fullkey(section, key), []).append(value)
    return out


def dulwich_read(data: bytes) -> dict:
    from dulwich.config import ConfigFile

    return meaning_of(ConfigFile.from_file(io.BytesIO(data)))


def git_read(data: bytes, scratch_file: str):
    """Returns dict like meaning_of, or ('error', stderr)."""
    with open(scratch_file, "wb") as f:
        f.write(data)
    rc, out, err = cgit.git(["config", "--file", scratch_file, "--list", "-z"], check=False)
    if rc != 0:
        return ("error", err.strip()[:200])
    res = {}
    for rec in out.split(b"\0")[:-1]:
        if b"\n" in rec:
            k, v = rec.split(b"\n", 1)
        else:
            k, v = rec, None  # key without "= value": boolean true
        res.setdefault(k, []).append(v)
    return res


def _try_dulwich_read(data):
    try:
        return dulwich_read(data)
    except Exception as e:  # the oracle compares outcomes; a reader error is an outcome
        return ("error", f"{type(e).__name__}: {e}")


# ---------------------------------------------------------------------------
# single-entry oracle (used to judge in isolation and by replay)


def _directions(ctx, section, key, value):
    """Outcome of writing one entry with dulwich: set of failing directions + details."""
    try:
        data = dulwich_write([(section, key, value)])
    except ValueError as e:
        sub = section[1] if len(section) > 1 else b""
        if b"\n" in sub or b"\0" in sub or b"\0" in value:
            return {}, None  # refusal of what git itself cannot represent
        return {"write-refused": f"write refused: {e}"}, None
    want = {fullkey(section, key): [value]}
    bad = {}
    got = _try_dulwich_read(data)
    if got != want:
        bad["dulwich-roundtrip"] = f"dulwich wrote {data!r} and read back {got!r}, expected {want!r}"
    g = git_read(data, os.path.join(ctx.scratch.path, "single.cfg"))
    if g != want:
        bad["git-reads-dulwich"] = f"dulwich wrote {data!r}; git config --list read {g!r}, expected {want!r}"
    return bad, data


_shrink_cache = {}


def _minimal_class(ctx, direction, section, key, value, fails=None):
    """Root-cause key: class string of a locally minimal value failing the same way."""
    if fails is None:
        fails = lambda s2, v2: direction in _directions(ctx, s2, key, v2)[0]
    ck = (direction, section[1:] and classify(section[1], 99), classify(value, 99))
    if ck in _shrink_cache:
        return _shrink_cache[ck]
    v = value
    sec = section
    changed = True
    probes = 0
    while changed and probes < 200:
        changed = False
        cands = []
        if len(sec) > 1:
            cands.append(((sec[0],), v))
            cands += [((sec[0], sec[1][:i] + sec[1][i + 1:]), v) for i in range(len(sec[1]))]
        cands += [(sec, v[:i] + v[i + 1:]) for i in range(len(v))]
        cands += [(sec, v[:i] + b"x" + v[i + 1:]) for i in range(len(v)) if v[i:i + 1] != b"x"]
        for s2, v2 in cands:
            probes += 1
            if fails(s2, v2):
                sec, v = s2, v2
                changed = True
                break
    out = f"sub={classify(sec[1]) if len(sec) > 1 else '-'}:val={classify(v)}"
    _shrink_cache[ck] = out
    return out


def judge_single(ctx, section, key, value, check="value"):
    """Write one (section,key,value) with dulwich; both readers must return it."""
    case = dict(section=tuple(section), key=key, value=value)
    bad, _ = _directions(ctx, section, key, value)
    for direction, msg in bad.items():
        ctx.fail(f"C20:{direction}:{_minimal_class(ctx, direction, section, key, value)}", msg, check, case)
    return not bad


def judge_batch(ctx, entries, check="value"):
    """entries: [(section, key, value)] with pairwise distinct full keys.

    One dulwich write, one dulwich read and one git process for the whole
    batch; any entry that does not come back exactly is re-judged alone so a
    broken neighbour (unterminated quote, continuation) is not blamed on it.
    """
    want = {}
    for s, k, v in entries:
        want.setdefault(fullkey(s, k), []).append(v)
    suspects = None
    try:
        data = dulwich_write(entries)
    except ValueError:
        suspects = entries
        data = None
    if data is not None:
        got = _try_dulwich_read(data)
        g = git_read(data, os.path.join(ctx.scratch.path, "batch.cfg"))
        if got == want and g == want:
            return
        if isinstance(got, tuple) or isinstance(g, tuple):
            suspects = entries
        else:
            bad = {k for k in want if got.get(k) != want[k] or g.get(k) != want[k]}
            bad |= {k for k in got if k not in want} | {k for k in g if k not in want}
            suspects = [e for e in entries if fullkey(e[0], e[1]) in bad] or entries
    if len(suspects) > 64:
        # a file-level failure: bisect instead of judging hundreds one by one
        mid = len(entries) // 2
        judge_batch(ctx, entries[:mid], check)
        judge_batch(ctx, entries[mid:], check)
        return
    any_bad = False
    for s, k, v in suspects:
        if not judge_single(ctx, s, k, v, check):
            any_bad = True
    if not any_bad and len(entries) > 1:
        # every entry is fine alone but the file as a whole is not: interaction
        mid = len(entries) // 2
        if len(entries) <= 2:
            ctx.fail(
                "C20:batch-interaction",
                f"entries are read correctly alone but not together: {entries!r}",
                "batch",
                dict(entries=[tuple(e) for e in entries]),
            )
        else:
            judge_batch(ctx, entries[:mid], check)
            judge_batch(ctx, entries[mid:], check)


# ---------------------------------------------------------------------------
# part A: exhaustive values


def _enum_values(maxlen):
    for n in range(0, maxlen + 1):
        for tup in itertools.product(ALPHABET, repeat=n):
            yield b"".join(tup)


def _part_a(ctx, item):
    maxlen, nshards, shard = item
    batch = []
    n = 0
    for i, v in enumerate(_enum_values(maxlen)):
        if i % nshards != shard:
            continue
        nt = nontrivial_value(v)
        ctx.case(("A", v), nontrivial=nt, labels=("value-exhaustive",), sample=dict(value=v) if i % 997 == 0 else None)
        batch.append(((b"sec",), b"k%d" % n, v))
        n += 1
        if len(batch) >= 400:
            judge_batch(ctx, batch)
            batch = []
    if batch:
        judge_batch(ctx, batch)


# ---------------------------------------------------------------------------
# part B: generated configs and operation sequences


def _strategies():
    from hypothesis import strategies as st

    sec = st.sampled_from([b"core", b"Core", b"CORE", b"remote", b"branch", b"a-b", b"x9", b"Remote"])
    special_sub = st.sampled_from(
        [b"", b"origin", b"Origin", b'q"uote', b"back\\slash", b"dot.ted", b"sp ace", b"br]acket", b"ha#sh", b"se;mi",
         b"trail\\", b" lead", b"trail ", b"\xff\xfe", b"tab\there", b"[x]", b'"', b"\\", b"a\\\\b", b"=eq", b"cr\rx"]
    )
    sub_any = st.binary(min_size=0, max_size=8).map(lambda b: b.replace(b"\0", b"z").replace(b"\n", b"y"))
    subsection = st.one_of(st.none(), special_sub, sub_any)
    key = st.sampled_from([b"k", b"K", b"key", b"Key", b"a1", b"x-y", b"bare", b"URL", b"url"])
    val_alpha = st.lists(st.sampled_from(ALPHABET + [b"x", b"\x0c", b"\x0b", b"\xff", b"\x01", b"'"]), max_size=10).map(b"".join)
    val_any = st.binary(max_size=24).map(lambda b: b.replace(b"\0", b"0"))
    targeted = st.sampled_from(
        [b"", b" ", b"  x", b"x  ", b"\tx", b"x\t", b"x\\", b"\\", b'"', b'""', b'"x"', b"a\r\nb", b"a\r", b"\ra", b"a\nb",
         b"a;b", b"a#b", b";", b"#", b"true", b"x = y", b"\\n", b"\\\\n", b"a\\\nb", b"[sec]", b"a b", b"a  b", b"\x08",
         b"caf\xc3\xa9", b"'single'", b"a\x0cb", b"\x0ca", b"a\x0b"]
    )
    value = st.one_of(val_alpha, val_any, targeted)
    section = st.tuples(sec, subsection).map(lambda t: (t[0],) if t[1] is None else (t[0], t[1]))
    op = st.one_of(
        st.tuples(st.just("set"), section, key, value),
        st.tuples(st.just("add"), section, key, value),
        st.tuples(st.just("add"), section, key, value),
        st.tuples(st.just("remove"), st.integers(0, 50)),
        st.tuples(st.just("rewrite")),
    )
    return st.lists(op, min_size=1, max_size=12)


def _norm_section(section):
    return (section[0].lower(),) + tuple(section[1:])


class _Model:
    """Ordered multimap per normalised section, the way git understands it."""

    def __init__(self):
        self.sections = {}  # normalised section -> list of (key_lower, value)

    def set(self, s, k, v):
        lst = self.sections.setdefault(_norm_section(s), [])
        lst[:] = [(kk, vv) for kk, vv in lst if kk != k.lower()]
        lst.append((k.lower(), v))

    def add(self, s, k, v):
        self.sections.setdefault(_norm_section(s), []).append((k.lower(), v))

    def keys(self):
        return [(s, k) for s, lst in self.sections.items() for k in dict.fromkeys(kk for kk, _ in lst)]

    def remove(self, s, k):
        lst = self.sections[s]
        lst[:] = [(kk, vv) for kk, vv in lst if kk != k]

    def meaning(self):
        out = {}
        for s, lst in self.sections.items():
            for k, v in lst:
                out.setdefault(fullkey(s, k), []).append(v)
        return out


def execute_ops(ctx, ops, check="ops"):
    """Run an operation sequence against ConfigFile and the model."""
    from dulwich.config import ConfigFile

    cf = ConfigFile()
    model = _Model()
    path = os.path.join(ctx.scratch.path, "ops.cfg")
    case = dict(ops=[tuple(o) for o in ops])
    multi = False
    special_sub = False
    nt_value = False
    vals = []

    def compare(where, got):
        want = model.meaning()
        if got != want:
            diff = {k: (got.get(k) if isinstance(got, dict) else got, want.get(k)) for k in set(want) | (set(got) if isinstance(got, dict) else set())
                    if not isinstance(got, dict) or got.get(k) != want.get(k)}
            kinds = sorted({classify(v) for pair in diff.values() for side in pair if isinstance(side, list) for v in side if v is not None})[:3]
            subs = sorted({classify(k.split(b".", 1)[1].rsplit(b".", 1)[0]) for k in diff if k.count(b".") >= 2})[:2]
            ctx.fail(
                f"C20:{where}:sub={'+'.join(subs) or '-'}:val={'+'.join(kinds) or '-'}",
                f"{where}: differing keys {diff!r}" if not isinstance(got, tuple) else f"{where}: {got!r}",
                check,
                case,
            )
            return False
        return True

    def rewrite():
        nonlocal cf
        try:
            cf.write_to_path(path)
        except ValueError as e:
            # only what git forbids may be refused
            for s in model.sections:
                if len(s) > 1 and (b"\n" in s[1] or b"\0" in s[1]):
                    return None
            ctx.fail("C20:write-refused:ops", f"write refused: {e}", check, case)
            return None
        with open(path, "rb") as f:
            data = f.read()
        try:
            cf2 = ConfigFile.from_path(path)
            got = meaning_of(cf2)
        except Exception as e:
            got = ("error", f"{type(e).__name__}: {e}")
            cf2 = None
        ok = compare("dulwich-roundtrip", got)
        g = git_read(data, os.path.join(ctx.scratch.path, "ops-git.cfg"))
        ok = compare("git-reads-dulwich", g) and ok
        if cf2 is not None and ok:
            cf = cf2  # continue editing the re-read file (rewrite of an existing file)
        return ok

    for o in ops:
        if o[0] in ("set", "add"):
            _, s, k, v = o
            getattr(cf, o[0])(s, k, v)
            getattr(model, o[0])(s, k, v)
            vals.append(v)
            nt_value = nt_value or nontrivial_value(v)
            if len(s) > 1 and any(c in b'"\\]. #;[' for c in s[1]):
                special_sub = True
        elif o[0] == "remove":
            ks = model.keys()
            if not ks:
                continue
            s, k = ks[o[1] % len(ks)]
            # address it through a differently-cased spelling: git's case rules
            cf.remove((s[0].upper(),) + tuple(s[1:]), k.upper())
            model.remove(s, k)
        elif o[0] == "rewrite":
            if rewrite() is False:
                return
        if compare("in-memory", meaning_of(cf)) is False:
            return
    rewrite()
    multi = any(len(v) > 1 for v in model.meaning().values())
    labels = []
    if multi:
        labels.append("multi-valued")
    if special_sub:
        labels.append("special-subsection")
    if any(o[0] == "rewrite" for o in ops[:-1]):
        labels.append("rewrite-then-edit")
    if any(o[0] == "remove" for o in ops):
        labels.append("remove")
    ctx.case(("B", repr(ops)), nontrivial=multi or special_sub or nt_value, labels=labels, sample=case if (multi and special_sub) else None)


def _part_b(ctx, n):
    run_hypothesis(ctx, _strategies(), lambda c, ops: execute_ops(c, ops), max_examples=n, shrink=True)


# ---------------------------------------------------------------------------
# part C: git writes, dulwich reads


def judge_git_written(ctx, entries, check="git-written"):
    """entries: [(section, key, value)]; stored with `git config --file F --add`."""
    path = os.path.join(ctx.scratch.path, "gitw.cfg")
    if os.path.exists(path):
        os.unlink(path)
    stored = 0
    for s, k, v in entries:
        name = fullkey(s, k)
        rc, _, err = cgit.git(["config", "--file", path, "--add", name, v], check=False)
        if rc != 0:
            ctx.label("git-refused-to-store")
            continue
        stored += 1
    if not stored:
        return
    with open(path, "rb") as f:
        data = f.read()
    g = git_read(data, os.path.join(ctx.scratch.path, "gitw2.cfg"))
    if isinstance(g, tuple):
        ctx.label("git-cannot-read-own-file")
        return
    got = _try_dulwich_read(data)
    for s, k, v in entries:
        fk = fullkey(s, k)
        if g.get(fk) != [v]:
            ctx.label("git-own-roundtrip-lossy")  # e.g. trailing CR: excluded, counted
            if isinstance(got, dict):
                got.pop(fk, None)
            g.pop(fk, None)
    if got != g:
        if isinstance(got, tuple):
            bad = list(g)
        else:
            bad = [k for k in set(g) | set(got) if g.get(k) != got.get(k)]
        # judge each differing entry alone
        for s, k, v in entries:
            if fullkey(s, k) in bad or isinstance(got, tuple):
                _judge_git_written_single(ctx, s, k, v, check)


def _git_written_differs(ctx, s, k, v):
    """None if git cannot store/re-read the value itself; else (differs, message)."""
    path = os.path.join(ctx.scratch.path, "gitw1.cfg")
    if os.path.exists(path):
        os.unlink(path)
    rc, _, _ = cgit.git(["config", "--file", path, "--add", fullkey(s, k), v], check=False)
    if rc != 0:
        return None
    with open(path, "rb") as f:
        data = f.read()
    g = git_read(data, os.path.join(ctx.scratch.path, "gitw2.cfg"))
    if isinstance(g, tuple) or g.get(fullkey(s, k)) != [v]:
        return None
    got = _try_dulwich_read(data)
    return got != g, f"git wrote {data!r} (meaning {g!r}); dulwich read {got!r}"


def _judge_git_written_single(ctx, s, k, v, check):
    r = _git_written_differs(ctx, s, k, v)
    if r is None or not r[0]:
        return
    cls = _minimal_class(ctx, "dulwich-reads-git", s, k, v,
                         fails=lambda s2, v2: (_git_written_differs(ctx, s2, k, v2) or (False,))[0])
    ctx.fail(f"C20:dulwich-reads-git:{cls}", r[1], check, dict(section=tuple(s), key=k, value=v))


def _part_c(ctx, item):
    import random  # deterministic: seeded from VERIF_SEED and the shard, used only to pick from the enumerated domain

    n, nshards, shard = item
    rnd = random.Random(ctx.seed * 7919 + shard)
    subs = [None, b"origin", b'q"uote', b"back\\slash", b"dot.ted", b"sp ace", b"br]acket", b"UPPER", b"\xff"]
    extra = [b"x", b"\x0c", b"\xff", b"'", b"\x01"]
    entries = []
    for i in range(n):
        ln = rnd.choice([0, 1, 2, 2, 3, 3, 4, 5, 6, 8])
        v = b"".join(rnd.choice(ALPHABET + extra) for _ in range(ln))
        sub = rnd.choice(subs)
        s = (b"sec",) if sub is None else (b"sec", sub)
        entries.append((s, b"k%d" % i, v))
        ctx.case(("C", sub, v), nontrivial=nontrivial_value(v) or sub not in (None, b"origin", b"UPPER"),
                 labels=("git-written",), sample=dict(section=s, value=v, writer="git") if i == 3 else None)
        if len(entries) >= 25:
            judge_git_written(ctx, entries)
            entries = []
    if entries:
        judge_git_written(ctx, entries)


# ---------------------------------------------------------------------------
# part D: files written by hand (continuation lines, comments, quoting) mean the same to dulwich and to git


def _hw_value(rnd):
    parts = []
    for _ in range(rnd.randrange(0, 6)):
        k = rnd.randrange(12)
        if k < 3:
            parts.append(rnd.choice([b"word", b"x", b"C:", b"a=b", b"1"]))
        elif k == 3:
            parts.append(b" ")
        elif k == 4:
            parts.append(b"\\\\" * rnd.randrange(1, 4))  # 1..3 escaped backslashes
        elif k == 5:
            parts.append(rnd.choice([b'\\"', b"\\n", b"\\t", b"\\b"]))
        elif k == 6:
            parts.append(b'"' + rnd.choice([b"q s", b"a;b", b"a#b", b" lead", b"trail ", b"z", b"x\\\\y", b'in\\"q']) + b'"')
        elif k == 7:
            parts.append(b"\\\n" + rnd.choice([b"cont", b"w", b"2"]))  # continuation; the next line starts with a non-blank
        elif k == 8:
            parts.append(b"  ")
        else:
            parts.append(rnd.choice([b"v", b"-", b".", b"/", b"~"]))
    return b"".join(parts)


def handwritten_file(rnd):
    """A config file the way people write them.  Left out on purpose (dulwich and git 2.39 are known to read them
    differently and the statement does not cover them): tabs inside unquoted values (git < 2.46 turns them into blanks),
    an empty quoted segment after a blank, leading blanks on a continuation line."""
    lines = []
    ki = 0
    for _ in range(rnd.randrange(1, 4)):
        lines.append(rnd.choice([b"[core]", b"[Sec]", b'[remote "origin"]', b'[a "s\\\\b \\"q\\""]', b"[x.y]", b"[core] # c"]))
        for _ in range(rnd.randrange(0, 4)):
            key = b"k%d" % ki
            ki += 1
            form = rnd.randrange(8)
            if form == 0:
                lines.append(b"\t" + key)
            elif form == 1:
                lines.append(b"\t" + key + b" =")
            else:
                lines.append(rnd.choice([b"\t", b"", b"  "]) + key + rnd.choice([b" = ", b"=", b" =", b"= "]) + _hw_value(rnd)
                             + rnd.choice([b"", b"", b" ; comment", b" # c", b" ;x"]))
        if rnd.randrange(5) == 0:
            lines.append(rnd.choice([b"; full line comment", b"# c", b"", b"   "]))
    eol = rnd.choice([b"\n", b"\n", b"\r\n"])
    return eol.join(l.replace(b"\n", eol) for l in lines) + (eol if rnd.randrange(6) else b"")


def judge_handwritten(ctx, data, check="handwritten"):
    g = git_read(data, os.path.join(ctx.scratch.path, "hw.cfg"))
    if isinstance(g, tuple):
        return "git-rejects"
    g = {k: [b"true" if x is None else x for x in v] for k, v in g.items()}  # dulwich's API spells a valueless key b"true"
    d = _try_dulwich_read(data)
    case = dict(data=data)
    if isinstance(d, tuple):
        ctx.fail(f"C20:handwritten:dulwich-rejects:{d[1].split(':')[0]}", f"git config reads {data!r} as {g!r}; dulwich raises {d[1]}", check, case)
        return "dulwich-rejects"
    if d != g:
        keys = sorted(k for k in set(d) | set(g) if d.get(k) != g.get(k))
        ctx.fail("C20:handwritten:values-differ", f"file {data!r}: git config reads {[(k, g.get(k)) for k in keys][:3]!r}, dulwich reads {[(k, d.get(k)) for k in keys][:3]!r}", check, case)
        return "differ"
    return "same"


def _hw_test(ctx, rnd):
    data = handwritten_file(rnd)
    out = judge_handwritten(ctx, data)
    cont = b"\\\n" in data or b"\\\r\n" in data
    ctx.case(("hw", data), nontrivial=cont or b'"' in data or b";" in data or b"#" in data,
             labels=("handwritten", "handwritten:" + out) + (("handwritten:continuation",) if cont else ()),
             sample=dict(file=data, outcome=out) if cont and len(data) < 120 else None)


def _part_d(ctx, n):
    from hypothesis import strategies as st

    run_hypothesis(ctx, st.randoms(use_true_random=False), _hw_test, max_examples=n)


# ---------------------------------------------------------------------------


def selftest(ctx):
    cgit.selfcheck()
    # the git reader helper must understand git's own output
    data = b'[a "B.c"]\n\tk = "x y" ; comment\n\tk = z\n\tflag\n'
    g = git_read(data, os.path.join(ctx.scratch.path, "self.cfg"))
    if g != {b"a.B.c.k": [b"x y", b"z"], b"a.B.c.flag": [None]}:
        raise HarnessError(f"git_read self-test failed: {g!r}")


def run(ctx):
    selftest(ctx)
    maxlen = ctx.scale(4, 5)
    ctx.note("exhaustive_value_length", maxlen)
    ctx.note("exhaustive", True)
    ctx.note("git_version", cgit.version())
    ns = 16
    ctx.parallel(_part_a, [(maxlen, ns, k) for k in range(ns)])
    per = ctx.scale(500, 6000)
    ctx.parallel(_part_b, [per] * 16)
    per_c = ctx.scale(100, 1500)
    ctx.parallel(_part_c, [(per_c, 16, k) for k in range(16)])
    ctx.parallel(_part_d, [ctx.scale(120, 4000)] * 16)
    # coverage-guided campaigns over raw config text: whatever the parser accepts must survive write -> read (E3)
    from .. import fuzz

    fuzz.run_campaigns(ctx, "vf.fuzzt.c20", [("parse_write_parse", ctx.scale(15000, 1000000), ctx.scale(8, 16))])


def replay(ctx, check, case):
    if check == "value":
        judge_single(ctx, tuple(case["section"]), case["key"], case["value"])
    elif check == "ops":
        execute_ops(ctx, [tuple(o) for o in case["ops"]])
    elif check == "batch":
        judge_batch(ctx, [tuple(e) for e in case["entries"]])
    elif check == "git-written":
        _judge_git_written_single(ctx, tuple(case["section"]), case["key"], case["value"], check)
    elif check == "handwritten":
        judge_handwritten(ctx, case["data"])
    elif check == "fuzz":
        from .. import fuzz

        fuzz.replay(ctx, case)
    else:
        raise HarnessError(f"unknown check {check!r}")
