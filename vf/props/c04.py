"""C04 — corrupt or hostile input is contained; failed ingestion leaves no trace."""

from __future__ import annotations

import contextlib
import hashlib
import io
import os
import shutil
import struct
import sys
import warnings
import zlib

from .. import cgit, sandbox
from ..core import HarnessError, h64
from ..gen import repos
from ..model import packfmt

PROPERTY = "C04"
LEVEL = "fault_enumeration"
RULE = (
    "valid seeds (self-contained and thin packs with OFS and REF deltas, their idx v1/v2/v3, loose objects of each "
    "type, index files v2/v3/v4, packed-refs with and without peeled lines, commit-graph, multi-pack-index) are "
    "mutated EXHAUSTIVELY per seed: every single-bit flip, every byte set to 00/ff/+1, every truncation point, appended "
    "tails; plus grammar-aware pack attacks with the trailer recomputed (object count +-1/+2^31, OFS offset "
    "0/beyond-start/mid-object/forward, REF delta to missing/later/own id, zlib with trailing garbage / longer / shorter "
    "output, stored blocks, a 16 MiB-of-zeros bomb behind a small size header, 11-byte size varints, type numbers 0 and "
    "5, mutually referring REF deltas behind a crafted idx).  Each mutated pack is ingested into a DiskObjectStore and a "
    "MemoryObjectStore pre-loaded with unrelated objects through add_pack+commit, add_thin_pack (three read chunkings) "
    "and PackStreamReader; each damaged file is read through its reader.  Every case runs in a forked "
    "child under a Python-call budget of 50x the undisturbed run + 20000 and an address-space allowance.  Outcome must "
    "be a return or an ordinary Exception (not MemoryError/RecursionError/death/budget); after a successful ingestion "
    "every visible object hashes to its name (same and fresh instance); after a failed one the object set, all "
    "pre-existing contents and the set of pack indexes are unchanged.  Non-trivial = the mutated input differs from its "
    "seed in a byte the undisturbed run reads; distinct by (seed, path, mutation)."
)
ASSUMPTIONS = [
    "termination is decided by a Python call-count budget relative to the undisturbed run (wall clock only as a 120 s watchdog => inconclusive)",
    "memory: RLIMIT_AS = current + 8 GiB + 8 x input around each case, so a MemoryError means an allocation that fails on ordinary machines too",
    "on-disk readers of damaged files are judged for containment only (dulwich, like git, does not re-hash objects on every read); self-consistency is demanded of ingestion",
    "orphan temp files (tmp_pack_*, .pack without .idx) after a failed ingestion are allowed and counted",
    "add_pack_data is not an entry point for untrusted bytes (it takes resolved UnpackedObjects produced by dulwich itself) and is not driven",
]

MEM_SLACK = 8 << 30  # only allocations that would fail on ordinary machines too (virtual reservations below that are harmless)


class BudgetExceeded(BaseException):
    pass


class Inconsistent(BaseException):
    """Raised by a reader routine of the harness: data was yielded without an error but is not self-consistent."""

    def __init__(self, msg, kind="object-under-wrong-name"):
        super().__init__(msg)
        self.kind = kind


class Budget:
    """Counts Python call events; raises BudgetExceeded past the limit (termination without the wall clock)."""

    def __init__(self, limit):
        self.limit = limit
        self.n = 0

    def __enter__(self):
        self.n = 0

        def prof(frame, event, arg):
            if event == "call":
                self.n += 1
                if self.limit is not None and self.n > self.limit:
                    sys.setprofile(None)
                    raise BudgetExceeded()

        sys.setprofile(prof)
        return self

    def __exit__(self, *a):
        sys.setprofile(None)
        return False


# ---------------------------------------------------------------------------
# seeds


def base_objects():
    """Objects every store is pre-loaded with: [(type_name, bytes)]."""
    blob = b"pre-existing blob\n" * 3
    bid = packfmt.obj_id(b"blob", blob)
    tree = b"100644 f\0" + bid
    tid = packfmt.obj_id(b"tree", tree)
    commit = b"tree " + tid.hex().encode() + b"\nauthor A <a@b> 1 +0000\ncommitter A <a@b> 1 +0000\n\npre\n"
    return [(b"blob", blob), (b"tree", tree), (b"commit", commit), (b"blob", b"thin base blob\n" * 4), (b"blob", b"")]


def pack_seeds():
    """name -> (pack bytes, is_thin)."""
    b1 = b"hello world, this is blob one\n" * 2
    b2 = b1 + b"with a little more\n"
    b3 = b"x" * 40 + b1[:30]
    tid_entry = b"100644 a\0" + packfmt.obj_id(b"blob", b1) + b"100755 b\0" + packfmt.obj_id(b"blob", b2)
    commit = b"tree " + packfmt.obj_id(b"tree", tid_entry).hex().encode() + b"\nauthor A <a@b> 2 +0000\ncommitter A <a@b> 2 +0000\n\nmsg\n"

    def delta(base, target, copy_len):
        d = packfmt.enc_varint(len(base)) + packfmt.enc_varint(len(target)) + bytes([0x90, copy_len]) + bytes([len(target) - copy_len]) + target[copy_len:]
        assert packfmt.patch_delta(base, d) == target
        return d

    d12 = delta(b1, b2, len(b1))
    # b3 as REF delta against b1 (copy 30 bytes from base after inserting 40)
    d13 = packfmt.enc_varint(len(b1)) + packfmt.enc_varint(len(b3)) + bytes([40]) + b"x" * 40 + bytes([0x90, 30])
    assert packfmt.patch_delta(b1, d13) == b3
    full = packfmt.build_pack([
        (packfmt.OBJ_BLOB, b1, None), (packfmt.OBJ_OFS_DELTA, d12, 0), (packfmt.OBJ_REF_DELTA, d13, packfmt.obj_id(b"blob", b1)),
        (packfmt.OBJ_TREE, tid_entry, None), (packfmt.OBJ_COMMIT, commit, None),
    ])
    thin_base = b"thin base blob\n" * 4
    tt = thin_base + b"appended\n"
    thin = packfmt.build_pack([(packfmt.OBJ_REF_DELTA, delta(thin_base, tt, len(thin_base)), packfmt.obj_id(b"blob", thin_base)), (packfmt.OBJ_BLOB, b"second object of the thin pack\n", None)])
    tiny = packfmt.build_pack([(packfmt.OBJ_BLOB, b"tiny\n", None)])
    refonly = packfmt.build_pack([(packfmt.OBJ_BLOB, b1, None), (packfmt.OBJ_REF_DELTA, d13, packfmt.obj_id(b"blob", b1)), (packfmt.OBJ_COMMIT, commit, None),
                                  (packfmt.OBJ_REF_DELTA, d12, packfmt.obj_id(b"blob", b1)), (packfmt.OBJ_TREE, tid_entry, None)])
    return {"full": (full, False), "thin": (thin, True), "tiny": (tiny, False), "refonly": (refonly, False)}


def grammar_attacks():
    """name -> pack bytes with a *valid trailer* (so the checksum does not mask the attack)."""
    out = {}
    b1 = b"grammar attack base blob\n" * 3
    bid = packfmt.obj_id(b"blob", b1)
    good = [(packfmt.OBJ_BLOB, b1, None), (packfmt.OBJ_BLOB, b"second\n", None)]

    def retrailer(body):
        return body + hashlib.sha1(body).digest()

    p = packfmt.build_pack(good)
    body = p[:-20]
    for name, cnt in [("count+1", 3), ("count-1", 1), ("count=0", 0), ("count=2^31", 1 << 31), ("count=2^32-1", (1 << 32) - 1)]:
        out[name] = retrailer(body[:8] + struct.pack(">L", cnt) + body[12:])
    out["version=3"] = retrailer(body[:4] + struct.pack(">L", 3) + body[8:])
    out["version=9"] = retrailer(body[:4] + struct.pack(">L", 9) + body[8:])

    def raw_pack(entries_bytes, n):
        b = b"PACK" + struct.pack(">LL", 2, n) + b"".join(entries_bytes)
        return retrailer(b)

    def ent(type_num, size, extra, payload, level=-1):
        return packfmt.enc_obj_header(type_num, size) + extra + zlib.compress(payload, level)

    d = packfmt.enc_varint(len(b1)) + packfmt.enc_varint(len(b1)) + bytes([0x90, len(b1)])
    base_ent = ent(packfmt.OBJ_BLOB, len(b1), b"", b1)
    out["ofs=0"] = raw_pack([base_ent, packfmt.enc_obj_header(packfmt.OBJ_OFS_DELTA, len(d)) + b"\x00" + zlib.compress(d)], 2)
    out["ofs-beyond-start"] = raw_pack([base_ent, ent(packfmt.OBJ_OFS_DELTA, len(d), packfmt.enc_ofs(10_000), d)], 2)
    out["ofs-into-middle"] = raw_pack([base_ent, ent(packfmt.OBJ_OFS_DELTA, len(d), packfmt.enc_ofs(len(base_ent) - 3), d)], 2)
    out["ofs-11-byte-varint"] = raw_pack([base_ent, packfmt.enc_obj_header(packfmt.OBJ_OFS_DELTA, len(d)) + b"\xff" * 10 + b"\x7f" + zlib.compress(d)], 2)
    out["ref-missing-base"] = raw_pack([ent(packfmt.OBJ_REF_DELTA, len(d), b"\x11" * 20, d)], 1)
    out["ref-base-later"] = raw_pack([ent(packfmt.OBJ_REF_DELTA, len(d), bid, d), base_ent], 2)
    # a delta whose base is the delta's own result id (self reference)
    out["ref-self"] = raw_pack([ent(packfmt.OBJ_REF_DELTA, len(d), bid, d)], 1)
    tree = b"100644 f\0" + bid
    dt = packfmt.enc_varint(len(tree)) + packfmt.enc_varint(len(tree)) + bytes([0x90, len(tree)])
    out["ref-base-other-type"] = raw_pack([ent(packfmt.OBJ_TREE, len(tree), b"", tree), ent(packfmt.OBJ_REF_DELTA, len(dt), packfmt.obj_id(b"tree", tree), dt)], 2)
    out["zlib-trailing-garbage"] = raw_pack([packfmt.enc_obj_header(packfmt.OBJ_BLOB, len(b1)) + zlib.compress(b1) + b"GARBAGE", ent(packfmt.OBJ_BLOB, 3, b"", b"abc")], 2)
    out["zlib-output-longer"] = raw_pack([packfmt.enc_obj_header(packfmt.OBJ_BLOB, 5) + zlib.compress(b1)], 1)
    out["zlib-output-shorter"] = raw_pack([packfmt.enc_obj_header(packfmt.OBJ_BLOB, len(b1) + 50) + zlib.compress(b1)], 1)
    out["zlib-stored-blocks"] = raw_pack([ent(packfmt.OBJ_BLOB, len(b1), b"", b1, 0)], 1)
    out["zlib-bomb-small-header"] = raw_pack([packfmt.enc_obj_header(packfmt.OBJ_BLOB, 20) + zlib.compress(bytes(16 << 20), 9)], 1)
    out["zlib-bomb-honest-header"] = raw_pack([packfmt.enc_obj_header(packfmt.OBJ_BLOB, 16 << 20) + zlib.compress(bytes(16 << 20), 9)], 1)
    out["size-11-byte-varint"] = raw_pack([b"\xbf" + b"\xff" * 9 + b"\x7f" + zlib.compress(b"abc")], 1)
    out["type-0"] = raw_pack([ent(0, 3, b"", b"abc")], 1)
    out["type-5"] = raw_pack([ent(5, 3, b"", b"abc")], 1)
    out["delta-declares-2^40"] = raw_pack([base_ent, ent(packfmt.OBJ_REF_DELTA, 12, bid, packfmt.enc_varint(len(b1)) + packfmt.enc_varint(1 << 40) + bytes([0x90, len(b1)]))], 2)
    chain = [base_ent]
    for i in range(60):  # a 60-deep OFS chain of identity deltas
        chain.append(ent(packfmt.OBJ_OFS_DELTA, len(d), packfmt.enc_ofs(len(chain[-1])), d))
    out["ofs-chain-60-identical-results"] = raw_pack(chain, len(chain))
    return out


def payload_attacks():
    """name -> (pack bytes, is_thin, [hex ids of the objects the pack carries]): structurally perfect packs whose
    *object payloads* are hostile (the zlib checksum stops byte flips before any object parser runs, so these have to
    be built at the object level)."""
    out = {}
    base_tree = base_objects()[1][1]
    bid = packfmt.obj_id(b"blob", base_objects()[0][1])
    tid = packfmt.obj_id(b"tree", base_tree).hex().encode()
    ident = b"A <a@b> 1 +0000"

    def commit(*lines, msg=b"m\n"):
        return b"\n".join(lines) + b"\n\n" + msg

    bad_commits = {
        "commit:encoding-without-value": commit(b"tree " + tid, b"author " + ident, b"committer " + ident, b"encoding"),
        "commit:tree-without-value": commit(b"tree", b"author " + ident, b"committer " + ident),
        "commit:author-without-timezone": commit(b"tree " + tid, b"author A <a@b> 1", b"committer " + ident),
        "commit:committer-without-time": commit(b"tree " + tid, b"author " + ident, b"committer A <a@b>"),
        "commit:tree-id-not-hex": commit(b"tree " + b"z" * 40, b"author " + ident, b"committer " + ident),
        "commit:parent-short-id": commit(b"tree " + tid, b"parent abc", b"author " + ident, b"committer " + ident),
        "commit:empty": b"",
        "commit:no-headers": b"\njust a message\n",
        "commit:time-not-a-number": commit(b"tree " + tid, b"author A <a@b> x +0000", b"committer " + ident),
    }
    bad_tags = {
        "tag:tagger-without-value": b"object " + tid + b"\ntype tree\ntag t\ntagger\n\nm\n",
        "tag:type-unknown": b"object " + tid + b"\ntype frob\ntag t\ntagger " + ident + b"\n\nm\n",
        "tag:object-missing": b"type tree\ntag t\ntagger " + ident + b"\n\nm\n",
        "tag:tagger-without-timezone": b"object " + tid + b"\ntype tree\ntag t\ntagger A <a@b> 1\n\nm\n",
    }
    bad_trees = {
        "tree:garbage-mode": b"1x0644 zz\0" + bid + base_tree,
        "tree:truncated-id": b"100644 f\0" + bid[:10],
        "tree:no-nul": b"100644 f" + bid,
        "tree:empty-mode": b" f\0" + bid,
    }
    good_blob = b"innocent companion blob\n"
    for fam, type_num, tname in ((bad_commits, packfmt.OBJ_COMMIT, b"commit"), (bad_tags, packfmt.OBJ_TAG, b"tag"), (bad_trees, packfmt.OBJ_TREE, b"tree")):
        for name, payload in fam.items():
            ids = [packfmt.obj_id(b"blob", good_blob).hex().encode(), packfmt.obj_id(tname, payload).hex().encode()]
            out[name] = (packfmt.build_pack([(packfmt.OBJ_BLOB, good_blob, None), (type_num, payload, None)]), False, ids)
    # thin pack: a good REF delta, a REF delta whose result does not parse, one more object than the header admits
    t2 = b"100644 a\0" + bid + b"100644 c\0" + bid
    bad = b"1x0644 zz\0" + bid + base_tree

    def ident_delta(base, target):
        d = packfmt.enc_varint(len(base)) + packfmt.enc_varint(len(target))
        pos = 0
        while pos < len(target):
            chunk = target[pos : pos + 127]
            d += bytes([len(chunk)]) + chunk
            pos += 127
        assert packfmt.patch_delta(base, d) == target
        return d

    def ident_copy(base):
        d = packfmt.enc_varint(len(base)) + packfmt.enc_varint(len(base))
        pos = 0
        while pos < len(base):
            n = min(0xFFFF, len(base) - pos)
            op = bytearray([0x80])
            for i in range(4):
                if (pos >> (8 * i)) & 0xFF:
                    op[0] |= 1 << i
                    op.append((pos >> (8 * i)) & 0xFF)
            for i in range(2):
                if (n >> (8 * i)) & 0xFF:
                    op[0] |= 0x10 << i
                    op.append((n >> (8 * i)) & 0xFF)
            d += bytes(op)
            pos += n
        assert packfmt.patch_delta(base, d) == base
        return d

    base_id = packfmt.obj_id(b"tree", base_tree)
    ents = [(packfmt.OBJ_REF_DELTA, ident_delta(base_tree, t2), base_id), (packfmt.OBJ_REF_DELTA, ident_delta(base_tree, bad), base_id), (packfmt.OBJ_BLOB, b"hidden extra blob\n", None)]
    full = packfmt.build_pack(ents)
    body = full[:-20]
    under = body[:8] + struct.pack(">L", 2) + body[12:]
    ids = [packfmt.obj_id(b"tree", t2).hex().encode(), packfmt.obj_id(b"blob", b"hidden extra blob\n").hex().encode()]
    # REF deltas that reproduce an object the store already has (the result carries the base's own name): the pack then
    # lists an id whose only representation is a delta onto that very id
    for bname, (bt, bb) in zip(("blob", "tree", "commit"), base_objects()):
        b_id = packfmt.obj_id(bt, bb)
        out[f"thin:identity-delta-onto-existing-{bname}"] = (packfmt.build_pack([(packfmt.OBJ_REF_DELTA, ident_copy(bb), b_id)]), True, [])
        out[f"thin:identity-delta-onto-existing-{bname}+new-blob"] = (
            packfmt.build_pack([(packfmt.OBJ_BLOB, b"a new blob next to it\n", None), (packfmt.OBJ_REF_DELTA, ident_copy(bb), b_id)]), True,
            [packfmt.obj_id(b"blob", b"a new blob next to it\n").hex().encode()])
    out["thin:good-delta+unparsable-delta-result"] = (full, True, ids)
    out["thin:good-delta+unparsable-delta-result+undercounted"] = (under + hashlib.sha1(under).digest(), True, ids)
    return out


# ---------------------------------------------------------------------------
# stores


def make_disk_store(path):
    from dulwich.object_store import DiskObjectStore
    from dulwich.objects import ShaFile

    os.makedirs(path)
    s = DiskObjectStore.init(path)
    for t, data in base_objects():
        s.add_object(ShaFile.from_raw_string({b"blob": 3, b"tree": 2, b"commit": 1}[t], data))
    s.close()


def open_store(kind, template, ctx):
    if kind == "memory":
        from dulwich.object_store import MemoryObjectStore
        from dulwich.objects import ShaFile

        s = MemoryObjectStore()
        for t, data in base_objects():
            s.add_object(ShaFile.from_raw_string({b"blob": 3, b"tree": 2, b"commit": 1}[t], data))
        return s, None
    from dulwich.object_store import DiskObjectStore

    d = ctx.scratch.new("st")
    path = os.path.join(d, "objects")
    shutil.copytree(template + ("-packed" if kind == "diskp" else ""), path)
    return DiskObjectStore(path), d


def store_state(store, path):
    """(ids -> sha1(type+raw), set of idx files) via the given instance; disk: also a fresh instance."""
    out = {}
    for i in store:
        o = store[i]
        out[i] = (o.type_name, hashlib.sha1(o.as_raw_string()).hexdigest())
    idx = set()
    if path:
        pd = os.path.join(path, "pack")
        if os.path.isdir(pd):
            idx = {f for f in os.listdir(pd) if f.endswith(".idx")}
    return out, idx


INGEST = ["add_pack", "add_thin_pack:all", "add_thin_pack:1", "add_thin_pack:7", "stream_reader"]


def chunked_reader(data, n):
    f = io.BytesIO(data)
    if n is None:
        return f.read, f.read

    def read_some(size):
        return f.read(min(size, n))

    def read_all(size):
        return f.read(size)

    return read_all, read_some


def ingest(store, how, data):
    from dulwich.pack import PackStreamReader

    if how == "add_pack":
        f, commit, abort = store.add_pack()
        try:
            f.write(data)
        except BaseException:
            abort()
            raise
        commit()
    elif how.startswith("add_thin_pack"):
        n = how.split(":")[1]
        read_all, read_some = chunked_reader(data, None if n == "all" else int(n))
        store.add_thin_pack(read_all, read_some)
    elif how == "add_pack_data":
        read_all, read_some = chunked_reader(data, None)
        r = PackStreamReader(hashlib.sha1, read_all, read_some)
        count = struct.unpack(">L", data[8:12])[0] if len(data) >= 12 else 0  # what a caller learns from the header
        store.add_pack_data(count, r.read_objects())
    elif how == "stream_reader":
        read_all, read_some = chunked_reader(data, 5)
        list(PackStreamReader(hashlib.sha1, read_all, read_some).read_objects(compute_crc32=True))
    else:
        raise HarnessError(how)


def judge_ingest(ctx, template, kind, how, seed_name, mut_name, data, limit, check, reads_byte=True, probe_ids=()):
    """One ingestion case (runs inside an isolated child)."""
    case = dict(store=kind, how=how, seed=seed_name, mutation=mut_name, data=data, probe_ids=list(probe_ids))
    with warnings.catch_warnings():
        warnings.simplefilter("ignore")
        store, sdir = open_store(kind, template, ctx)
        path = store.path if kind in ("disk", "diskp") else None
        try:
            before, idx_before = store_state(store, path)
            outcome = "ok"
            try:
                with sandbox.mem_limit(MEM_SLACK + 8 * len(data)):
                    with Budget(limit) if limit != "none" else contextlib.nullcontext():
                        ingest(store, how, data)
            except BudgetExceeded:
                ctx.fail(f"C04:ingest:{how.split(':')[0]}:call-budget-exceeded", f"{kind}/{how} on {seed_name}/{mut_name}: more than {limit} Python calls (undisturbed run x50 + 20000)", check, case)
                return "budget"
            except (MemoryError, RecursionError) as e:
                ctx.fail(f"C04:ingest:{how.split(':')[0]}:{type(e).__name__}", f"{kind}/{how} on {seed_name}/{mut_name}: {type(e).__name__}", check, case)
                return "resource"
            except Exception as e:
                outcome = "exc:" + type(e).__name__
            except BaseException as e:
                if isinstance(e, (KeyboardInterrupt, SystemExit)):
                    raise
                ctx.fail(f"C04:ingest:{how.split(':')[0]}:non-Exception:{type(e).__name__}", f"{kind}/{how} on {seed_name}/{mut_name}: raised {type(e).__name__}", check, case)
                return "baseexc"
            if how == "stream_reader":
                return outcome
            if outcome != "ok" and probe_ids:
                # direct lookups on the instance that did the ingestion, BEFORE any listing (a listing rescans the pack
                # directory and would drop a pack object that was cached while the rejected pack was still in place)
                for pid in probe_ids:
                    if pid in before:
                        continue
                    seen = None
                    try:
                        if pid in store:
                            seen = "`id in store` is True"
                        else:
                            store.get_raw(pid)
                            seen = "get_raw(id) returns the object"
                    except KeyError:
                        pass
                    except Exception as e:
                        seen = f"lookup raises {type(e).__name__}"
                    if seen:
                        ctx.fail(f"C04:ingest:{how.split(':')[0]}:rejected-object-served-by-same-instance",
                                 f"{kind}/{how} on {seed_name}/{mut_name} raised {outcome[4:]}, yet for object {pid!r} of the rejected pack {seen} on the same store instance", check, case)
                        return outcome
            views = [("same-instance", store)]
            fresh = None
            if kind in ("disk", "diskp"):
                from dulwich.object_store import DiskObjectStore

                fresh = DiskObjectStore(path)
                views.append(("fresh-instance", fresh))
            try:
                for vname, v in views:
                    try:
                        after, idx_after = store_state(v, path)
                    except Exception as e:
                        ctx.fail(f"C04:ingest:{how.split(':')[0]}:store-unreadable-after-{outcome.split(':')[0]}",
                                 f"{kind}/{how} on {seed_name}/{mut_name} ({outcome}): reading the store back ({vname}) raised {type(e).__name__}: {e}", check, case)
                        return outcome
                    if outcome == "ok":
                        for i, (t, h) in after.items():
                            o = v[i]
                            real = hashlib.sha1(o.type_name + b" " + str(len(o.as_raw_string())).encode() + b"\0" + o.as_raw_string()).hexdigest().encode()
                            if real != i:
                                ctx.fail(f"C04:ingest:{how.split(':')[0]}:object-stored-under-wrong-name", f"{kind}/{how} on {seed_name}/{mut_name}: object {i!r} hashes to {real!r} ({vname})", check, case)
                                return outcome
                        for i, th in before.items():
                            if after.get(i) != th:
                                ctx.fail(f"C04:ingest:{how.split(':')[0]}:pre-existing-object-changed", f"{kind}/{how} on {seed_name}/{mut_name}: pre-existing {i!r} changed or vanished after a successful ingestion ({vname})", check, case)
                                return outcome
                    else:
                        if after != before:
                            new = sorted(set(after) - set(before))
                            gone = sorted(set(before) - set(after))
                            ctx.fail(f"C04:ingest:{how.split(':')[0]}:trace-after-failure",
                                     f"{kind}/{how} on {seed_name}/{mut_name} raised {outcome[4:]} but the store changed ({vname}): new {new[:3]}, gone {gone[:3]}", check, case)
                            return outcome
                        if idx_after != idx_before:
                            ctx.fail(f"C04:ingest:{how.split(':')[0]}:pack-index-left-after-failure",
                                     f"{kind}/{how} on {seed_name}/{mut_name} raised {outcome[4:]} but pack indexes changed: {sorted(idx_after ^ idx_before)}", check, case)
                            return outcome
            finally:
                if fresh is not None:
                    fresh.close()
            if kind in ("disk", "diskp") and outcome != "ok":
                leftovers = [f for f in os.listdir(path) if f.startswith("tmp_pack")] + [f for f in os.listdir(os.path.join(path, "pack")) if f.endswith(".pack") and f[:-5] + ".idx" not in os.listdir(os.path.join(path, "pack"))]
                if leftovers:
                    ctx.label("orphan-temp-file-after-failure(allowed)")
            return outcome
        finally:
            try:
                store.close()
            except Exception:
                pass
            if sdir:
                shutil.rmtree(sdir, ignore_errors=True)


def calls_of(fn):
    with Budget(None) as b:
        try:
            fn()
        except Exception:
            pass
    return b.n


# ---------------------------------------------------------------------------
# mutation families


def byte_mutations(data, thorough, rot):
    """Yield (name, mutated bytes): every truncation, every bit flip, every byte := 00/ff/+1, tails."""
    n = len(data)
    for k in range(n):
        yield f"trunc@{k}", data[:k]
    for k in range(n):
        bits = range(8) if thorough else [(k + rot) % 8, (k + rot + 3) % 8]
        for b in bits:
            yield f"flip@{k}.{b}", data[:k] + bytes([data[k] ^ (1 << b)]) + data[k + 1:]
        vals = (0x00, 0xFF, (data[k] + 1) & 0xFF) if thorough else ((0x00, 0xFF, (data[k] + 1) & 0xFF)[(k + rot) % 3],)
        for v in vals:
            if v != data[k]:
                yield f"set@{k}={v:02x}", data[:k] + bytes([v]) + data[k + 1:]
    yield "tail+1", data + b"\x00"
    yield "tail+20zeros", data + bytes(20)
    yield "tail+self", data + data[12:-20]


# ---------------------------------------------------------------------------
# parts


def _template(ctx):
    """Two templates side by side: <path> (base objects loose) and <path>-packed (the same objects in one pack)."""
    from dulwich.object_store import DiskObjectStore

    d = ctx.scratch.new("tmpl")
    path = os.path.join(d, "objects")
    make_disk_store(path)
    shutil.copytree(path, path + "-packed")
    s = DiskObjectStore(path + "-packed")
    try:
        s.pack_loose_objects()
        if not s.packs or list(s._iter_loose_objects()):
            raise HarnessError("packed template still has loose objects")
    finally:
        s.close()
    return path


def _part_ingest(ctx, item):
    seed_name, kind, how, nshards, shard = item
    template = _template(ctx)
    data, thin = pack_seeds()[seed_name]
    if thin and not how.startswith("add_thin_pack") and how != "stream_reader":
        return
    if how == "add_pack_data" and seed_name not in ("tiny", "refonly"):
        return  # add_pack_data's callers hand it REF-style unpacked objects, never the OFS deltas a stream reader yields
    base_calls = calls_of(lambda: judge_ingest(ctx.child(0), template, kind, how, seed_name, "none", data, None, "ingest"))
    limit = 50 * base_calls + 20000
    # the undisturbed seed must be accepted, otherwise the whole family is vacuous
    probe = ctx.child(0)
    if judge_ingest(probe, template, kind, how, seed_name, "none", data, None, "ingest") != "ok" or probe.violations:
        raise HarnessError(f"seed {seed_name} is not accepted by {kind}/{how}: {list(probe.violations)}")
    muts = [m for k, m in enumerate(byte_mutations(data, ctx.thorough, ctx.seed)) if k % nshards == shard]
    cases = [("ingest", seed_name, kind, how, name, d2) for name, d2 in muts]
    seed_ids = _seed_ids(seed_name)

    def fn(sub, c):
        _, sn, kd, hw, mname, d2 = c
        out = judge_ingest(sub, template, kd, hw, sn, mname, d2, limit, "ingest", probe_ids=seed_ids)
        sub.case(h64("ing", sn, kd, hw, mname), nontrivial=out != "ok", labels=("ingest", "store:" + kd, "path:" + hw, "outcome:" + out, "mut:" + mname.split("@")[0].split("+")[0]),
                 sample=dict(seed=sn, store=kd, path=hw, mutation=mname, outcome=out) if mname.startswith("flip@3") else None)

    def death(c, case, how_died):
        c.fail(f"C04:ingest:{case[3].split(':')[0]}:process-died:{how_died}", f"{case[2]}/{case[3]} on {case[1]}/{case[4]} killed the process ({how_died})", "ingest",
               dict(store=case[2], how=case[3], seed=case[1], mutation=case[4], data=case[5]))

    sandbox.isolated(ctx, fn, cases, death)


_SEED_IDS = {}


def _seed_ids(seed_name):
    """hex ids of the objects a seed pack carries (resolved by the independent reader)."""
    if seed_name not in _SEED_IDS:
        data, thin = pack_seeds()[seed_name]
        ents = packfmt.parse_pack(data)
        by_off = {}
        ext = {packfmt.obj_id(t, b): (t, b) for t, b in base_objects()}
        ids = []
        for off, tnum, size, payload, extra in ents:
            if tnum in packfmt.TYPE_NAMES:
                by_off[off] = (packfmt.TYPE_NAMES[tnum], payload)
            elif tnum == packfmt.OBJ_OFS_DELTA:
                t, b = by_off[extra]
                by_off[off] = (t, packfmt.patch_delta(b, payload))
            else:
                src = ext.get(extra) or next(v for v in by_off.values() if packfmt.obj_id(*v) == extra)
                by_off[off] = (src[0], packfmt.patch_delta(src[1], payload))
            ids.append(packfmt.obj_id(*by_off[off]).hex().encode())
        _SEED_IDS[seed_name] = ids
    return _SEED_IDS[seed_name]


def _part_payload(ctx, item):
    kind, how = item
    template = _template(ctx)
    seed, _ = pack_seeds()["full"]
    base_calls = calls_of(lambda: judge_ingest(ctx.child(0), template, kind, how, "full", "none", seed, None, "ingest"))
    limit = 50 * base_calls + 20000
    cases = []
    for name, (data, thin, ids) in payload_attacks().items():
        if thin and not how.startswith("add_thin_pack"):
            continue
        cases.append(("ingest", "payload", kind, how, name, data, ids))

    def fn(sub, c):
        _, sn, kd, hw, mname, d2, ids = c
        out = judge_ingest(sub, template, kd, hw, sn, mname, d2, limit, "ingest", probe_ids=ids)
        sub.case(h64("pl", kd, hw, mname), nontrivial=True, labels=("payload-attack", "payload:" + mname.split(":")[0], "outcome:" + out, "store:" + kd, "path:" + hw),
                 sample=dict(attack=mname, store=kd, path=hw, outcome=out) if hw == "add_pack" and kd == "disk" and mname.startswith("commit:enc") else None)

    def death(c, case, how_died):
        c.fail(f"C04:ingest:{case[3].split(':')[0]}:process-died:{how_died}", f"{case[2]}/{case[3]} on payload attack {case[4]} killed the process ({how_died})", "ingest",
               dict(store=case[2], how=case[3], seed="payload", mutation=case[4], data=case[5], probe_ids=case[6]))

    sandbox.isolated(ctx, fn, cases, death)


def _part_grammar(ctx, item):
    kind, how = item
    template = _template(ctx)
    seed, _ = pack_seeds()["full"]
    base_calls = calls_of(lambda: judge_ingest(ctx.child(0), template, kind, how, "full", "none", seed, None, "ingest"))
    limit = 50 * base_calls + 20000 + 400_000  # the 60-deep chain and the 16 MiB object legitimately cost more
    cases = [("ingest", "grammar", kind, how, name, data) for name, data in grammar_attacks().items()]

    def fn(sub, c):
        _, sn, kd, hw, mname, d2 = c
        out = judge_ingest(sub, template, kd, hw, sn, mname, d2, limit, "ingest")
        sub.case(h64("gr", kd, hw, mname), nontrivial=True, labels=("grammar-attack", "attack:" + mname, "outcome:" + out, "store:" + kd, "path:" + hw),
                 sample=dict(attack=mname, store=kd, path=hw, outcome=out) if hw == "add_pack" and kd == "disk" and mname.startswith("ofs") else None)

    def death(c, case, how_died):
        c.fail(f"C04:ingest:{case[3].split(':')[0]}:process-died:{how_died}", f"{case[2]}/{case[3]} on grammar attack {case[4]} killed the process ({how_died})", "ingest",
               dict(store=case[2], how=case[3], seed="grammar", mutation=case[4], data=case[5]))

    sandbox.isolated(ctx, fn, cases, death)


# -- on-disk readers -----------------------------------------------------------


def reader_seeds(ctx):
    """name -> (files {relname: bytes}, which file is mutated, reader fn(dir))."""
    from dulwich.object_format import DEFAULT_OBJECT_FORMAT
    from dulwich.pack import Pack, load_pack_index

    d = ctx.scratch.new("rs")
    out = {}
    data, _ = pack_seeds()["full"]
    repo = os.path.join(d, "r")
    cgit.init(repo, bare=True)
    cgit.git(["index-pack", "--stdin"], cwd=repo, input=data)
    pd = os.path.join(repo, "objects", "pack")
    pname = [f for f in os.listdir(pd) if f.endswith(".pack")][0][:-5]
    pack_bytes = open(os.path.join(pd, pname + ".pack"), "rb").read()
    idx2 = open(os.path.join(pd, pname + ".idx"), "rb").read()
    cgit.git(["index-pack", "--index-version=1", "-o", os.path.join(d, "v1.idx"), os.path.join(pd, pname + ".pack")], cwd=repo)
    idx1 = open(os.path.join(d, "v1.idx"), "rb").read()

    def read_pack(dirp):
        p = Pack(os.path.join(dirp, "p"), object_format=DEFAULT_OBJECT_FORMAT)
        try:
            for sha in list(p.index):
                p.get_raw(sha)
            list(p.iterobjects())
            p.check()
        finally:
            p.close()

    def read_pack_through_store(dirp):
        """The level at which dulwich promises self-consistency: whatever an object store hands out under a name hashes
        to that name (Pack.get_raw alone, like git's low-level readers, does not re-hash)."""
        from dulwich.object_store import DiskObjectStore

        od = os.path.join(dirp, "objects")
        os.makedirs(os.path.join(od, "pack"))
        os.makedirs(os.path.join(od, "info"))
        for ext in (".pack", ".idx"):
            shutil.copyfile(os.path.join(dirp, "p" + ext), os.path.join(od, "pack", "pack-" + "0" * 40 + ext))
        store = DiskObjectStore(od)
        try:
            for sha in list(store):
                try:
                    o = store[sha]
                except Exception:
                    continue  # refusing is fine
                raw = o.as_raw_string()
                if packfmt.obj_id(o.type_name, raw).hex().encode() != sha:
                    raise Inconsistent(f"store[{sha!r}] returns a {o.type_name!r} that does not hash to that name")
        finally:
            store.close()

    def read_idx(dirp):
        idx = load_pack_index(os.path.join(dirp, "p.idx"), DEFAULT_OBJECT_FORMAT)
        try:
            list(idx.iterentries())
            idx.check()
            idx.get_pack_checksum()
            for probe in (b"\x00" * 20, b"\xff" * 20, hashlib.sha1(b"x").digest()):
                try:
                    idx.object_offset(probe)
                except KeyError:
                    pass
        finally:
            idx.close()

    # the same pack behind a multi-pack-index (written by git for exactly this pack): a damaged, stale or crafted midx may
    # make lookups fail, never hand out another object's bytes under a name
    cgit.git(["multi-pack-index", "write"], cwd=repo)
    midx_bytes = open(os.path.join(pd, "multi-pack-index"), "rb").read()

    def read_midx_through_store(dirp):
        from dulwich.object_store import DiskObjectStore

        od = os.path.join(dirp, "objects")
        os.makedirs(os.path.join(od, "pack"))
        os.makedirs(os.path.join(od, "info"))
        for ext in (".pack", ".idx"):
            shutil.copyfile(os.path.join(dirp, "p" + ext), os.path.join(od, "pack", pname + ext))
        shutil.copyfile(os.path.join(dirp, "multi-pack-index"), os.path.join(od, "pack", "multi-pack-index"))
        store = DiskObjectStore(od)
        try:
            import struct

            nobj = struct.unpack(">L", idx2[8 + 255 * 4: 8 + 256 * 4])[0]  # idx v2: 8-byte header, 256-entry fan-out, names
            names = [idx2[1032 + 20 * i: 1052 + 20 * i] for i in range(nobj)]
            for raw_name in names:
                sha = raw_name.hex().encode()
                for getter in ("item", "raw"):
                    try:
                        if getter == "item":
                            o = store[sha]
                            tname, raw = o.type_name, o.as_raw_string()
                        else:
                            tnum, raw = store.get_raw(sha)
                            tname = {1: b"commit", 2: b"tree", 3: b"blob", 4: b"tag"}[tnum]
                    except Exception:
                        continue  # refusing is fine
                    if packfmt.obj_id(tname, raw).hex().encode() != sha:
                        raise Inconsistent(f"store.{'__getitem__' if getter == 'item' else 'get_raw'}({sha!r}) returns a {tname!r} that does not hash to that name")
        finally:
            store.close()

    out["store(midx damaged)"] = ({"p.pack": pack_bytes, "p.idx": idx2, "multi-pack-index": midx_bytes}, "multi-pack-index", read_midx_through_store)
    out["pack(data damaged)"] = ({"p.pack": pack_bytes, "p.idx": idx2}, "p.pack", read_pack)
    out["pack(idx v2 damaged)"] = ({"p.pack": pack_bytes, "p.idx": idx2}, "p.idx", read_pack)
    out["store(idx v2 damaged)"] = ({"p.pack": pack_bytes, "p.idx": idx2}, "p.idx", read_pack_through_store)
    out["store(pack data damaged)"] = ({"p.pack": pack_bytes, "p.idx": idx2}, "p.pack", read_pack_through_store)
    out["idx v2"] = ({"p.idx": idx2}, "p.idx", read_idx)
    out["idx v1"] = ({"p.idx": idx1}, "p.idx", read_idx)

    # loose objects
    from dulwich.objects import ShaFile

    for t, body in [(b"blob", b"loose blob\n"), (b"tree", base_objects()[1][1]), (b"commit", base_objects()[2][1])]:
        raw = zlib.compress(t + b" " + str(len(body)).encode() + b"\0" + body)

        def read_loose(dirp):
            o = ShaFile.from_path(os.path.join(dirp, "obj"))
            o.as_raw_string()
            o.check()
            o.id

        out[f"loose {t.decode()}"] = ({"obj": raw}, "obj", read_loose)
        name = packfmt.obj_id(t, body).hex()

        def read_loose_through_store(dirp, name=name):
            from dulwich.object_store import DiskObjectStore

            od = os.path.join(dirp, "objects")
            os.makedirs(os.path.join(od, name[:2]))
            os.makedirs(os.path.join(od, "pack"))
            os.makedirs(os.path.join(od, "info"))
            shutil.copyfile(os.path.join(dirp, "obj"), os.path.join(od, name[:2], name[2:]))
            store = DiskObjectStore(od)
            try:
                o = store[name.encode()]
                if packfmt.obj_id(o.type_name, o.as_raw_string()).hex() != name:
                    raise Inconsistent(f"store[{name!r}] returns a {o.type_name!r} that does not hash to that name")
                tnum, raw2 = store.get_raw(name.encode())
            finally:
                store.close()

        out[f"store(loose {t.decode()} damaged)"] = ({"obj": raw}, "obj", read_loose_through_store)

    # packed-refs
    from dulwich.refs import DiskRefsContainer

    pr = b"# pack-refs with: peeled fully-peeled sorted \n" + b"1" * 40 + b" refs/heads/a\n" + b"2" * 40 + b" refs/tags/t\n^" + b"3" * 40 + b"\n"
    pr2 = b"1" * 40 + b" refs/heads/a\n" + b"2" * 40 + b" refs/heads/b\n"

    def read_packed_refs(dirp):
        c = DiskRefsContainer(dirp)

        def look(cc):
            try:
                return ("ok", dict(cc.get_packed_refs()), {n: cc.get_peeled(n) for n in (b"refs/heads/a", b"refs/tags/t") if n in cc.get_packed_refs()})
            except Exception as e:
                return ("exc", type(e).__name__)

        # a damaged file must read the same way every time: an error on the first access and a (partial) answer on the
        # second would mean the first, failed parse left something behind that later reads trust
        first, second, fresh = look(c), look(c), look(DiskRefsContainer(dirp))
        if first != second or second != fresh:
            raise Inconsistent(f"packed-refs reads differently through the same container: first {first!r:.120}, second {second!r:.120}, fresh container {fresh!r:.120}", kind="repeated-read-differs")
        c.get_packed_refs()
        c.as_dict()
        for n in (b"refs/heads/a", b"refs/tags/t"):
            try:
                c[n]
                c.get_peeled(n)
            except KeyError:
                pass

    out["packed-refs(peeled)"] = ({"packed-refs": pr, "HEAD": b"ref: refs/heads/a\n"}, "packed-refs", read_packed_refs)
    out["packed-refs(plain)"] = ({"packed-refs": pr2, "HEAD": b"ref: refs/heads/a\n"}, "packed-refs", read_packed_refs)

    # index files written by git
    from dulwich.index import Index

    for ver in (2, 3, 4):
        wr = os.path.join(d, f"w{ver}")
        cgit.init(wr)
        blob = cgit.out(["hash-object", "-w", "--stdin"], cwd=wr, input=b"x\n").strip()
        info = b"".join(b"100644 " + blob + b" 0\t" + n + b"\n" for n in (b"a", b"dir/b", b"dir/c.txt"))
        cgit.git(["update-index", "--index-version", str(ver), "--index-info"], cwd=wr, input=info)
        if ver >= 3:
            cgit.git(["update-index", "--skip-worktree", "a"], cwd=wr)
        ib = open(os.path.join(wr, ".git", "index"), "rb").read()

        def read_index(dirp):
            i = Index(os.path.join(dirp, "index"))
            list(i.items())

        out[f"index v{ver}"] = ({"index": ib}, "index", read_index)

    # commit-graph and midx written by git
    gr = os.path.join(d, "g")
    repos.init_repo(gr, "loose", "loose")
    cgit.git(["repack", "-a", "-d", "-q"], cwd=gr)
    cgit.git(["commit-graph", "write", "--reachable"], cwd=gr)
    cgit.git(["multi-pack-index", "write"], cwd=gr)
    cg = open(os.path.join(gr, ".git", "objects", "info", "commit-graph"), "rb").read()
    mi = open(os.path.join(gr, ".git", "objects", "pack", "multi-pack-index"), "rb").read()
    from dulwich.commit_graph import read_commit_graph
    from dulwich.midx import load_midx

    def read_cg(dirp):
        g = read_commit_graph(os.path.join(dirp, "commit-graph"))
        if g is not None:
            for e in list(g)[:50]:
                g.get_parents(e.commit_id)
                g.get_generation_number(e.commit_id)

    def read_midx(dirp):
        m = load_midx(os.path.join(dirp, "multi-pack-index"))
        try:
            for probe in (b"\x00" * 20, b"\xff" * 20):
                m.object_offset(probe)
            list(m.iterentries()) if hasattr(m, "iterentries") else None
        finally:
            if hasattr(m, "close"):
                m.close()

    out["commit-graph"] = ({"commit-graph": cg}, "commit-graph", read_cg)
    out["multi-pack-index"] = ({"multi-pack-index": mi}, "multi-pack-index", read_midx)
    shutil.rmtree(d, ignore_errors=True)
    return out


def judge_reader(ctx, work, rname, files, target, reader, mname, mutated, limit, check="reader"):
    case = dict(reader=rname, mutation=mname, data=mutated)
    d = os.path.join(work, "case")
    shutil.rmtree(d, ignore_errors=True)
    os.makedirs(d)
    for n, b in files.items():
        with open(os.path.join(d, n), "wb") as f:
            f.write(mutated if n == target else b)
    outcome = "ok"
    with warnings.catch_warnings():
        warnings.simplefilter("ignore")
        try:
            with sandbox.mem_limit(MEM_SLACK + 8 * len(mutated)):
                with Budget(limit) if limit != "none" else contextlib.nullcontext():
                    reader(d)
        except BudgetExceeded:
            ctx.fail(f"C04:reader:{rname}:call-budget-exceeded", f"{rname} on {mname}: more than {limit} Python calls", check, case)
            return "budget"
        except Inconsistent as e:
            ctx.fail(f"C04:reader:{rname}:{e.kind}", f"{rname} on {mname}: {e}", check, case)
            return "inconsistent"
        except (MemoryError, RecursionError) as e:
            ctx.fail(f"C04:reader:{rname}:{type(e).__name__}", f"{rname} on {mname}: {type(e).__name__}", check, case)
            return "resource"
        except Exception as e:
            outcome = "exc:" + type(e).__name__
        except BaseException as e:
            if isinstance(e, (KeyboardInterrupt, SystemExit)):
                raise
            ctx.fail(f"C04:reader:{rname}:non-Exception:{type(e).__name__}", f"{rname} on {mname}: raised {type(e).__name__}", check, case)
            return "baseexc"
    return outcome


def midx_crafted(data):
    """Well-formed multi-pack-index files (trailer recomputed) whose object-offset entries are exchanged pairwise: what a
    stale file after a same-name pack rewrite, or a hostile one, looks like."""
    import struct

    nchunks = data[6]
    table = [(data[12 + 12 * i: 16 + 12 * i], struct.unpack(">Q", data[16 + 12 * i: 24 + 12 * i])[0]) for i in range(nchunks + 1)]
    pos = {cid: (off, table[i + 1][1]) for i, (cid, off) in enumerate(table[:-1])}
    if b"OOFF" not in pos:
        raise HarnessError("multi-pack-index seed has no OOFF chunk")
    a, b = pos[b"OOFF"]
    n = (b - a) // 8
    for i in range(n):
        for j in range(i + 1, n):
            d = bytearray(data[:-20])
            d[a + 8 * i: a + 8 * i + 8], d[a + 8 * j: a + 8 * j + 8] = data[a + 8 * j: a + 8 * j + 8], data[a + 8 * i: a + 8 * i + 8]
            yield f"swap-ooff@{i},{j}", bytes(d) + hashlib.sha1(bytes(d)).digest()


def _part_reader(ctx, item):
    rname, nshards, shard = item
    files, target, reader = reader_seeds(ctx)[rname]
    work = ctx.scratch.new("rd")
    data = files[target]
    probe = ctx.child(0)
    if judge_reader(probe, work, rname, files, target, reader, "none", data, None) != "ok":
        raise HarnessError(f"reader seed {rname} is not readable undisturbed")
    base_calls = calls_of(lambda: judge_reader(ctx.child(0), work, rname, files, target, reader, "none", data, None))
    limit = 50 * base_calls + 20000
    if len(data) > 700 and not ctx.thorough:
        # exhaustive mutation is for small seeds; larger ones: header region + a stride over the rest
        positions = set(range(0, 160)) | set(range(len(data) - 60, len(data))) | set(range(160, len(data), 7))
    else:
        positions = None
    muts = []
    for k, (name, d2) in enumerate(byte_mutations(data, ctx.thorough, ctx.seed)):
        if positions is not None and "@" in name and int(name.split("@")[1].split(".")[0].split("=")[0]) not in positions:
            continue
        if k % nshards == shard:
            muts.append((name, d2))
    if rname == "store(midx damaged)":
        muts += [m for k, m in enumerate(midx_crafted(data)) if k % nshards == shard]
    cases = [("reader", rname, name, d2) for name, d2 in muts]

    def fn(sub, c):
        _, rn, mname, d2 = c
        out = judge_reader(sub, work, rn, files, target, reader, mname, d2, limit)
        sub.case(h64("rd", rn, mname), nontrivial=out != "ok", labels=("reader", "reader:" + rn, "outcome:" + out.split(":")[0]) + (("exc:" + out[4:],) if out.startswith("exc:") else ()),
                 sample=dict(reader=rn, mutation=mname, outcome=out) if mname.startswith("flip@9.") else None)

    def death(c, case, how_died):
        c.fail(f"C04:reader:{case[1]}:process-died:{how_died}", f"{case[1]} on {case[2]} killed the process ({how_died})", "reader", dict(reader=case[1], mutation=case[2], data=case[3]))

    sandbox.isolated(ctx, fn, cases, death)


def _part_cycle(ctx, item):
    """Two REF deltas naming each other behind a crafted (git-format) idx: reading must terminate."""
    from dulwich.object_format import DEFAULT_OBJECT_FORMAT
    from dulwich.pack import Pack

    work = ctx.scratch.new("cy")
    x, y = b"\x11" * 20, b"\x22" * 20
    d = packfmt.enc_varint(3) + packfmt.enc_varint(3) + bytes([0x90, 3])
    pack = packfmt.build_pack([(packfmt.OBJ_REF_DELTA, d, y), (packfmt.OBJ_REF_DELTA, d, x)])
    ents = packfmt.parse_pack(pack)
    offs = [e[0] for e in ents]
    # idx v2 by hand: names x,y -> offsets of the entries that refer to y,x
    names = [(x, offs[0]), (y, offs[1])]
    fan = [0] * 256
    for n, _ in names:
        for k in range(n[0], 256):
            fan[k] += 1
    body = b"\xfftOc" + struct.pack(">L", 2) + b"".join(struct.pack(">L", v) for v in fan) + b"".join(n for n, _ in names)
    body += b"".join(struct.pack(">L", zlib.crc32(pack[o:(offs[i + 1] if i + 1 < len(offs) else len(pack) - 20)])) for i, o in enumerate(offs))
    body += b"".join(struct.pack(">L", o) for _, o in names) + pack[-20:]
    idx = body + hashlib.sha1(body).digest()
    with open(os.path.join(work, "p.pack"), "wb") as f:
        f.write(pack)
    with open(os.path.join(work, "p.idx"), "wb") as f:
        f.write(idx)
    case = dict(reader="pack(ref-cycle)", mutation="mutual-ref-deltas", data=pack)

    def fn(sub, c):
        with warnings.catch_warnings():
            warnings.simplefilter("ignore")
            p = Pack(os.path.join(work, "p"), object_format=DEFAULT_OBJECT_FORMAT)
            try:
                for what, call in (("get_raw", lambda: p.get_raw(x)), ("iterobjects", lambda: list(p.iterobjects())), ("check", lambda: p.check())):
                    try:
                        with Budget(200_000):
                            call()
                        out = "ok"
                    except BudgetExceeded:
                        sub.fail(f"C04:reader:pack:ref-cycle:{what}:call-budget-exceeded", f"Pack.{what} on two REF deltas naming each other does not terminate within 200000 calls", "cycle", case)
                        out = "budget"
                    except RecursionError:
                        sub.fail(f"C04:reader:pack:ref-cycle:{what}:RecursionError", f"Pack.{what} on two REF deltas naming each other ends in RecursionError", "cycle", case)
                        out = "recursion"
                    except Exception as e:
                        out = "exc:" + type(e).__name__
                    sub.case(h64("cy", what), nontrivial=True, labels=("ref-cycle", "cycle:" + what + ":" + out))
            finally:
                p.close()

    sandbox.isolated(ctx, fn, [("cycle",)], lambda c, cc, h: c.fail(f"C04:reader:pack:ref-cycle:process-died:{h}", f"reading mutually referring REF deltas killed the process ({h})", "cycle", case))


# ---------------------------------------------------------------------------


def selftest(ctx):
    cgit.selfcheck()
    for name, (data, thin) in pack_seeds().items():
        if not thin:
            repo = ctx.scratch.new("self")
            cgit.init(repo, bare=True)
            rc, _, err = cgit.git(["index-pack", "--stdin", "--strict"], cwd=repo, input=data, check=False)
            if rc != 0 and name != "full":
                raise HarnessError(f"seed pack {name} rejected by git: {err[:200]}")
    if len(grammar_attacks()) < 20:
        raise HarnessError("grammar attack catalogue shrank")


def run(ctx):
    selftest(ctx)
    ctx.note("exhaustive", True)
    ns = 4
    items = []
    for seed in ("full", "thin", "tiny"):
        for kind in ("disk", "memory"):
            for how in INGEST:
                if how == "stream_reader" and kind == "memory":
                    continue
                if not ctx.thorough and seed == "tiny" and how not in ("add_pack", "add_thin_pack:all", "add_pack_data"):
                    continue
                if not ctx.thorough and seed == "refonly" and how != "add_pack_data":
                    continue
                if not ctx.thorough and kind == "memory" and how in ("add_thin_pack:1", "add_thin_pack:7"):
                    continue
                for k in range(ns):
                    items.append((seed, kind, how, ns, k))
    ctx.parallel(_part_ingest, items)
    ctx.parallel(_part_grammar, [(k, h) for k in ("disk", "memory") for h in INGEST if not (h == "stream_reader" and k == "memory") and h != "add_pack_data"])
    ctx.parallel(_part_grammar, [("diskp", h) for h in ("add_pack", "add_thin_pack:all")])
    ctx.parallel(_part_payload, [(k, h) for k in ("disk", "memory", "diskp") for h in INGEST if h != "stream_reader"])
    readers = sorted(reader_seeds(ctx))
    ctx.note("readers", readers)
    ctx.parallel(_part_reader, [(r, 3, k) for r in readers for k in range(3)])
    ctx.parallel(_part_cycle, [0])
    # coverage-guided campaigns (E3): structure-aware pack descriptions through the ingestion oracle, and the on-disk
    # readers with the trailing checksum recomputed by the target
    from .. import fuzz
    from ..fuzzt import c04 as ft

    plan = [("pack_struct", ctx.scale(1200, 60000), ctx.scale(8, 16))]
    plan += [("reader:" + r, ctx.scale(4000, 400000), ctx.scale(1, 2)) for r in ft.READERS]
    fuzz.run_campaigns(ctx, "vf.fuzzt.c04", plan)


def replay(ctx, check, case):
    if check == "ingest":
        template = _template(ctx)

        def fn(sub, c):
            judge_ingest(sub, template, case["store"], case["how"], case["seed"], case["mutation"], case["data"], 5_000_000, "ingest",
                         probe_ids=case.get("probe_ids", ()))

        sandbox.isolated(ctx, fn, [("x",)], lambda c, cc, h: c.fail(f"C04:ingest:{case['how'].split(':')[0]}:process-died:{h}", f"replayed case killed the process ({h})", "ingest", case))
    elif check == "reader":
        files, target, reader = reader_seeds(ctx)[case["reader"]]
        work = ctx.scratch.new("rd")

        def fn(sub, c):
            judge_reader(sub, work, case["reader"], files, target, reader, case["mutation"], case["data"], 5_000_000)

        sandbox.isolated(ctx, fn, [("x",)], lambda c, cc, h: c.fail(f"C04:reader:{case['reader']}:process-died:{h}", f"replayed case killed the process ({h})", "reader", case))
    elif check == "cycle":
        _part_cycle(ctx, 0)
    elif check.startswith("fuzz"):
        from .. import fuzz

        fuzz.replay(ctx, case, check)
    else:
        raise HarnessError(f"unknown check {check!r}")
