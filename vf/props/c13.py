"""C13 — merge-base, ancestry and history walks are exact on every DAG and clock.

Oracle: brute-force ancestor bitmasks on the adjacency list (vf/model/c13_model.py),
corroborated by C git on disk repositories.  See RULE / ASSUMPTIONS below.
"""

from __future__ import annotations

import itertools
import os
import sys

from .. import cgit
from ..core import HarnessError, h64, run_hypothesis
from ..model import c13_model as M

PROPERTY = "C13"
LEVEL = "exploration"
NEEDS_RUST = False

# C13 is about dulwich/graph.py, walk.py, repo.py, commit_graph.py (all Python).  Pin the pure-Python configuration
# (DESIGN 1.4): otherwise the editable-install finder resolves dulwich._objects/_pack/_diff_tree to /repo's compiled
# extension even when VERIF_REPO points at a scratch tree, mixing two trees (and a concurrent rebuild of those .so
# files crashes every process that has them mapped).
if "dulwich.objects" not in sys.modules:
    for _m in ("dulwich._objects", "dulwich._pack", "dulwich._diff_tree"):
        sys.modules[_m] = None
RULE = (
    "Part A/B (exhaustive): every DAG shape up to isomorphism (1, 2, 6, 31, 302 shapes on 1..5 commits) x every weak "
    "ordering (ties included; 1, 3, 13, 75, 541) of the commit timestamps.  n<=4 (both tiers) and n=5 (thorough): every "
    "query - can_fast_forward on all ordered pairs, find_merge_base on all ordered pairs and all (a,{b,c}), (a,{b,c,d}), "
    "find_octopus_base on all ordered triples and quadruples, independent on all subsets in both orders, walks from "
    "every include / include-pair / exclude combination in both orders, reversed, limited, since/until at every "
    "timestamp (n=5: walks on every 4th graph).  n=5 quick: a seed-dependent half of the shape x ordering pairs with can_fast_forward on all a<b, "
    "find_merge_base on a third of the pairs and hash-selected other queries; n=6 thorough: a seed-dependent 1/24 sample.  "
    "Part C: Hypothesis-generated DAGs (linear, fork-merge, criss-cross, octopus, multi-root, wide; 2..40 commits quick, "
    "..300 thorough) x clock modes {strict, monotone with ties, all equal, reversed, random with ties, random distinct, "
    "few outliers} x drawn query sets on an unmodified MemoryRepo.  Part D: the same generator materialised as a disk "
    "Repo, every query also put to C git (merge-base --all/--octopus/--is-ancestor/--independent, rev-list "
    "[--topo-order] [--reverse] inc ^exc) and repeated after a commit-graph was written by dulwich or by git.  A query "
    "is non-trivial when the graph has a parent newer than its child, or has a merge and the queried commits are not "
    "all comparable (walks: the graph has a merge or skew).  distinct = (graph, timestamps, query); the exhaustive "
    "parts are disjoint by construction (counted in bulk), generated cases are counted by hash."
)
ASSUMPTIONS = [
    "the brute-force ancestor-set model (self-tested on hand-computed graphs, OEIS A003087 shape counts, Fubini numbers, "
    "and against git merge-base/rev-list in every run) is the graph-theoretic truth",
    "git 2.39.5 is the reference for 'agrees with C git'; a git/model disagreement on a monotone clock is a harness error",
    "exclusion / since exactness is demanded on monotone clocks only; on other clocks only soundness "
    "(subset, no duplicates, nothing from the exclude list, filters respected)",
    "date order is compared to git's sequence only when timestamps are distinct and monotone; order=topo is checked "
    "as a constraint (no parent before its child), not as git's exact --topo-order sequence",
    "walker `paths`/`follow`, grafts and shallow boundaries are not exercised",
    "the exhaustive parts use a MemoryObjectStore subclass that returns stored commits without copying (speed); "
    "parts C/D use unmodified MemoryRepo / Repo",
    "runs in the pure-Python configuration (dulwich._objects/_pack/_diff_tree disabled); the Rust twins are C15's subject",
]

T0 = 1_000_000_000
STEP = 60


# ---------------------------------------------------------------------------
# building graphs


_EMPTY_TREE = None


def _empty_tree():
    global _EMPTY_TREE
    if _EMPTY_TREE is None:
        from dulwich.objects import Tree

        _EMPTY_TREE = Tree()
        _EMPTY_TREE.id
    return _EMPTY_TREE


def _mk_commit(t, parent_ids, msg):
    from dulwich.objects import Commit

    c = Commit()
    c.tree = _empty_tree().id
    c.parents = list(parent_ids)
    c.author = c.committer = b"V <v@example.com>"
    c.commit_time = t
    c.author_time = 2 * T0 - t  # deliberately ordered the other way round: only the committer date may matter
    c.author_timezone = c.commit_timezone = 0
    c.message = msg
    c.id
    return c


_commit_cache = {}


def _commits_for(parents, times, salt, cache=None):
    out = []
    for i, ps in enumerate(parents):
        pids = tuple(out[p].id for p in ps)
        msg = b"c%d %s\n" % (i, salt)
        if cache is not None:
            k = (times[i], pids, msg)
            c = cache.get(k)
            if c is None:
                c = cache[k] = _mk_commit(times[i], pids, msg)
        else:
            c = _mk_commit(times[i], pids, msg)
        out.append(c)
    return out


class Graph:
    """A materialised DAG: repo + id map + reference ancestor sets."""

    def __init__(self, parents, times, salt, repo, commits, backend):
        self.parents = tuple(tuple(ps) for ps in parents)
        self.times = tuple(times)
        self.salt = salt
        self.repo = repo
        self.ids = [c.id for c in commits]
        self.idx = {h: i for i, h in enumerate(self.ids)}
        self.anc = M.anc_masks(self.parents)
        self.backend = backend
        self.n = len(self.parents)
        self.skew = M.has_skew(self.parents, self.times)
        self.monotone = not self.skew
        self.strict = all(self.times[p] < self.times[i] for i, ps in enumerate(self.parents) for p in ps)
        self.clock = "strict-clock" if self.strict else "non-strict-clock"
        self.distinct_times = len(set(self.times)) == self.n
        self.merge = M.has_merge(self.parents)

    def base_case(self):
        d = dict(parents=[list(ps) for ps in getattr(self, "orig_parents", self.parents)], times=list(self.times), salt=self.salt,
                 backend=self.backend.split("+")[0])
        if getattr(self, "cut", None):
            d["cut"] = [self.cut[0], self.cut[1]]
        return d


_fast_repo = None


def _get_fast_repo():
    """MemoryRepo whose store hands out the stored commit objects themselves (no re-parse per lookup)."""
    global _fast_repo
    if _fast_repo is None:
        from dulwich.object_store import MemoryObjectStore
        from dulwich.repo import MemoryRepo

        class SharedStore(MemoryObjectStore):
            def __init__(self):
                super().__init__()
                self.objs = {}

            def add_object(self, obj):
                self.objs[obj.id] = obj

            def __getitem__(self, name):
                return self.objs[name]

            def __contains__(self, name):
                return name in self.objs

            def __iter__(self):
                return iter(self.objs)

        r = MemoryRepo()
        r.object_store = SharedStore()
        _fast_repo = r
    return _fast_repo


def build_fast(parents, times, salt):
    r = _get_fast_repo()
    commits = _commits_for(parents, times, salt, _commit_cache)
    r.object_store.objs = {c.id: c for c in commits}
    return Graph(parents, times, salt, r, commits, "mem")


def build_memory(parents, times, salt):
    from dulwich.repo import MemoryRepo

    r = MemoryRepo()
    commits = _commits_for(parents, times, salt)
    r.object_store.add_object(_empty_tree())
    for c in commits:
        r.object_store.add_object(c)
    return Graph(parents, times, salt, r, commits, "mem")


def build_disk(ctx, parents, times, salt, backend="disk"):
    """Bare disk repository; loose objects; refs/heads/t<i> on every childless commit."""
    from dulwich.repo import Repo

    path = ctx.scratch.new("r")
    r = Repo.init_bare(path)
    commits = _commits_for(parents, times, salt)
    r.object_store.add_object(_empty_tree())
    for c in commits:
        r.object_store.add_object(c)
    has_child = set(p for ps in parents for p in ps)
    for i, c in enumerate(commits):
        if i not in has_child:
            r.refs[b"refs/heads/t%d" % i] = c.id
    g = Graph(parents, times, salt, r, commits, "disk")
    g.path = path
    if backend != "disk":
        g = with_commit_graph(g, backend)
    return g


def with_commit_graph(g, backend):
    """Write a commit-graph (by dulwich or by git) and reopen the repository."""
    from dulwich.repo import Repo

    if backend == "disk-cg-dulwich":
        g.repo.object_store.write_commit_graph()
    elif backend == "disk-cg-git":
        cgit.git(["commit-graph", "write", "--reachable"], cwd=g.path)
    elif backend == "disk-cg-git-split":
        # a split chain of two layers as `git fetch`/`git maintenance` leave it: the older half of the commits in the base
        # layer, the rest on top (parent positions in the top layer count across the whole chain)
        half = max(1, g.n // 2)
        cgit.git(["commit-graph", "write", "--split=no-merge", "--stdin-commits"], cwd=g.path, input=b"".join(h + b"\n" for h in g.ids[:half]))
        cgit.git(["commit-graph", "write", "--split=no-merge", "--stdin-commits"], cwd=g.path, input=b"".join(h + b"\n" for h in g.ids))
    else:
        raise HarnessError(f"unknown backend {backend!r}")
    gf = os.path.join(g.path, "objects", "info", "commit-graph")
    if backend == "disk-cg-git-split":
        chain = os.path.join(g.path, "objects", "info", "commit-graphs", "commit-graph-chain")
        if not os.path.exists(chain) or os.path.exists(gf):
            raise HarnessError(f"{backend}: git did not write a split chain")
        g.split_layers = len(open(chain).read().split())
    elif not os.path.exists(gf):
        raise HarnessError(f"{backend}: no commit-graph file was written")
    g.repo.close()
    r = Repo(g.path)
    if backend != "disk-cg-git-split" and r.object_store.get_commit_graph() is None:
        raise HarnessError(f"{backend}: dulwich does not load the commit-graph file")
    g2 = Graph.__new__(Graph)
    g2.__dict__.update(g.__dict__)
    g2.repo = r
    g2.backend = backend
    return g2


def build(ctx, case):
    b = case.get("backend", "mem")
    parents = [tuple(ps) for ps in case["parents"]]
    if b == "mem":
        return build_memory(parents, case["times"], case["salt"])
    return build_disk(ctx, parents, case["times"], case["salt"], b)


# ---------------------------------------------------------------------------
# graph queries: can_fast_forward / find_merge_base / find_octopus_base / independent


def _names(g, m):
    return M.bits(m)


def _run_graph_op(g, op, args):
    """Returns the dulwich answer as plain data (indices), or ('exception', type name, text)."""
    from dulwich import graph as dg

    ids = [g.ids[a] for a in args]
    try:
        if op == "cff":
            r = dg.can_fast_forward(g.repo, ids[0], ids[1])
            if not isinstance(r, bool):
                return ("exception", "TypeError", f"can_fast_forward returned {r!r}")
            return r
        if op == "mb":
            res = dg.find_merge_base(g.repo, ids)
        elif op == "oct":
            res = dg.find_octopus_base(g.repo, ids)
        elif op == "ind":
            res = dg.independent(g.repo, ids)
        else:
            raise HarnessError(f"unknown op {op!r}")
    except HarnessError:
        raise
    except Exception as e:  # an exception on a well-formed repository is an answer, and a wrong one
        return ("exception", type(e).__name__, str(e)[:200])
    out = []
    for h in res:
        if h not in g.idx:
            return ("exception", "UnknownId", f"returned {h!r} which is not a commit of the graph")
        out.append(g.idx[h])
    return out


def want_graph_op(g, op, args):
    anc = g.anc
    if op == "cff":
        return M.is_ancestor(anc, args[0], args[1])
    if op == "mb":
        if len(args) == 1:
            return {args[0]}
        return set(M.bits(M.merge_bases(anc, args[0], args[1:])))
    if op == "oct":
        return set(M.bits(M.octopus_bases(anc, args)))
    if op == "ind":
        return M.independent(anc, args)
    raise HarnessError(f"unknown op {op!r}")


_FN = {"cff": "can_fast_forward", "mb": "find_merge_base", "oct": "find_octopus_base", "ind": "independent"}


def _reachable_not_older(g, a, b):
    """Is a reachable from b through commits whose time is >= time(a)?  (what a min_stamp cut-off would keep)"""
    lim = g.times[a]
    seen = {b}
    todo = [b]
    while todo:
        x = todo.pop()
        if x == a:
            return True
        for p in g.parents[x]:
            if p not in seen and g.times[p] >= lim:
                seen.add(p)
                todo.append(p)
    return False


def sub_clock(g, args):
    """Clock class of the part of the graph the query can see (the ancestors of its arguments):
    strict = every parent strictly older than its child there (a date-ordered walk is then topological)."""
    m = M.reach(g.anc, args)
    for i in M.bits(m):
        for p in g.parents[i]:
            if g.times[p] >= g.times[i]:
                return "non-strict-clock"
    return "strict-clock"


def classify_graph_failure(g, op, args, got, want):
    """None if the answer is right, else (bucket, message)."""
    fn = _FN[op]
    if isinstance(got, tuple) and got and got[0] == "exception":
        return f"C13:{fn}:exception:{got[1]}", f"{fn}{tuple(args)} raised {got[1]}: {got[2]}"
    if op == "cff":
        if got == want:
            return None
        if got and not want:
            return (f"C13:{fn}:false-positive:{sub_clock(g, args)}",
                    f"{fn}{tuple(args)} = True but {args[0]} is not an ancestor of {args[1]}")
        a = args[0]
        if not _reachable_not_older(g, a, args[1]):
            why = "min-stamp-pruned"
            txt = "every path passes through a commit older than c1"
        elif any(x != a and g.times[x] >= g.times[a] for x in M.bits(g.anc[a])):
            why = "non-strict-clock"
            txt = "c1 is reachable through commits not older than c1, and c1 has an ancestor that is not older than c1"
        else:
            why = "unexplained"
            txt = "c1 is reachable through commits not older than c1 and all its ancestors are older than c1"
        return f"C13:{fn}:false-negative:{why}", f"{fn}{tuple(args)} = False but {args[0]} is an ancestor of {args[1]} ({txt})"
    gs = set(got)
    clock = sub_clock(g, args)
    if op == "ind":
        if gs == want:
            if len(got) != len(gs):
                return f"C13:{fn}:duplicate-in-result", f"{fn}{tuple(args)} = {got}"
            return None
        s = set(args)
        if not gs <= s:
            return f"C13:{fn}:not-in-input:{clock}", f"{fn}{tuple(args)} = {got}, not a subset of the input"
        if gs - want:
            return (f"C13:{fn}:kept-ancestor:{clock}",
                    f"{fn}{tuple(args)} = {got}, expected {sorted(want)}: {sorted(gs - want)} are ancestors of other members")
        return (f"C13:{fn}:dropped-independent:{clock}",
                f"{fn}{tuple(args)} = {got}, expected {sorted(want)}: {sorted(want - gs)} are not reachable from any other member")
    # mb / oct
    if gs == want:
        return None
    if op == "mb":
        common = g.anc[args[0]] & M.reach(g.anc, args[1:]) if len(args) > 1 else g.anc[args[0]]
    else:
        common = -1
        for a in args:
            common &= g.anc[a]
    if any(not (common >> x) & 1 for x in gs):
        kind = "not-a-common-ancestor"
    elif want - gs:
        kind = "missing-base"
    else:
        kind = "non-maximal-extra"
    return (f"C13:{fn}:{kind}:{clock}",
            f"{fn}{tuple(args)} = {sorted(got)}, expected the maximal common ancestors {sorted(want)}")


def judge_graph(ctx, g, op, args, check="graph"):
    got = _run_graph_op(g, op, args)
    want = want_graph_op(g, op, args)
    f = classify_graph_failure(g, op, args, got, want)
    if f is None:
        return got
    bucket, msg = f
    case = g.base_case()
    case.update(op=op, args=list(args))
    ctx.fail(bucket, f"{msg}; parents={[list(p) for p in g.parents]} times={[t - T0 for t in g.times]} (+{T0}) backend={g.backend}",
             check, case)
    return got


def graph_nontrivial(g, op, args):
    if g.skew:
        return True
    if not g.merge:
        return False
    a = list(dict.fromkeys(args))
    return any(not M.is_ancestor(g.anc, x, y) and not M.is_ancestor(g.anc, y, x) for x, y in itertools.combinations(a, 2))


# ---------------------------------------------------------------------------
# walks


def _walk_opts(q):
    return dict(
        include=list(q["include"]), exclude=list(q.get("exclude") or []), order=q.get("order", "date"),
        reverse=bool(q.get("reverse", False)), max_entries=q.get("max_entries"), since=q.get("since"), until=q.get("until"),
    )


def _run_walk(g, q):
    o = _walk_opts(q)
    try:
        w = g.repo.get_walker(
            include=[g.ids[i] for i in o["include"]],
            exclude=[g.ids[i] for i in o["exclude"]] or None,
            order=o["order"], reverse=o["reverse"], max_entries=o["max_entries"], since=o["since"], until=o["until"],
        )
        out = []
        for e in w:
            h = e.commit.id
            if h not in g.idx:
                return ("exception", "UnknownId", f"yielded {h!r}")
            out.append(g.idx[h])
        return out
    except Exception as e:
        return ("exception", type(e).__name__, str(e)[:200])


def classify_walk(g, q, got, unlimited=None):
    """List of (bucket, message) for everything wrong with a walk result.

    ``unlimited``: result of the same walk with reverse=False, max_entries=None (for the metamorphic checks).
    """
    o = _walk_opts(q)
    bad = []
    if isinstance(got, tuple) and got and got[0] == "exception":
        return [(f"C13:walk:exception:{got[1]}", f"walk raised {got[1]}: {got[2]}")]
    inc = M.reach(g.anc, o["include"])
    exc = M.reach(g.anc, o["exclude"])
    limited = o["max_entries"] is not None
    filt = o["since"] is not None or o["until"] is not None
    opt = ("excl" if o["exclude"] else "plain") + ("+since" if o["since"] is not None else "") + ("+until" if o["until"] is not None else "")
    gs = set(got)
    if len(gs) != len(got):
        d = sorted(x for x in gs if got.count(x) > 1)
        bad.append((f"C13:walk:duplicate:{opt}", f"commits {d} yielded more than once"))
    if any(not (inc >> x) & 1 for x in gs):
        bad.append((f"C13:walk:not-reachable:{opt}", f"yielded {sorted(x for x in gs if not (inc >> x) & 1)} not reachable from include"))
    if gs & set(o["exclude"]):
        bad.append((f"C13:walk:yielded-exclude-tip", f"yielded {sorted(gs & set(o['exclude']))} which are in the exclude list"))
    if o["since"] is not None and any(g.times[x] < o["since"] for x in gs):
        bad.append(("C13:walk:since-not-respected", f"yielded commits older than since={o['since']}"))
    if o["until"] is not None and any(g.times[x] > o["until"] for x in gs):
        bad.append(("C13:walk:until-not-respected", f"yielded commits newer than until={o['until']}"))
    # completeness
    exact_ok = (not o["exclude"] and o["since"] is None) or g.monotone
    if exact_ok:
        want = {x for x in M.bits(inc & ~exc)
                if (o["since"] is None or g.times[x] >= o["since"]) and (o["until"] is None or g.times[x] <= o["until"])}
        if not limited:
            if gs - want and not bad:
                bad.append((f"C13:walk:extra-commit:{opt}:{'monotone' if g.monotone else 'skew'}",
                            f"yielded {sorted(gs - want)} which should have been excluded/filtered; expected {sorted(want)}"))
            if want - gs:
                bad.append((f"C13:walk:missing-commit:{opt}:{'monotone' if g.monotone else 'skew'}",
                            f"did not yield {sorted(want - gs)}; got {got}, expected the set {sorted(want)}"))
        else:
            k = min(o["max_entries"], len(want))
            if len(got) != k and not bad:
                bad.append((f"C13:walk:max-entries-count:{opt}", f"max_entries={o['max_entries']}: {len(got)} entries, expected {k}"))
            if gs - want and not bad:
                bad.append((f"C13:walk:extra-commit:{opt}:{'monotone' if g.monotone else 'skew'}", f"yielded {sorted(gs - want)}"))
    # order
    seq = got[::-1] if o["reverse"] else got
    pos = {x: i for i, x in enumerate(seq)}
    if o["order"] == "topo":
        for x in seq:
            for p in g.parents[x]:
                if p in pos and pos[p] < pos[x]:
                    bad.append((f"C13:walk:topo-parent-before-child:{'rev' if o['reverse'] else 'fwd'}",
                                f"order=topo yielded parent {p} before its child {x}: {got}"))
                    break
            else:
                continue
            break
    elif g.monotone and not bad:
        if any(g.times[seq[i]] < g.times[seq[i + 1]] for i in range(len(seq) - 1)):
            bad.append(("C13:walk:date-order-not-newest-first", f"order=date on a monotone clock is not newest-first: {got}"))
    if unlimited is not None and not (isinstance(unlimited, tuple) and unlimited and unlimited[0] == "exception") and not bad:
        if o["order"] == "date" or not limited:
            base = unlimited if not limited else unlimited[: o["max_entries"]]
            exp = base[::-1] if o["reverse"] else base
            if got != exp:
                what = ("reverse" if o["reverse"] else "") + ("+" if o["reverse"] and limited else "") + ("max_entries" if limited else "")
                bad.append((f"C13:walk:{what}-inconsistent:{o['order']}",
                            f"{what}: got {got}, but the plain walk is {unlimited} (expected {exp})"))
    return bad


def judge_walk(ctx, g, q, check="walk"):
    o = _walk_opts(q)
    got = _run_walk(g, q)
    unlimited = None
    if o["reverse"] or o["max_entries"] is not None:
        q0 = dict(o, reverse=False, max_entries=None)
        unlimited = _run_walk(g, q0)
    for bucket, msg in classify_walk(g, q, got, unlimited):
        case = g.base_case()
        case.update(q=o)
        ctx.fail(bucket, f"{msg}; walk={o} parents={[list(p) for p in g.parents]} times={[t - T0 for t in g.times]} (+{T0}) "
                         f"backend={g.backend}", check, case)
    return got


# ---------------------------------------------------------------------------
# C git


def _git_lines(g, args, ok=(0,)):
    rc, out, err = cgit.git(args, cwd=g.path, check=False)
    if rc not in ok:
        raise HarnessError(f"git {' '.join(args)} failed rc={rc}: {err[:300]!r}")
    res = []
    for l in out.split():
        if l not in g.idx:
            raise HarnessError(f"git {' '.join(args)} printed unknown id {l!r}")
        res.append(g.idx[l])
    return rc, res


def git_graph_op(g, op, args):
    hx = [g.ids[a].decode() for a in args]
    if op == "cff":
        rc, _ = _git_lines(g, ["merge-base", "--is-ancestor", hx[0], hx[1]], ok=(0, 1))
        return rc == 0
    if op == "mb":
        return set(_git_lines(g, ["merge-base", "--all"] + hx, ok=(0, 1))[1])
    if op == "oct":
        return set(_git_lines(g, ["merge-base", "--all", "--octopus"] + hx, ok=(0, 1))[1])
    if op == "ind":
        return set(_git_lines(g, ["merge-base", "--independent"] + hx)[1])
    raise HarnessError(op)


def git_walk(g, q):
    o = _walk_opts(q)
    args = ["rev-list"]
    if o["order"] == "topo":
        args.append("--topo-order")
    if o["reverse"]:
        args.append("--reverse")
    args += [g.ids[i].decode() for i in o["include"]]
    args += ["^" + g.ids[i].decode() for i in o["exclude"]]
    return _git_lines(g, args)[1]


def judge_git_graph(ctx, g, op, args, got):
    """Corroborate the model with git; demand nothing from dulwich beyond the model."""
    want = want_graph_op(g, op, args)
    gv = git_graph_op(g, op, args)
    if gv != want:
        if g.monotone:
            raise HarnessError(f"C13: git and the model disagree on a monotone clock: {op}{tuple(args)} git={gv} model={want} "
                               f"parents={g.parents} times={g.times}")
        ctx.label("git-disagrees-with-model(skewed-clock):" + _FN[op])
        ctx.notes.append(f"git {op}{tuple(args)} = {gv}, model {want}; parents={g.parents} times={[t - T0 for t in g.times]}")
    else:
        ctx.label("git-agrees-with-model")


def judge_git_walk(ctx, g, q, got, check="git-walk"):
    """rev-list differential: sets always (no excludes) / on monotone clocks (excludes); sequence when distinct+monotone."""
    o = _walk_opts(q)
    if o["max_entries"] is not None or o["since"] is not None or o["until"] is not None:
        return
    if isinstance(got, tuple):
        return  # already reported by judge_walk
    gv = git_walk(g, q)
    inc = M.reach(g.anc, o["include"])
    exc = M.reach(g.anc, o["exclude"])
    want = set(M.bits(inc & ~exc))
    if set(gv) != want:
        if g.monotone:
            raise HarnessError(f"C13: git rev-list and the model disagree on a monotone clock: {o} git={gv} model={sorted(want)}")
        ctx.label("git-disagrees-with-model(skewed-clock):rev-list" + ("-with-excludes" if o["exclude"] else ""))
        return
    ctx.label("git-agrees-with-model")
    case = g.base_case()
    case.update(q=o)
    if o["exclude"] and not g.monotone:
        return
    if set(got) != set(gv):
        ctx.fail(f"C13:git-walk:set-differs:{'excl' if o['exclude'] else 'plain'}",
                 f"walk {o}: dulwich {got}, git rev-list {gv}; parents={[list(p) for p in g.parents]} times={[t - T0 for t in g.times]}",
                 check, case)
        return
    if o["order"] == "date" and g.distinct_times and g.monotone:
        ctx.label("git-sequence-compared")
        if got != gv:
            ctx.fail(f"C13:git-walk:sequence-differs:{'rev' if o['reverse'] else 'fwd'}",
                     f"walk {o}: dulwich {got}, git rev-list {gv} (distinct, monotone timestamps); "
                     f"parents={[list(p) for p in g.parents]} times={[t - T0 for t in g.times]}", check, case)


# ---------------------------------------------------------------------------
# Part A/B: exhaustive small DAGs x timestamp orderings


def _sel(*parts):
    return h64(*parts)


def _graph_queries_full(n):
    qs = []
    for a in range(n):
        for b in range(n):
            qs.append(("cff", (a, b)))
            if a != b:
                qs.append(("mb", (a, b)))
    for a in range(n):
        others = [x for x in range(n) if x != a]
        for b, c in itertools.combinations(others, 2):
            qs.append(("mb", (a, b, c)))
        if n >= 4:
            for t in itertools.combinations(others, 3):
                qs.append(("mb", (a,) + t))
    for t in itertools.permutations(range(n), 3):
        qs.append(("oct", t))
    if n >= 4:
        for t in itertools.combinations(range(n), 4):
            qs.append(("oct", t))
            qs.append(("oct", t[::-1]))
    for k in range(2, n + 1):
        for s in itertools.combinations(range(n), k):
            qs.append(("ind", s))
            if k <= 3 or n <= 4:
                qs.append(("ind", s[::-1]))
    qs.append(("mb", (n - 1,)))
    qs.append(("ind", (0,)))
    return qs


def _graph_queries_sampled(n, key, extra, every=1):
    """n >= 5: can_fast_forward on all a<b, find_merge_base on every `every`-th unordered pair (hash-rotated),
    + `extra` hash-selected queries of each other kind."""
    qs = []
    flip = key & 1
    pi = 0
    for a in range(n):
        for b in range(a + 1, n):
            qs.append(("cff", (a, b)))
            if every == 1 or (key >> 8) % every == pi % every:
                qs.append(("mb", (b, a) if (flip ^ (a + b)) & 1 else (a, b)))
            pi += 1
    key >>= 1
    rev = [(b, a) for a in range(n) for b in range(a)] + [(a, a) for a in range(n)]
    for i in range(2 if every == 1 else 1):
        qs.append(("cff", rev[(key >> (5 * i)) % len(rev)]))
    if extra < 1:  # a fraction: the extra queries on that share of the graphs only
        extra = 1 if (key >> 16) % round(1 / extra) == 0 else 0
    key = _sel(key, "m")
    for i in range(extra):
        k = _sel(key, i)
        perm = list(range(n))
        # a cheap keyed shuffle
        perm.sort(key=lambda x: _sel(k, x))
        m = 3 + (k >> 7) % 2
        qs.append(("mb", tuple(perm[:m])))
        qs.append(("oct", tuple(perm[1:1 + 3 + (k >> 9) % 2])))
        qs.append(("ind", tuple(perm[:2 + (k >> 11) % 2])))
    return qs


def _walk_queries_full(n, times):
    qs = []
    ts = sorted(set(times))
    for a in range(n):
        for order in ("date", "topo"):
            qs.append(dict(include=[a], order=order))
            qs.append(dict(include=[a], order=order, reverse=True))
        qs.append(dict(include=[a], max_entries=2))
        qs.append(dict(include=[a], max_entries=2, reverse=True))
        qs.append(dict(include=[a], order="topo", max_entries=3))
        for b in range(n):
            if b != a:
                qs.append(dict(include=[a], exclude=[b]))
                qs.append(dict(include=[a], exclude=[b], order="topo"))
        for t in ts:
            qs.append(dict(include=[a], since=t))
            qs.append(dict(include=[a], until=t))
    for a, b in itertools.combinations(range(n), 2):
        qs.append(dict(include=[a, b]))
        qs.append(dict(include=[b, a], order="topo"))
        for c in range(n):
            if c not in (a, b):
                qs.append(dict(include=[a, b], exclude=[c]))
                qs.append(dict(include=[c], exclude=[a, b]))
    return qs


def _walk_queries_sampled(n, times, key, count):
    qs = []
    for i in range(count):
        k = _sel(key, "w", i)
        perm = sorted(range(n), key=lambda x: _sel(k, x))
        kind = k % 8
        ninc = 1 + (k >> 3) % 2
        q = dict(include=perm[:ninc])
        if kind in (0, 1, 2, 3):
            q["exclude"] = perm[ninc:ninc + 1 + (k >> 5) % 2]
        if kind in (1, 4):
            q["order"] = "topo"
        if kind == 5:
            q["reverse"] = True
        if kind == 6:
            q["max_entries"] = 1 + (k >> 6) % 4
        if kind == 7 or kind == 3:
            q["since" if (k >> 9) & 1 else "until"] = times[perm[-1]]
        qs.append(q)
    qs.append(dict(include=[n - 1], order="topo"))
    qs.append(dict(include=[n - 1]))
    return qs


def _labels_for_graph(g):
    ls = ["clock:skew" if g.skew else ("clock:strict" if g.strict else "clock:monotone-with-edge-ties")]
    if not g.distinct_times:
        ls.append("has-equal-timestamps")
    if g.merge:
        ls.append("has-merge")
    if any(len(ps) > 2 for ps in g.parents):
        ls.append("has-octopus-merge")
    if sum(1 for ps in g.parents if not ps) > 1:
        ls.append("multi-root")
    return ls


def _exhaustive_one(ctx, n, parents, ranks, mode, key, walks):
    # every third graph lives at the epoch (lowest rank = time 0): a timestamp of 0 is legal and must not be
    # treated as "no timestamp" or fall under a default cut-off
    base = 0 if (h64(key) % 3 == 0) else T0
    times = [base + STEP * r for r in ranks]
    g = build_fast(parents, times, b"s%d" % ctx.seed)
    glabels = _labels_for_graph(g)
    nt = 0
    tr = 0
    cc = 0
    if mode == "full":
        qs = _graph_queries_full(n)
    else:
        qs = _graph_queries_sampled(n, key, mode[0], mode[1])
    for op, args in qs:
        judge_graph(ctx, g, op, args)
        if graph_nontrivial(g, op, args):
            nt += 1
        else:
            tr += 1
        if op == "mb" and len(args) == 2 and len(want_graph_op(g, op, args)) > 1:
            cc += 1
    nw = 0
    if walks:
        wqs = _walk_queries_full(n, times) if walks == "full" else _walk_queries_sampled(n, times, key, walks)
        for q in wqs:
            judge_walk(ctx, g, q)
        nw = len(wqs)
    wnt = nw if (g.skew or g.merge) else 0
    sample = None
    if key % 20011 == 0:
        sample = dict(parents=parents, time_ranks=ranks, queries=len(qs), walks=nw)
    if nt + wnt:
        ctx.case(None, nontrivial=True, n=nt + wnt, labels=glabels + ["exhaustive:n=%d" % n], sample=sample)
    if tr + nw - wnt:
        ctx.case(None, nontrivial=False, n=tr + nw - wnt, labels=glabels + ["exhaustive:n=%d" % n])
    ctx.label("graphs:n=%d" % n)
    ctx.label("query:graph", n=len(qs))
    ctx.label("query:walk", n=nw)
    if cc:
        ctx.label("query:criss-cross(>=2 merge bases)", n=cc)


def _part_exhaustive(ctx, item):
    n, mode, walks, frac, nshards, shard = item
    shapes = M.shapes(n)
    ords = M.orderings(n)
    for si, parents in enumerate(shapes):
        # whole shapes per shard when there are enough of them (commit cache hits), else interleave orderings
        if len(shapes) >= 4 * nshards and si % nshards != shard:
            continue
        _commit_cache.clear()
        for oi, ranks in enumerate(ords):
            if len(shapes) < 4 * nshards and (si * len(ords) + oi) % nshards != shard:
                continue
            key = _sel("A", n, si, oi, ctx.seed)
            if frac > 1 and (key >> 40) % frac:
                continue
            w = walks
            if isinstance(walks, tuple):  # (every, count): walk queries on every `every`-th graph only
                w = walks[1] if (key >> 20) % walks[0] == 0 else 0
            _exhaustive_one(ctx, n, parents, ranks, mode, key, w)


# ---------------------------------------------------------------------------
# Part C/D: generated DAGs


_KINDS = ["mixed", "mixed", "linear", "fork-merge", "criss-cross", "octopus", "multi-root", "wide"]
_CLOCKS = ["strict", "monotone-ties", "all-equal", "reversed", "random-ties", "outliers", "outliers", "random-distinct"]

# number of parents by kind, selected by a drawn 0..9
_KTAB = {
    "mixed": [0, 1, 1, 1, 1, 2, 2, 2, 3, 1],
    "linear": [1, 1, 1, 1, 1, 1, 1, 1, 2, 1],
    "fork-merge": [1, 1, 1, 1, 2, 2, 2, 1, 1, 2],
    "criss-cross": [1, 1, 2, 2, 2, 2, 2, 2, 1, 2],
    "octopus": [1, 1, 1, 2, 3, 3, 4, 5, 1, 1],
    "multi-root": [0, 0, 1, 1, 1, 2, 2, 1, 2, 0],
    "wide": [1, 1, 1, 1, 1, 1, 2, 1, 1, 0],
}
_WINDOW = {"mixed": 6, "linear": 2, "fork-merge": 4, "criss-cross": 4, "octopus": 8, "multi-root": 8, "wide": 12}


def interpret_dag(kind, clock, nodes):
    """nodes: list of (ksel, [5 offsets], r) -> (parents, times).  Pure function of its arguments."""
    n = len(nodes)
    parents = []
    for i, (ksel, offs, r) in enumerate(nodes):
        k = _KTAB[kind][ksel % 10]
        if i == 0:
            k = 0
        elif k == 0 and kind not in ("multi-root", "mixed", "wide"):
            k = 1
        w = _WINDOW[kind]
        ps = []
        for o in offs:
            if len(ps) >= k:
                break
            p = i - 1 - (o % min(i, w)) if i else 0
            if p not in ps:
                ps.append(p)
        parents.append(tuple(ps))
    times = []
    for i, (ksel, offs, r) in enumerate(nodes):
        if clock == "strict":
            t = i
        elif clock == "monotone-ties":
            t = i // (2 + r % 3) if r % 4 else i // 2
        elif clock == "all-equal":
            t = 0
        elif clock == "reversed":
            t = n - i
        elif clock == "random-ties":
            t = r % max(2, n // 2)
        elif clock == "random-distinct":
            t = (r % 1000) * 400 + i
        elif clock == "outliers":
            t = i
            if r % 8 == 0:
                t = i + [-3, 3, -n, n, -40, 40, -1, 1][(r >> 3) % 8]
        else:
            raise HarnessError(clock)
        times.append(T0 + STEP * t)
    if clock == "monotone-ties":
        # i // d with varying d is not monotone by itself; enforce parent <= child
        for i, ps in enumerate(parents):
            for p in ps:
                if times[p] > times[i]:
                    times[i] = times[p]
    return parents, times


def _dag_strategy(max_n):
    from hypothesis import strategies as st

    node = st.tuples(st.integers(0, 9), st.lists(st.integers(0, 11), min_size=5, max_size=5), st.integers(0, 4095))
    sizes = st.one_of(st.integers(2, min(12, max_n)), st.integers(2, max_n))
    nodes = sizes.flatmap(lambda n: st.lists(node, min_size=n, max_size=n))
    pick = st.integers(0, 1 << 20)
    gq = st.tuples(st.sampled_from(["cff", "cff", "mb", "mb", "mb3", "oct", "ind"]), st.lists(pick, min_size=5, max_size=5))
    wq = st.tuples(
        st.lists(pick, min_size=1, max_size=3),  # include
        st.lists(pick, min_size=0, max_size=2),  # exclude
        st.sampled_from(["date", "date", "topo"]),
        st.booleans(),
        st.one_of(st.none(), st.none(), st.integers(1, 12)),
        st.sampled_from([None, None, None, "since", "until", "both"]),
        pick,
    )
    return st.tuples(st.sampled_from(_KINDS), st.sampled_from(_CLOCKS), nodes,
                     st.lists(gq, min_size=3, max_size=8), st.lists(wq, min_size=2, max_size=5), st.integers(0, 4))


def _tipward(n, v):
    """Map a drawn integer to an index, biased towards the newest commits."""
    if v & 1:
        return n - 1 - ((v >> 1) % min(n, 6))
    return (v >> 1) % n


def concrete_queries(n, times, gqs, wqs):
    out_g = []
    for op, picks in gqs:
        idx = [_tipward(n, v) for v in picks]
        if op == "cff":
            a, b = idx[0], idx[1]
            if picks[2] % 3 and a > b:
                a, b = b, a  # mostly ask in the direction that can be true
            out_g.append(("cff", (a, b)))
        elif op == "mb":
            out_g.append(("mb", (idx[0], idx[1])))
        elif op == "mb3":
            out_g.append(("mb", tuple(idx[: 3 + picks[4] % 2])))
        elif op == "oct":
            out_g.append(("oct", tuple(idx[: 3 + picks[4] % 3])))
        else:
            s = list(dict.fromkeys(idx[: 2 + picks[4] % 4]))
            out_g.append(("ind", tuple(s)))
    out_w = []
    for inc, exc, order, reverse, maxe, filt, v in wqs:
        if v % 3 == 0 and exc:
            # start somewhere in the history, exclude from the tips: (part of) the walk lies *below* the excluded tips
            q = dict(include=list(dict.fromkeys((x >> 1) % n for x in inc)), order=order, reverse=reverse, max_entries=maxe)
            ex = list(dict.fromkeys(_tipward(n, x | 1) for x in exc))
        else:
            q = dict(include=list(dict.fromkeys(_tipward(n, x) for x in inc)), order=order, reverse=reverse, max_entries=maxe)
            ex = list(dict.fromkeys(x % n for x in exc))
        if ex:
            q["exclude"] = ex
        tv = times[v % n]
        if filt in ("since", "both"):
            q["since"] = tv
        if filt == "until":
            q["until"] = tv
        if filt == "both":
            q["until"] = max(tv, times[(v >> 8) % n])
        out_w.append(q)
    return out_g, out_w


def _query_labels(g, op, args):
    ls = ["op:" + _FN[op]]
    if op == "mb" and len(args) > 2:
        ls.append("op:find_merge_base(multi-target)")
    if op in ("mb", "oct") and len(want_graph_op(g, op, args)) > 1:
        ls.append("query:criss-cross(>=2 merge bases)")
    if op == "cff":
        ls.append("cff:ancestor" if want_graph_op(g, op, args) else "cff:not-ancestor")
    return ls


def _walk_labels(g, q):
    o = _walk_opts(q)
    ls = ["op:walk", "walk:order=" + o["order"]]
    if o["exclude"]:
        ls.append("walk:exclude" + ("(monotone:exact)" if g.monotone else "(skew:soundness-only)"))
    if o["reverse"]:
        ls.append("walk:reverse")
    if o["max_entries"] is not None:
        ls.append("walk:max_entries")
    if o["since"] is not None or o["until"] is not None:
        ls.append("walk:since/until")
    return ls


def execute_generated(ctx, value, disk):
    kind, clock, nodes, gqs, wqs, cgsel = value
    parents, times = interpret_dag(kind, clock, nodes)
    n = len(parents)
    salt = b"g%d" % (ctx.seed % 7)
    gq, wq = concrete_queries(n, times, gqs, wqs)
    if not disk:
        g = build_memory(parents, times, salt)
        glabels = _labels_for_graph(g) + ["gen:" + kind, "gen-clock:" + clock, "size:%s" % ("<=12" if n <= 12 else "<=40" if n <= 40 else ">40")]
        first = True
        for op, args in gq:
            judge_graph(ctx, g, op, args)
            ctx.case(("C", parents, times, op, args), nontrivial=graph_nontrivial(g, op, args),
                     labels=_query_labels(g, op, args) + (glabels if first else []),
                     sample=dict(parents=parents, times=[t - T0 for t in times], op=op, args=args) if first and n <= 10 else None)
            first = False
        for q in wq:
            judge_walk(ctx, g, q)
            ctx.case(("C", parents, times, "walk", repr(sorted(q.items()))), nontrivial=g.skew or g.merge, labels=_walk_labels(g, q))
        return
    # disk repository, C git, commit-graph
    g = build_disk(ctx, parents, times, salt)
    try:
        glabels = _labels_for_graph(g) + ["gen:" + kind, "gen-clock:" + clock, "backend:disk"]
        answers = []
        first = True
        for op, args in gq:
            got = judge_graph(ctx, g, op, args)
            judge_git_graph(ctx, g, op, args, got)
            answers.append(got)
            ctx.case(("D", parents, times, op, args), nontrivial=graph_nontrivial(g, op, args),
                     labels=_query_labels(g, op, args) + ["git-differential"] + (glabels if first else []))
            first = False
        wanswers = []
        for q in wq:
            got = judge_walk(ctx, g, q)
            judge_git_walk(ctx, g, q, got)
            wanswers.append(got)
            ctx.case(("D", parents, times, "walk", repr(sorted(q.items()))), nontrivial=g.skew or g.merge,
                     labels=_walk_labels(g, q) + ["git-differential"])
        if cgsel:
            backend = "disk-cg-git-split" if cgsel == 4 else "disk-cg-dulwich" if cgsel & 1 else "disk-cg-git"
            g2 = with_commit_graph(g, backend)
            g = g2
            for (op, args), before in zip(gq, answers):
                judge_commit_graph(ctx, g2, "graph", (op, args), before)
            for q, before in zip(wq, wanswers):
                judge_commit_graph(ctx, g2, "walk", q, before)
            if backend != "disk-cg-git-split" and n >= 3:
                # the history is cut or re-wired *after* the commit-graph was written: a shallow boundary (through the
                # handle that is open) or a graft (info/grafts, handle reopened).  Every query has to answer for the
                # graph as cut/grafted - parents recorded in the commit-graph do not count
                kind = "shallow" if (cgsel + n) % 2 else "graft"
                g3 = cut_history(g2, kind, (n * 7 + len(gq)) % n)
                if g3 is not None:
                    g = g3
                    for op, args in gq:
                        judge_graph(ctx, g3, op, args, check="graph-cut")
                        ctx.case(("X", kind, parents, times, op, args), nontrivial=graph_nontrivial(g3, op, args),
                                 labels=["history-cut:" + kind, "commit-graph:" + backend, "op:" + _FN[op]])
                    for q in wq:
                        judge_walk(ctx, g3, q, check="walk-cut")
                        ctx.case(("X", kind, parents, times, "walk", repr(sorted(q.items()))), nontrivial=True,
                                 labels=["history-cut:" + kind, "commit-graph:" + backend, "op:walk"])
    finally:
        g.repo.close()
        import shutil

        shutil.rmtree(g.path, ignore_errors=True)


def cut_history(g, kind, x0):
    """Mark commit x shallow (no parents) or graft it onto other parents; returns the Graph of the history as it now
    is (same ids), or None if no commit with parents is found.  x: first commit at or after x0 that has parents."""
    from dulwich.repo import Repo

    xs = [i for i in list(range(x0, g.n)) + list(range(x0)) if g.parents[i]]
    if not xs:
        return None
    x = xs[0]
    if kind == "shallow":
        newp = ()
        g.repo.update_shallow({g.ids[x]}, None)
        repo = g.repo
    else:
        # other parents: the root-most commit and, for odd x, x's last old parent as well (still acyclic: parents < x)
        newp = tuple(dict.fromkeys([0] + ([g.parents[x][-1]] if x % 2 else [])))
        if newp == g.parents[x]:
            newp = ()
        with open(os.path.join(g.path, "info", "grafts") if os.path.isdir(os.path.join(g.path, "info")) else os.path.join(g.path, ".git", "info", "grafts"), "wb") as f:
            f.write(g.ids[x] + b"".join(b" " + g.ids[p] for p in newp) + b"\n")
        g.repo.close()
        repo = Repo(g.path)
    parents = [tuple(ps) for ps in g.parents]
    parents[x] = newp
    g3 = Graph.__new__(Graph)
    g3.__dict__.update(g.__dict__)
    g3.repo = repo
    g3.parents = tuple(parents)
    g3.anc = M.anc_masks(g3.parents)
    g3.skew = M.has_skew(g3.parents, g3.times)
    g3.monotone = not g3.skew
    g3.strict = all(g3.times[p] < g3.times[i] for i, ps in enumerate(g3.parents) for p in ps)
    g3.clock = "strict-clock" if g3.strict else "non-strict-clock"
    g3.merge = M.has_merge(g3.parents)
    g3.backend = g.backend + "+" + kind
    g3.orig_parents = g.parents
    g3.cut = (kind, x, list(newp))
    return g3


def judge_commit_graph(ctx, g2, kind, q, before, check="commit-graph"):
    """The same query after a commit-graph exists: the answer must not change (and must still be right)."""
    if kind == "graph":
        op, args = q
        after = _run_graph_op(g2, op, args)
        want = want_graph_op(g2, op, args)
        wrong_before = classify_graph_failure(g2, op, args, before, want)
        wrong_after = classify_graph_failure(g2, op, args, after, want)
        labels = ["commit-graph:" + g2.backend, "op:" + _FN[op]]
        nt = graph_nontrivial(g2, op, args)
        qd = dict(op=op, args=list(args))
        same = (set(after) == set(before)) if isinstance(after, list) and isinstance(before, list) else after == before
    else:
        after = _run_walk(g2, q)
        wrong_before = classify_walk(g2, q, before)
        wrong_after = classify_walk(g2, q, after)
        labels = ["commit-graph:" + g2.backend, "op:walk"]
        nt = g2.skew or g2.merge
        qd = dict(q=_walk_opts(q))
        same = after == before
    if getattr(g2, "split_layers", None):
        labels.append("commit-graph:split-chain-layers=%s" % (g2.split_layers if g2.split_layers < 3 else ">=3"))
    ctx.case(("CG", g2.backend, g2.parents, g2.times, repr(q)), nontrivial=nt, labels=labels)
    if wrong_after and (not wrong_before or not same):
        case = g2.base_case()
        case.update(kind=kind, **qd)
        octo = "octopus" if any(len(ps) > 2 for ps in g2.parents) else "no-octopus"
        first = wrong_after if isinstance(wrong_after, tuple) else wrong_after[0]
        ctx.fail(f"C13:commit-graph:{g2.backend}:{octo}-in-graph:answer-changed",
                 f"with a commit-graph ({g2.backend}) the answer to {qd} changed from {before} to {after}: {first[1]}; "
                 f"parents={[list(p) for p in g2.parents]} times={[t - T0 for t in g2.times]}", check, case)


def _part_generated(ctx, item):
    n_examples, max_n, disk = item
    run_hypothesis(ctx, _dag_strategy(max_n), lambda c, v: execute_generated(c, v, disk), max_examples=n_examples, shrink=True)


# ---------------------------------------------------------------------------
# independent() on inputs that name the same commit twice (two branches at one commit)


# ---------------------------------------------------------------------------
# walks restricted to paths (the quantifier's `paths` option)
#
# dulwich documents `paths` as "file or subtree paths to show entries for": a commit is shown when its changes
# against its parent(s) touch one of the paths.  The oracle is a sandwich that holds for dulwich's documented
# reading and for git's --full-history alike:
#   must    a commit with <= 1 parent whose listing below the paths differs from its parent's (the empty listing
#           for a root); a merge holding a file below the paths whose content is found in *none* of its parents
#   must not  a commit with <= 2 parents whose listing below the paths equals that of one of its parents (a root:
#           is empty); an octopus merge that equals all its parents there
# (other merges - deletions, per-file agreement with different parents - may go either way), plus the
# clauses of the plain walk: each commit at most once, only reachable ones, the same relative order as the walk
# without `paths`, max_entries = a prefix.

_PATHS = (b"d/x", b"d/y", b"d.z", b"dd/x", b"e", b"d/s/t", b"d/s.u", b"D/x")
_FILTERS = ((b"d",), (b"d/x",), (b"e",), (b"d/s",), (b"dd",), (b"d", b"e"), (b"d/s/t", b"D"), (b"d.z",), (b"d/s.u", b"d/y"))


def _under(path, filt):
    return any(path == f or path.startswith(f + b"/") for f in filt)


def _paths_listings(parents, edits):
    """Per-commit listing {path: value}: the first parent's listing with this commit's edits applied (value 0 = absent,
    3 = as in the last parent)."""
    out = []
    for i, ps in enumerate(parents):
        cur = dict(out[ps[0]]) if ps else {}
        for pi, v in edits[i]:
            path = _PATHS[pi % len(_PATHS)]
            if v == 3:
                v = out[ps[-1]].get(path, 0) if ps else 0
            if v == 0:
                cur.pop(path, None)
            else:
                cur[path] = v
        out.append(cur)
    return out


def build_paths_graph(parents, times, listings, salt):
    from dulwich.index import commit_tree
    from dulwich.objects import Blob, Commit
    from dulwich.repo import MemoryRepo

    r = MemoryRepo()
    blobs = {}
    for v in (1, 2):
        b = Blob.from_string(b"v%d\n" % v)
        r.object_store.add_object(b)
        blobs[v] = b.id
    commits = []
    for i, ps in enumerate(parents):
        tid = commit_tree(r.object_store, [(p, blobs[v], 0o100644) for p, v in sorted(listings[i].items())])
        c = Commit()
        c.tree = tid
        c.parents = [commits[p].id for p in ps]
        c.author = c.committer = b"V <v@example.com>"
        c.commit_time = times[i]
        c.author_time = 2 * T0 - times[i]
        c.author_timezone = c.commit_timezone = 0
        c.message = b"p%d %s\n" % (i, salt)
        r.object_store.add_object(c)
        commits.append(c)
    return Graph(parents, times, salt, r, commits, "mem")


def _paths_expect(g, listings, filt):
    must, mustnot = set(), set()
    for x, ps in enumerate(g.parents):
        mine = {p: v for p, v in listings[x].items() if _under(p, filt)}
        theirs = [{p: v for p, v in listings[q].items() if _under(p, filt)} for q in ps] or [{}]
        same = [mine == t for t in theirs]
        if len(theirs) == 1:
            (mustnot if same[0] else must).add(x)
        elif all(same) or (len(theirs) == 2 and any(same)):
            # an octopus that equals one parent only may still be shown: dulwich documents "never existed in one
            # parent and was deleted [with different contents] in two others" as a conflict
            mustnot.add(x)
        elif any(all(v != t.get(p, 0) for t in theirs) for p, v in mine.items()):
            # a file whose content in the merge is found in none of the parents; a deletion is a conflict for
            # dulwich only when the parents' contents differ (tree_changes_for_merge), so it may go either way
            must.add(x)
    return must, mustnot


def _run_paths_walk(g, q, with_paths=True):
    try:
        w = g.repo.get_walker(
            include=[g.ids[i] for i in q["include"]], exclude=[g.ids[i] for i in q.get("exclude") or []] or None,
            order=q.get("order", "date"), max_entries=q.get("max_entries") if with_paths else None,
            paths=[bytes(f) for f in q["paths"]] if with_paths else None,
        )
        return [g.idx[e.commit.id] for e in w]
    except Exception as e:
        return ("exception", type(e).__name__, str(e)[:200])


def judge_paths_walk(ctx, g, edits, q, check="walk-paths"):
    listings = _paths_listings(g.parents, edits)
    filt = tuple(bytes(f) for f in q["paths"])
    got = _run_paths_walk(g, q)
    full = _run_paths_walk(g, dict(q, max_entries=None))
    plain = _run_paths_walk(g, q, with_paths=False)
    bad = []
    for name, r in (("paths", got), ("paths,unlimited", full), ("plain", plain)):
        if isinstance(r, tuple):
            bad.append((f"C13:walk-paths:exception:{r[1]}", f"{name} walk raised {r[1]}: {r[2]}"))
    if not bad:
        inc = M.reach(g.anc, q["include"]) & ~M.reach(g.anc, q.get("exclude") or [])
        cand = set(M.bits(inc))
        must, mustnot = _paths_expect(g, listings, filt)
        fs = set(full)
        merge = lambda xs: "merge" if any(len(g.parents[x]) > 1 for x in xs) else "root" if any(not g.parents[x] for x in xs) else "plain"
        if len(fs) != len(full):
            bad.append(("C13:walk-paths:duplicate", f"commits yielded more than once: {full}"))
        if fs - set(plain):
            bad.append(("C13:walk-paths:not-in-plain-walk", f"yielded {sorted(fs - set(plain))} which the walk without paths does not yield"))
        if (must & cand) - fs:
            m = sorted((must & cand) - fs)
            bad.append((f"C13:walk-paths:missing-commit:{merge(m)}", f"paths={list(filt)}: did not yield {m} which change(s) a file below the paths"))
        if fs & mustnot:
            m = sorted(fs & mustnot)
            bad.append((f"C13:walk-paths:extra-commit:{merge(m)}", f"paths={list(filt)}: yielded {m} whose files below the paths equal those of a parent"))
        # order: what the statement promises (no parent before its child in topological order), and - only where the
        # clock leaves no choice (all commit times distinct, parents older) - the order of the unrestricted walk.  With
        # tied times the two walks may break the tie differently: commits that link two shown commits are dropped before
        # the topological reordering sees them (first version demanded the same order always: over-reach, corrected)
        pos = {x: i for i, x in enumerate(full)}
        if not bad and q.get("order") == "topo":
            for x in full:
                pb = [p for p in g.parents[x] if p in pos and pos[p] < pos[x]]
                if pb:
                    bad.append(("C13:walk-paths:topo-parent-before-child", f"order=topo with paths yielded parent {pb[0]} before its child {x}: {full}"))
                    break
        if not bad and g.distinct_times and g.monotone and full != [x for x in plain if x in fs]:
            bad.append(("C13:walk-paths:order-differs-from-plain-walk", f"with paths {full}, without {plain} (all commit times distinct)"))
        if not bad and q.get("max_entries") is not None and got != full[: q["max_entries"]]:
            bad.append(("C13:walk-paths:max-entries-not-a-prefix", f"max_entries={q['max_entries']}: {got}, unlimited {full}"))
    for bucket, msg in bad:
        case = dict(parents=[list(ps) for ps in g.parents], times=list(g.times), salt=g.salt, edits=[[list(e) for e in es] for es in edits],
                    q=dict(q, paths=[f.decode() for f in filt]))
        ctx.fail(bucket, f"{msg}; walk={q} parents={[list(p) for p in g.parents]} listings={listings}", check, case)
    return got, full


def _paths_strategy(max_n):
    from hypothesis import strategies as st

    node = st.tuples(st.integers(0, 9), st.lists(st.integers(0, 11), min_size=5, max_size=5), st.integers(0, 4095))
    edit = st.tuples(st.integers(0, len(_PATHS) - 1), st.sampled_from([0, 1, 1, 2, 2, 3]))
    pick = st.integers(0, 1 << 20)
    n = st.integers(2, max_n)
    return n.flatmap(lambda k: st.tuples(
        st.sampled_from(_KINDS), st.sampled_from(("strict", "strict", "monotone-ties")), st.lists(node, min_size=k, max_size=k),
        st.lists(st.lists(edit, min_size=0, max_size=2), min_size=k, max_size=k),
        st.lists(st.tuples(st.sampled_from(_FILTERS), st.lists(pick, min_size=1, max_size=2), st.lists(pick, min_size=0, max_size=1),
                           st.sampled_from(["date", "topo"]), st.one_of(st.none(), st.integers(1, 4))), min_size=1, max_size=4)))


def execute_paths(ctx, value):
    kind, clock, nodes, edits, qs = value
    parents, times = interpret_dag(kind, clock, nodes)
    n = len(parents)
    listings = _paths_listings(parents, edits)
    g = build_paths_graph(parents, times, listings, b"p%d" % (ctx.seed % 7))
    for filt, inc, exc, order, maxe in qs:
        q = dict(paths=[f for f in filt], include=list(dict.fromkeys(_tipward(n, x) for x in inc)), order=order, max_entries=maxe)
        if exc:
            q["exclude"] = [x % n for x in exc]
        got, full = judge_paths_walk(ctx, g, edits, q)
        must, mustnot = _paths_expect(g, listings, tuple(filt))
        labels = ["op:walk(paths)", "paths:%d" % len(filt)]
        if not isinstance(full, tuple):
            if any(len(parents[x]) > 1 for x in full):
                labels.append("paths:merge-yielded")
            if any(len(parents[x]) > 1 for x in mustnot):
                labels.append("paths:merge-must-not")
            if len(must) + len(mustnot) < n:
                labels.append("paths:either-way-merge-present")
        near = any(not _under(p, filt) and any(p.startswith(f) for f in filt) for l in listings for p in l)
        if near:
            labels.append("paths:byte-prefix-neighbour-present")
        ctx.case(("P", parents, times, repr(edits), repr(sorted(q.items()))),
                 nontrivial=bool(must) and bool(mustnot) and not isinstance(full, tuple), labels=labels,
                 sample=dict(parents=parents, listings=[{k.decode(): v for k, v in l.items()} for l in listings],
                             q={k: ([f.decode() for f in v] if k == "paths" else v) for k, v in q.items()}) if n <= 5 else None)


def _part_paths(ctx, item):
    n_examples, max_n = item
    run_hypothesis(ctx, _paths_strategy(max_n), execute_paths, max_examples=n_examples, shrink=True)



def judge_independent_dups(ctx, g, args, check="independent-dups"):
    got = _run_graph_op(g, "ind", args)
    want = M.independent(g.anc, args)
    if isinstance(got, tuple):
        f = classify_graph_failure(g, "ind", args, got, want)
        bucket, msg = f
    elif set(got) == want:
        return
    elif want - set(got) and all(args.count(x) > 1 for x in want - set(got)):
        bucket = "C13:independent:duplicated-input-dropped"
        msg = f"independent{tuple(args)} = {got}, expected {sorted(want)}: a commit named twice eliminates itself"
    else:
        f = classify_graph_failure(g, "ind", tuple(dict.fromkeys(args)), got, want)
        if f is None:
            return
        bucket, msg = f
    case = g.base_case()
    case.update(args=list(args))
    ctx.fail(bucket, f"{msg}; parents={[list(p) for p in g.parents]}", check, case)


def _part_dups(ctx, item):
    for n in (1, 2, 3):
        for parents in M.shapes(n):
            times = [T0 + STEP * i for i in range(n)]
            g = build_fast(parents, times, b"d")
            for s in itertools.product(range(n), repeat=min(3, n + 1)):
                if len(set(s)) == len(s):
                    continue
                judge_independent_dups(ctx, g, s)
                ctx.case(("dups", parents, s), nontrivial=True, labels=["independent:duplicate-ids-in-input"])


# ---------------------------------------------------------------------------
# Part B2: long chains (longer than the walker's 5-commit slop) on tied / monotone clocks, every include/exclude pair


def _chain_shapes(L):
    chain = [()] + [(i - 1,) for i in range(1, L)]
    # a side branch that leaves at 1 and is merged back at L-2
    side = list(chain)
    side.append((1,))            # L
    side.append((L,))            # L+1
    side[L - 2] = (L - 3,)       # keep the numbering topological: the merge is a new tip instead
    side.append((L - 1, L + 1))  # L+2 = merge(tip, side)
    # two roots joined at the top
    two = list(chain) + [()] + [(L,)] + [(L - 1, L + 1)]
    return [("chain", chain), ("chain+side-branch", side), ("two-roots", two)]


def _part_chains(ctx, item):
    L, salt_i = item
    for name, parents in _chain_shapes(L):
        n = len(parents)
        depth = []
        for i, ps in enumerate(parents):
            depth.append(1 + max((depth[p] for p in ps), default=-1))
        clocks = {
            "all-equal": [0] * n,
            "pairs-equal": [d // 2 for d in depth],
            "triples-equal": [d // 3 for d in depth],
            "strict": list(depth) if name == "chain" else [2 * d + (i % 2) for i, d in enumerate(depth)],
        }
        for cname, ranks in clocks.items():
            times = [T0 + STEP * r for r in ranks]
            g = build_fast(parents, times, b"chain%d" % salt_i)
            if not g.monotone:
                raise HarnessError(f"chain clock {cname} is not monotone")
            nq = 0
            for a in range(n):
                for b in range(n):
                    if a == b:
                        continue
                    judge_walk(ctx, g, dict(include=[a], exclude=[b]))
                    nq += 1
                    if (a + b + salt_i) % 5 == 0:
                        judge_walk(ctx, g, dict(include=[a, (a + 3) % n], exclude=[b], order="topo"))
                        judge_walk(ctx, g, dict(include=[a], exclude=[b], since=times[min(a, b)]))
                        judge_walk(ctx, g, dict(include=[a], exclude=[b, (b + 2) % n], reverse=True))
                        nq += 3
                    judge_graph(ctx, g, "cff", (a, b))
                    nq += 1
                judge_walk(ctx, g, dict(include=[a], since=times[a // 2]))
                judge_walk(ctx, g, dict(include=[a], order="topo", max_entries=6))
                nq += 2
            ctx.case(None, nontrivial=True, n=nq, labels=["chains:" + name, "chains-clock:" + cname, "walk:exclude(monotone:exact)"],
                     sample=dict(shape=name, length=L, clock=cname) if salt_i == 0 and L == 9 else None)


# ---------------------------------------------------------------------------


def selftest(ctx):
    M.selftest()
    cgit.selfcheck()
    # the disk builder + git helpers on a hand-computed criss-cross with a skewed clock
    parents = [(), (0,), (0,), (1, 2), (1, 2), (3, 4)]
    times = [T0 + STEP * t for t in (5, 1, 2, 0, 3, 4)]
    g = build_disk(ctx, parents, times, b"self")
    try:
        if git_graph_op(g, "mb", (3, 4)) != {1, 2} or git_graph_op(g, "cff", (0, 5)) is not True or git_graph_op(g, "cff", (3, 4)):
            raise HarnessError("C13 self-test: git merge-base helper gives unexpected answers")
        if git_graph_op(g, "ind", (1, 3, 4)) != {3, 4} or git_graph_op(g, "oct", (3, 4, 2)) != {2}:
            raise HarnessError("C13 self-test: git independent/octopus helper gives unexpected answers")
        if set(git_walk(g, dict(include=[5]))) != set(range(6)) or set(git_walk(g, dict(include=[5], exclude=[3]))) != {4, 5}:
            raise HarnessError("C13 self-test: git rev-list helper gives unexpected answers")
        w = classify_walk(g, dict(include=[5], order="topo"), [5, 3, 1, 4, 2, 0])
        if not w or "topo-parent-before-child" not in w[0][0]:
            raise HarnessError("C13 self-test: topo constraint checker does not see parent 1 before child 4")
        if classify_walk(g, dict(include=[5], order="topo"), [5, 4, 3, 2, 1, 0]):
            raise HarnessError("C13 self-test: topo constraint checker rejects a valid order")
        if not classify_walk(g, dict(include=[5]), [5, 4, 3, 2, 1]) or not classify_walk(g, dict(include=[3]), [3, 1, 0, 2, 4]):
            raise HarnessError("C13 self-test: walk set checker misses a missing / unreachable commit")
    finally:
        g.repo.close()


def run(ctx):
    selftest(ctx)
    ctx.note("git_version", cgit.version())
    ctx.note("exhaustive", True)
    ctx.note("exhaustive_max_commits", ctx.scale(4, 5))
    if not ctx.thorough:
        ctx.note("n5_sample_fraction", "1/2 of shape x ordering (seed-dependent); can_fast_forward on all a<b, sampled other queries")
    ns = 16
    # n <= 4: everything; n = 5: core pairs on every graph x ordering, walks on a slice
    for n in (1, 2, 3, 4):
        M.shapes(n), M.orderings(n)
    M.shapes(5), M.orderings(5)
    import time  # evidence only (part timings); never used by an oracle

    def timed(name, fn, items):
        t = time.time()
        ctx.parallel(fn, items)
        ctx.note("wall_" + name, round(time.time() - t, 1))

    timed("exhaustive_n<=4", _part_exhaustive, [(n, "full", "full", 1, ns, k) for n in (1, 2, 3, 4) for k in range(ns)])
    if ctx.thorough:
        timed("exhaustive_n=5", _part_exhaustive, [(5, "full", (4, "full"), 1, ns * 4, k) for k in range(ns * 4)])
        M.shapes(6), M.orderings(6)
        ctx.note("n6_sample_fraction", "1/24 of shape x ordering (seed-dependent), sampled queries")
        timed("sampled_n=6", _part_exhaustive, [(6, (3, 1), (4, 8), 24, ns * 4, k) for k in range(ns * 4)])
    else:
        timed("exhaustive_n=5", _part_exhaustive, [(5, (0.5, 3), (16, 10), 2, ns * 4, k) for k in range(ns * 4)])
    timed("dups", _part_dups, [0])
    timed("chains", _part_chains, [(L, k) for L in ctx.scale((7, 9, 12), (7, 8, 9, 12, 16, 24)) for k in range(ctx.scale(4, 8))])
    timed("generated_memory", _part_generated, [(ctx.scale(150, 3000), ctx.scale(40, 300), False)] * 16)
    timed("walk_paths", _part_paths, [(ctx.scale(120, 2500), ctx.scale(9, 14))] * 16)
    timed("generated_disk_git", _part_generated, [(ctx.scale(40, 1200), ctx.scale(24, 60), True)] * 16)


def replay(ctx, check, case):
    if check == "graph":
        g = build(ctx, case)
        try:
            judge_graph(ctx, g, case["op"], tuple(case["args"]))
        finally:
            g.repo.close()
    elif check == "walk":
        g = build(ctx, case)
        try:
            judge_walk(ctx, g, case["q"])
        finally:
            g.repo.close()
    elif check == "git-walk":
        g = build(ctx, dict(case, backend="disk"))
        try:
            got = judge_walk(ctx, g, case["q"])
            judge_git_walk(ctx, g, case["q"], got)
        finally:
            g.repo.close()
    elif check == "commit-graph":
        g = build(ctx, dict(case, backend="disk"))
        try:
            if case["kind"] == "graph":
                q = (case["op"], tuple(case["args"]))
                before = _run_graph_op(g, *q)
            else:
                q = case["q"]
                before = _run_walk(g, q)
            g2 = with_commit_graph(g, case["backend"])
            g = g2
            judge_commit_graph(ctx, g2, case["kind"], q, before)
        finally:
            g.repo.close()
    elif check in ("graph-cut", "walk-cut"):
        g = build(ctx, case)
        try:
            g3 = cut_history(g, case["cut"][0], case["cut"][1])
            g = g3
            if check == "graph-cut":
                judge_graph(ctx, g3, case["op"], tuple(case["args"]), check=check)
            else:
                judge_walk(ctx, g3, case["q"], check=check)
        finally:
            g.repo.close()
    elif check == "walk-paths":
        parents = [tuple(ps) for ps in case["parents"]]
        edits = [[tuple(e) for e in es] for es in case["edits"]]
        g = build_paths_graph(parents, case["times"], _paths_listings(parents, edits), case["salt"])
        q = dict(case["q"], paths=[f.encode() for f in case["q"]["paths"]])
        judge_paths_walk(ctx, g, edits, q)
    elif check == "independent-dups":
        g = build(ctx, case)
        try:
            judge_independent_dups(ctx, g, tuple(case["args"]))
        finally:
            g.repo.close()
    else:
        raise HarnessError(f"unknown check {check!r}")
