"""C08 — ref updates are atomic compare-and-swap; concurrent commits are never lost."""

from __future__ import annotations

import gc
import itertools
import os
import shutil
import warnings

from ..core import HarnessError, h64
from ..gen import repos
from ..interpose import DFSExplorer, FixedSchedule, Interposer, PreemptAt, Scheduler

PROPERTY = "C08"
LEVEL = "exploration"
NEEDS_RUST = False
RULE = (
    "initial ref state = every assignment of {absent, loose, packed, loose-over-stale-packed} to the contended branch "
    "(plus a loose-only and a packed-only bystander ref, HEAD -> branch); 2 actors (3 for commits), each with its own "
    "Repo instance, run programs drawn from a catalogue of {set_if_equals, add_if_new, remove_if_equals, "
    "unconditional set/delete, read, as_dict, pack_refs(all), WorkTree.commit via HEAD}; schedules are enumerated by "
    "stateless DFS over scheduling points at every interposed file-system call on refs/, packed-refs and HEAD with a "
    "preemption bound (quick 2 capped per pair, thorough 3).  Oracle: the recorded history (call/return times, results) "
    "must be linearizable against a dict model (Wing-Gong search; an operation that raised is a no-op; a commit's "
    "parents must equal the branch value at its linearization point; final on-disk refs must equal the model's final "
    "state); readers never return a value that was never written to that ref, and refs no operation targets are never "
    "reported absent or different; every commit reported successful is an ancestor-or-self of the final tip.  "
    "Non-trivial = both actors touch the same ref and the schedule preempts an actor between its first and last event; "
    "distinct by (initial state, programs, schedule)."
)
ASSUMPTIONS = [
    "interleavings are between Python-level file-system calls of in-process actors with private caches; POSIX rename/O_EXCL semantics",
    "multi-ref listings (as_dict) are judged per ref, not as atomic snapshots (the statement does not promise snapshot reads)",
    "the in-memory commit path has no yield points and is not explored concurrently",
]

BR = b"refs/heads/a"
STABLE_LOOSE = b"refs/heads/stable"
STABLE_PACKED = b"refs/tags/st"
ZERO = b"0" * 40
ID = b"A U Thor <author@example.com>"


# ---------------------------------------------------------------------------
# template repository: three commits v0 <- v1 <- v2 and the initial ref layouts


def build_template(path, state):
    from dulwich.repo import Repo

    os.makedirs(path)
    r = Repo.init(path)
    try:
        s = r.object_store
        t = repos.mk_tree(s, {b"f": (0o100644, b"x\n")})
        vs = []
        parent = []
        for i in range(3):
            c = repos.mk_commit(t, parent, i)
            s.add_object(c)
            vs.append(c.id)
            parent = [c.id]
        r.refs[STABLE_PACKED] = vs[0]
        if state == "packed":
            r.refs[BR] = vs[0]
        elif state == "stale":
            r.refs[BR] = vs[1]  # will be shadowed by a loose v0 below
        r.refs.pack_refs(all=True)
        if state in ("loose", "stale"):
            r.refs[BR] = vs[0]
        r.refs[STABLE_LOOSE] = vs[1]
        r.refs.set_symbolic_ref(b"HEAD", BR)
        c = r.get_config()
        c.set((b"core",), b"logAllRefUpdates", b"false")
        c.set((b"gc",), b"auto", b"0")
        c.write_to_path()
    finally:
        r.close()
    return vs


# ---------------------------------------------------------------------------
# operations


def op_catalogue(vs):
    v0, v1, v2 = vs
    return {
        "cas(v0->v1)": ("cas", BR, v0, v1),
        "cas(v0->v2)": ("cas", BR, v0, v2),
        "cas(v1->v2)": ("cas", BR, v1, v2),
        "cas(zero->v1)": ("cas", BR, ZERO, v1),
        "add(v1)": ("add", BR, v1),
        "add(v2)": ("add", BR, v2),
        "rm(v0)": ("rm", BR, v0),
        "rm(None)": ("rm", BR, None),
        "set(v2)": ("set", BR, v2),
        "del": ("del", BR),
        "read": ("read", BR),
        "as_dict": ("as_dict",),
        "pack": ("pack",),
        "commit": ("commit",),
    }


def run_op(r, op, tag):
    k = op[0]
    if k == "cas":
        return r.refs.set_if_equals(op[1], op[2], op[3])
    if k == "add":
        return r.refs.add_if_new(op[1], op[2])
    if k == "rm":
        return r.refs.remove_if_equals(op[1], op[2])
    if k == "set":
        r.refs[op[1]] = op[2]
        return None
    if k == "del":
        del r.refs[op[1]]
        return None
    if k == "read":
        return r.refs[op[1]]
    if k == "as_dict":
        return dict(r.refs.as_dict())
    if k == "pack":
        r.refs.pack_refs(all=True)
        return None
    if k == "commit":
        t = r[r.refs[STABLE_LOOSE]].tree
        return r.get_worktree().commit(message=b"by " + tag + b"\n", committer=ID, author=ID, commit_timestamp=2000, commit_timezone=0,
                                       author_timestamp=2000, author_timezone=0, tree=t, no_verify=True)
    raise HarnessError(f"unknown op {op!r}")


def make_actor(path, name, ops, history, ip):
    def prog():
        from dulwich.repo import Repo

        with warnings.catch_warnings():
            warnings.simplefilter("ignore")
            r = Repo(path)
            try:
                for i, op in enumerate(ops):
                    start = len(ip.trace)
                    try:
                        res = ("ret", run_op(r, op, b"%s%d" % (name.encode(), i)))
                    except KeyError:
                        res = ("ret", "KeyError") if op[0] in ("read",) else ("exc", "KeyError")
                    except Exception as e:
                        res = ("exc", type(e).__name__)
                    history.append(dict(actor=name, op=op, start=start, end=len(ip.trace), res=res))
            finally:
                r.close()

    return prog


# ---------------------------------------------------------------------------
# model + linearizability


def model_apply(state, h, parents_of):
    """Apply operation record h to state (dict).  Returns (ok, new_state): ok False if h's result is impossible here."""
    op, res = h["op"], h["res"]
    k = op[0]
    if res[0] == "exc":
        return True, state  # a failed operation must be a no-op
    val = res[1]
    st = dict(state)
    if k == "cas":
        cur = st.get(op[1], ZERO)
        if op[2] is not None and cur != op[2]:
            return val is False, st
        st[op[1]] = op[3]
        return val is True, st
    if k == "add":
        if op[1] in st:
            return val is False, st
        st[op[1]] = op[2]
        return val is True, st
    if k == "rm":
        cur = st.get(op[1], ZERO)
        if op[2] is not None and cur != op[2]:
            return val is False, st
        st.pop(op[1], None)
        return val is True, st
    if k == "set":
        st[op[1]] = op[2]
        return True, st
    if k == "del":
        st.pop(op[1], None)
        return True, st
    if k == "read":
        return (val == st.get(op[1], "KeyError")), st
    if k in ("as_dict", "pack"):
        return True, st  # judged per ref elsewhere / identity
    if k == "commit":
        want = [st[BR]] if BR in st else []
        if parents_of(val) != want:
            return False, st
        st[BR] = val
        return True, st
    raise HarnessError(k)


def linearizable(initial, history, final, parents_of):
    """Wing-Gong: is there a total order consistent with real time in which every result is the model's?"""
    n = len(history)
    order_ok = [[not (history[j]["end"] <= history[i]["start"]) for j in range(n)] for i in range(n)]  # i may precede j unless j ended before i began

    def rec(done, state):
        if len(done) == n:
            return state == final
        for i in range(n):
            if i in done:
                continue
            # i can be next only if no pending op finished before i started
            if any(j not in done and j != i and history[j]["end"] <= history[i]["start"] for j in range(n)):
                continue
            ok, st = model_apply(state, history[i], parents_of)
            if ok and rec(done | {i}, st):
                return True
        return False

    return rec(frozenset(), dict(initial))


# ---------------------------------------------------------------------------
# one execution


def execute(ctx, template, vs, init_state, programs, strategy, case, check="sched"):
    from dulwich.repo import Repo

    work = ctx.scratch.new("c8")
    path = os.path.join(work, "repo")
    shutil.copytree(template, path, symlinks=True)
    gitdir = os.path.join(path, ".git")
    vis_prefix = (os.path.join(gitdir, "refs"), os.path.join(gitdir, "packed-refs"), os.path.join(gitdir, "HEAD"))

    def visible(ev):
        if ev.op == "start":
            return True
        for p in (ev.path, ev.path2):
            if p and p.startswith(vis_prefix):
                return True
        return False

    sched = Scheduler(strategy, visible=visible)
    ip = Interposer(work, sched)
    history = []
    initial = {STABLE_LOOSE: vs[1], STABLE_PACKED: vs[0]}
    if init_state != "absent":
        initial[BR] = vs[0]
    ip.install()
    try:
        results = sched.run(ip, [(n, make_actor(path, n, ops, history, ip)) for n, ops in programs])
    finally:
        ip.uninstall()
    gc.collect()
    for n, r in results.items():
        if r[0] != "ok":
            raise HarnessError(f"actor {n} crashed outside an operation: {r}")
    with warnings.catch_warnings():
        warnings.simplefilter("ignore")
        r = Repo(path)
        try:
            final = {k: v for k, v in r.refs.as_dict().items() if k != b"HEAD"}
            store = r.object_store

            def parents_of(cid):
                try:
                    return list(store[cid].parents)
                except KeyError:
                    return None

            targets = {h["op"][1] for h in history if h["op"][0] in ("cas", "add", "rm", "set", "del")}
            if any(h["op"][0] == "commit" for h in history):
                targets.add(BR)
            written = {}
            for name in initial:
                written.setdefault(name, set()).add(initial[name])
            for h in history:
                op = h["op"]
                if op[0] in ("cas", "add", "set"):
                    written.setdefault(op[1], set()).add(op[-1])
                if op[0] == "commit" and h["res"][0] == "ret":
                    written.setdefault(BR, set()).add(h["res"][1])
            names = "+".join(sorted({h["op"][0] for h in history}))
            # 1. readers: no torn value, bystander refs never absent/different
            for h in history:
                if h["res"][0] != "ret":
                    continue
                if h["op"][0] == "read" and h["res"][1] != "KeyError" and h["res"][1] not in written.get(BR, ()):
                    ctx.fail(f"C08:torn-read:{names}", f"read returned {h['res'][1]!r}, never written to {BR!r}", check, case)
                if h["op"][0] == "as_dict":
                    d = h["res"][1]
                    for name, v in d.items():
                        if name != b"HEAD" and v not in written.get(name, ()):
                            ctx.fail(f"C08:torn-read:{names}", f"as_dict returned {name!r}={v!r}, never written", check, case)
                    for name in initial:
                        if name not in targets and d.get(name) != initial[name]:
                            ctx.fail(f"C08:bystander-ref-disturbed:{names}",
                                     f"as_dict by {h['actor']} reports {name!r}={d.get(name)!r} although no operation targets it (value {initial[name]!r} throughout)", check, case)
            for name in initial:
                if name not in targets and final.get(name) != initial[name]:
                    ctx.fail(f"C08:bystander-ref-disturbed:{names}", f"{name!r} ended as {final.get(name)!r}, no operation targets it", check, case)
            # 2. commits: every successful commit is contained in the final history
            commits = [h["res"][1] for h in history if h["op"][0] == "commit" and h["res"][0] == "ret"]
            if commits and all(h["op"][0] in ("commit", "read", "as_dict", "pack") for h in history):
                anc = set()
                todo = [final[BR]] if BR in final else []
                while todo:
                    c = todo.pop()
                    if c in anc:
                        continue
                    anc.add(c)
                    todo.extend(parents_of(c) or [])
                lost = [c for c in commits if c not in anc]
                if lost:
                    ctx.fail("C08:lost-commit", f"{len(lost)} of {len(commits)} commits reported successful are not in the history of the final tip {final.get(BR)!r}", check, case)
            # 3. linearizability of the whole history
            if not linearizable(initial, history, final, parents_of):
                deleted = any(h["op"][0] in ("del", "rm") and h["res"] in (("ret", True), ("ret", None)) for h in history)
                packed = any(h["op"][0] == "pack" for h in history)
                others = any(h["op"][0] in ("cas", "add", "set", "commit") for h in history)
                if deleted and packed and not others and final.get(BR) == initial.get(BR):
                    names = "deleted-ref-resurrected-by-concurrent-pack_refs"
                brief = [(h["actor"], h["op"][0], h["res"][1] if h["res"][0] == "ret" and not isinstance(h["res"][1], dict) else h["res"][0]) for h in history]
                ctx.fail(f"C08:not-linearizable:{names}", f"no sequential order explains {brief} from {init_state} to final {final.get(BR)!r}", check, case)
        finally:
            r.close()
    trace = ip.trace
    preempted = _preempted(trace)
    shutil.rmtree(work, ignore_errors=True)
    return dict(preempted=preempted, n=len(trace), brief=[e.brief(path) for e in trace if visible(e)][:60],
                schedule=[c for _, c in sched.decisions])


def _preempted(trace):
    """True if some actor's events are interleaved with another's (between its first and last event)."""
    first, last = {}, {}
    for i, ev in enumerate(trace):
        first.setdefault(ev.actor, i)
        last[ev.actor] = i
    for i, ev in enumerate(trace):
        for a in first:
            if a != ev.actor and first[a] < i < last[a]:
                return True
    return False


# ---------------------------------------------------------------------------


def _explore(ctx, item):
    init_state, prog_names, bound, max_runs = item
    tdir = ctx.scratch.new("tmpl")
    template = os.path.join(tdir, "repo")
    vs = build_template(template, init_state)
    cat = op_catalogue(vs)
    programs = [(chr(ord("A") + i), [cat[n] for n in names]) for i, names in enumerate(prog_names)]
    import random

    n = 0
    seen = set()

    def one(strategy):
        nonlocal n
        case = dict(init=init_state, programs=[list(p) for p in prog_names], bound=bound)
        info = execute(ctx, template, vs, init_state, programs, strategy, case)
        sched = info["schedule"]
        case["schedule"] = sched
        n += 1
        key = tuple(sched)
        same_ref = sum(1 for names in prog_names if any(x not in ("as_dict",) for x in names)) >= 2
        ctx.case(h64("c8", init_state, repr(prog_names), key), nontrivial=info["preempted"] and same_ref,
                 labels=("run", "init:" + init_state, "ops:" + "|".join("+".join(p) for p in prog_names)) + (("preempted",) if info["preempted"] else ()),
                 sample=dict(init=init_state, programs=prog_names, schedule=sched, events=info["brief"]) if info["preempted"] and n % 40 == 3 else None)
        seen.add(key)
        return len(sched)

    # (1) every schedule with at most one preemption, (2) DFS with the full bound up to the cap,
    # (3) seeded random placements of 2-3 preemptions (DFS alone would only reach late preemption points under a cap)
    ex = DFSExplorer(1, max_runs=max_runs)
    steps = 1
    while ex.more():
        steps = max(steps, one(ex.next_run()))
        ex.done_run()
    exhaustive1 = ex.exhausted
    ex = DFSExplorer(bound, max_runs=max(0, max_runs - n))
    while ex.more():
        one(ex.next_run())
        ex.done_run()
    rnd = random.Random(h64(ctx.seed, init_state, repr(prog_names)))
    for _ in range(ctx.scale(20, 400) if not ex.exhausted else 0):
        k = rnd.choice([2, 2, 3])
        one(PreemptAt({rnd.randrange(steps): rnd.randrange(3) for _ in range(k)}))
    ctx.label("bound1-exhaustive" if exhaustive1 else "bound1-capped")
    ctx.label("exploration-exhaustive" if ex.exhausted else "exploration-capped")
    shutil.rmtree(tdir, ignore_errors=True)


def items(ctx):
    single = ["cas(v0->v1)", "cas(v0->v2)", "cas(v1->v2)", "cas(zero->v1)", "add(v1)", "rm(v0)", "rm(None)", "set(v2)", "del", "read", "as_dict", "pack", "commit"]
    out = []
    bound = ctx.scale(2, 3)
    cap = ctx.scale(80, 20000)
    states = ["absent", "loose", "packed", "stale"]
    pairs = list(itertools.combinations_with_replacement(single, 2))
    # drop pairs of two pure readers
    pairs = [p for p in pairs if not (p[0] in ("read", "as_dict") and p[1] in ("read", "as_dict"))]
    for st in states:
        for k, (a, b) in enumerate(pairs):
            if not ctx.thorough and (k + states.index(st) + ctx.seed) % 2:
                continue  # quick: every pair in two of the four initial layouts (rotating with the seed)
            if st == "absent" and a in ("rm(v0)", "cas(v0->v1)", "cas(v0->v2)") and b in ("rm(v0)", "cas(v0->v1)", "cas(v0->v2)"):
                continue
            out.append((st, [[a], [b]], bound, cap))
    # two-op programs: update then read back; pack then update
    for st in (["loose", "stale"] if not ctx.thorough else states):
        out.append((st, [["cas(v0->v1)", "read"], ["pack"]], bound, cap))
        out.append((st, [["pack", "read"], ["cas(v0->v1)"]], bound, cap))
        out.append((st, [["cas(v0->v1)", "cas(v1->v2)"], ["pack"]], bound, cap))
        out.append((st, [["commit", "commit"], ["commit"]], bound, cap))
        out.append((st, [["commit"], ["commit"], ["commit"]], ctx.scale(1, 2), cap))
        out.append((st, [["commit"], ["pack"], ["read"]], ctx.scale(1, 2), cap))
    # the first commit of a branch races with another first commit AND a packer: the rival's branch may be created and
    # packed between one actor's resolution of HEAD and its lock (three actors, one preemption)
    out.append(("absent", [["commit"], ["commit"], ["pack"]], ctx.scale(1, 2), ctx.scale(500, 20000)))
    out.append(("absent", [["add(v1)"], ["add(v2)"], ["pack"]], ctx.scale(1, 2), ctx.scale(300, 20000)))
    return out


def selftest(ctx):
    # the linearizability checker must reject a lost update and accept a serial history
    v = [b"1" * 40, b"2" * 40, b"3" * 40]
    init = {BR: v[0]}
    h_ok = [dict(actor="A", op=("cas", BR, v[0], v[1]), start=0, end=5, res=("ret", True)),
            dict(actor="B", op=("cas", BR, v[0], v[2]), start=2, end=8, res=("ret", False))]
    if not linearizable(init, h_ok, {BR: v[1]}, lambda c: None):
        raise HarnessError("linearizability checker rejects a valid history")
    h_bad = [dict(actor="A", op=("cas", BR, v[0], v[1]), start=0, end=5, res=("ret", True)),
             dict(actor="B", op=("cas", BR, v[0], v[2]), start=2, end=8, res=("ret", True))]
    if linearizable(init, h_bad, {BR: v[2]}, lambda c: None):
        raise HarnessError("linearizability checker accepts two successful CAS from the same old value")
    h_rt = [dict(actor="A", op=("set", BR, v[1]), start=0, end=3, res=("ret", None)),
            dict(actor="B", op=("read", BR), start=4, end=6, res=("ret", v[0]))]
    if linearizable(init, h_rt, {BR: v[1]}, lambda c: None):
        raise HarnessError("linearizability checker ignores real-time order")


def run(ctx):
    selftest(ctx)
    ctx.parallel(_explore, items(ctx))


def replay(ctx, check, case):
    if case.get("explore"):
        # a pinned schedule goes stale whenever the code under test gains or loses a file-system call; an *open*
        # finding is therefore re-found by exploring its scenario (same bounds as the search tier, larger cap)
        before = set(ctx.violations)
        _explore(ctx, (case["init"], [list(p) for p in case["programs"]], 2, 160))
        return
    tdir = ctx.scratch.new("tmpl")
    template = os.path.join(tdir, "repo")
    vs = build_template(template, case["init"])
    cat = op_catalogue(vs)
    programs = [(chr(ord("A") + i), [cat[n] for n in names]) for i, names in enumerate(case["programs"])]
    execute(ctx, template, vs, case["init"], programs, FixedSchedule(case.get("schedule", [])), case)
