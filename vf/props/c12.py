"""C12 — tree building, flattening, diffing and patching are mutually consistent.

Oracles (vf/model/c12_model.py is written from the git format documentation):

* build/flatten: commit_tree ids, stored tree bytes and Tree.items() order equal
  the reference model (itself checked against `git mktree` / `git write-tree`
  in the same run); permutation invariance; iter_tree_contents and
  tree_lookup_path agree with the listing.
* diff: tree_changes output is sound, complete, duplicate-free, applies to
  flat(A) giving flat(B), equals the model for every combination of
  want_unchanged / include_trees / change_type_same, and restricted to path
  filters behaves like `git diff-tree [-t] -- <paths>`.
* renames: RenameDetector results stay apply-sound and unique exact renames are
  found (the same ones `git diff-tree -M100%` reports).
* patching: commit_tree_changes(A, delta(A,B)) == id(B).
* all of it under both the Rust and the pure-Python twins of
  _merge_entries/_is_tree/_count_blocks/sorted_tree_items.
"""

from __future__ import annotations

import contextlib
import os
import random
from collections import Counter

from .. import cgit
from ..core import CpuLimit, HarnessError, cpu_limit, Violation, run_hypothesis
from ..gen import c12_gen as G
from ..model import c12_model as M
from ..model.c12_model import DIR, EMPTY_TREE, GITLINK, LNK, is_dir, ifmt

PROPERTY = "C12"
CASE_CPU_SECONDS = 20.0  # per implementation and pair of listings (<= a few dozen entries): normal cost is milliseconds
LEVEL = "exploration"
NEEDS_RUST = True
RULE = (
    "part A: exhaustive ordered pairs over an enumerated universe of listings built from the collision names a, a.b, a0 "
    "(thorough: also a-) with 'a' in {absent, file x/y, exec, symlink, gitlink, dir a/b, dir a/b/c}: 54 listings = 2916 "
    "pairs (thorough 264 = 69696), every want_unchanged/include_trees/change_type_same combination, 7 fixed path-filter "
    "sets (with want_unchanged=False, change_type_same=False), 5 RenameDetector configurations, 5 change-list shapes; "
    "every pair is also diffed by C git (plain, -t, -M100%, each filter set).  part B: Hypothesis pairs (quick 16x100, "
    "thorough 16x5000) of flat listings (1-14 puts over a name alphabet of bytes sorting around '/', depth <=5, modes "
    "100644/100755/120000/160000, a blob pool with a similarity ladder) related by edit scripts (add, delete, "
    "delete-directory, chmod, retype, modify, similar-modify, rename, similar-rename, copy, move-directory, swap, "
    "file->dir, dir->file), rename-centric scripts, independent pairs, identical, empty and None sides, x 0-3 path "
    "filters (a file, a directory, first byte / chopped name, missing name, below a file); a third also checked against "
    "C git.  part C: enumerated block shapes x chunkings for _count_blocks and modes for _is_tree.  Every pair runs under "
    "the Rust and the pure-Python twins.  Non-trivial = listings differ in >=2 paths and both contain sibling names where "
    "one is a prefix of the other (collision family), or a path changes type, or a directory disappears; distinct by "
    "(A id, B id, None sides, filters)."
)
ASSUMPTIONS = [
    "git 2.39.5 (mktree, write-tree, diff-tree --raw -z [-t] [-M100%] [--literal-pathspecs]) is the reference; the model "
    "is compared against it in every run and a disagreement is a harness error",
    "a change list is a set: removals (delete, rename source) are applied before additions",
    "listings are valid (no path is both an entry and a directory), names contain no NUL or '/', are not '.', '..', '.git'",
    "MemoryObjectStore is the object store; SHA-1 object format",
    "path filters are plain relative paths without trailing slash or glob magic; rename detection is not combined with path filters",
    "similarity-scored renames/copies are checked for soundness only",
]

F1_BUCKET = "C12:tree_changes:paths:nontree-entry-at-ancestor-of-filter"


# ---------------------------------------------------------------------------
# dulwich access, twins


class _D:
    ready = False


def D():
    if not _D.ready:
        import dulwich.diff_tree as dt
        import dulwich.index as di
        import dulwich.object_store as dos
        import dulwich.objects as do

        _D.dt, _D.do, _D.di, _D.dos = dt, do, di, dos
        _D.rust = (dt._merge_entries, dt._is_tree, dt._count_blocks, do.sorted_tree_items)
        _D.py = (dt._merge_entries_py, dt._is_tree_py, dt._count_blocks_py, do._sorted_tree_items_py)
        for r, p in zip(_D.rust, _D.py):
            if r is p:
                raise HarnessError(f"Rust twin of {p.__name__} is not loaded (NEEDS_RUST)")

        class CountingStore(dos.MemoryObjectStore):
            """Records which objects are fetched (to observe that identical subtrees are pruned)."""

            loaded = None

            def __getitem__(self, sha):
                if self.loaded is not None:
                    self.loaded.append(sha)
                return super().__getitem__(sha)

        _D.Store = CountingStore
        _D.blobs = [do.Blob.from_string(data) for data in G.POOL]
        _D.blob_ids = [M.blob_id(data) for data in G.POOL]
        for b, i in zip(_D.blobs, _D.blob_ids):
            if b.id != i:
                raise HarnessError("model blob id differs from dulwich Blob.id")
        _D.ready = True
    return _D


@contextlib.contextmanager
def use_impl(name):
    d = D()
    fns = d.rust if name == "rust" else d.py
    # whatever the runner's per-shard AUTO_TWINS mode bound is put back afterwards (it also alternates parse_tree,
    # which this module does not drive itself)
    saved = (d.dt._merge_entries, d.dt._is_tree, d.dt._count_blocks, d.do.sorted_tree_items)
    d.dt._merge_entries, d.dt._is_tree, d.dt._count_blocks, d.do.sorted_tree_items = fns
    try:
        yield
    finally:
        d.dt._merge_entries, d.dt._is_tree, d.dt._count_blocks, d.do.sorted_tree_items = saved


def resolve(spec):
    d = D()
    L = {}
    for p, (m, r) in G.from_spec(spec).items():
        L[p] = (m, d.blob_ids[r] if isinstance(r, int) else r)
    return L


def te(e):
    return None if e is None else (e.path, e.mode, e.sha)


def norm(changes):
    return [(c.type, te(c.old), te(c.new)) for c in changes]


# ---------------------------------------------------------------------------
# failure plumbing


class _CaseFailed(Exception):
    pass


class _Excluded(Exception):
    """The failure just reported is an excluded known finding: skip what depended on it."""


class Failer:
    def __init__(self, ctx, check, case):
        self.ctx, self.check, self.case = ctx, check, case
        self.impl = "?"

    def __call__(self, what, msg):
        bucket = what if what.startswith("C12:") else "C12:" + what
        if self.ctx.fail(bucket, f"[{self.impl}] {msg}", self.check, self.case):
            raise _CaseFailed()
        raise _Excluded()  # a known finding: the caller skips whatever depended on this result

    def call(self, site, fn, *a, bucket=None, **kw):
        """Run a dulwich entry point; an exception is an outcome of the code under test."""
        try:
            return fn(*a, **kw)
        except (HarnessError, Violation, _CaseFailed):
            raise
        except Exception as e:
            b = bucket(e) if bucket is not None else f"{site}:exception:{type(e).__name__}"
            self(b, f"{site} raised {type(e).__name__}: {e}")


# ---------------------------------------------------------------------------
# classification of a pair (labels, non-triviality)


def _siblings(built):
    for path, (_tid, es, _b) in built.trees.items():
        yield path, es


def has_family(built) -> bool:
    for _p, es in _siblings(built):
        names = sorted(e[0] for e in es)
        for i in range(len(names) - 1):
            if names[i + 1].startswith(names[i]):
                return True
    return False


def sort_sensitive(built) -> bool:
    """Some tree's canonical order differs from plain name order."""
    for _p, es in _siblings(built):
        if [e[0] for e in es] != sorted(e[0] for e in es):
            return True
    return False


_KIND = {0o100000: "file", 0o120000: "symlink", 0o160000: "gitlink", 0o040000: "dir"}


def classify(A, B, bA, bB, case):
    labels = set()
    ndiff = sum(1 for p in set(A) | set(B) if A.get(p) != B.get(p))
    famA, famB = has_family(bA), has_family(bB)
    if famA and famB:
        labels.add("collision-family-both-sides")
    if sort_sensitive(bA) or sort_sensitive(bB):
        labels.add("tree-order!=name-order")
    type_change = False
    for p in set(bA.full) & set(bB.full):
        (m1, s1), (m2, s2) = bA.full[p], bB.full[p]
        if ifmt(m1) != ifmt(m2):
            type_change = True
            labels.add("type:" + "<->".join(sorted((_KIND.get(ifmt(m1), "?"), _KIND.get(ifmt(m2), "?")))))
        elif m1 != m2 and s1 == s2:
            labels.add("mode-only-change")
    gone = [p for p in bA.trees if p and p not in bB.full]
    if gone:
        labels.add("directory-emptied/removed")
    if bA.root != bB.root and any(p and bB.trees.get(p, (None,))[0] == t[0] for p, t in bA.trees.items()):
        labels.add("identical-subtree-pruned")
    if any(p.count(b"/") >= 3 for p in list(A) + list(B)):
        labels.add("depth>=4")
    if case.get("a_none") or case.get("b_none"):
        labels.add("None-tree-side")
    if bA.root == bB.root:
        labels.add("identical-trees")
    if case.get("filters"):
        labels.add("with-path-filters")
    nontrivial = (ndiff >= 2 and famA and famB) or type_change or bool(gone)
    return labels, nontrivial


# ---------------------------------------------------------------------------
# oracle pieces


def path_of(c):
    return (c[1] or c[2])[0]


def _coll(path, LA, LB):
    """Is path involved in a file/directory collision between the two listings?"""
    pre = path + b"/"
    for L in (LA, LB):
        for q in L:
            if q.startswith(pre) or path.startswith(q + b"/"):
                if not (q in L and is_dir(L[q][0])):
                    return "+file/dir-collision"
    return ""


def check_changes(F0, site, changes, LA, LB, wu, cts, model, renames=False, ctxmsg=""):
    """The statement's relations for one tree_changes result (no path filter)."""

    def F(bucket, msg):
        return F0(bucket, ctxmsg + msg)

    allowed = {"add", "delete", "modify"} | ({"unchanged"} if wu else set()) | ({"rename", "copy"} if renames else set())
    for c in changes:
        t, o, n = c
        ok = t in allowed
        if t == "add":
            ok = ok and o is None and n is not None
        elif t == "delete":
            ok = ok and n is None and o is not None
        elif t == "modify":
            ok = ok and o is not None and n is not None and o[0] == n[0] and o != n
        elif t == "unchanged":
            ok = ok and o is not None and o == n
        elif t in ("rename", "copy"):
            ok = ok and o is not None and n is not None
        if not ok:
            F(f"{site}:malformed-change:{t}", f"malformed or unexpected change {c!r} (want_unchanged={wu})")
        if not renames and t == "modify" and not cts and ifmt(o[1]) != ifmt(n[1]):
            F(f"{site}:type-change-not-split", f"change_type_same=False but {c!r} changes the file type in one entry")
        if o is not None and LA.get(o[0]) != (o[1], o[2]):
            F(f"{site}:old-entry-not-in-source-tree", f"{c!r}: old entry is not in the source tree (there: {LA.get(o[0])!r})")
        if n is not None and LB.get(n[0]) != (n[1], n[2]):
            F(f"{site}:new-entry-not-in-target-tree", f"{c!r}: new entry is not in the target tree (there: {LB.get(n[0])!r})")
    if not renames and M.per_path(changes) is None:
        F(f"{site}:path-mentioned-twice", f"a path occurs twice on the same side in {changes!r}")
    res, problems = M.apply_changes(LA, changes)
    if problems:
        F(f"{site}:{problems[0][0]}", f"{problems[0]!r} in {changes!r}")
    if res != LB:
        bad = sorted(p for p in set(res) | set(LB) if res.get(p) != LB.get(p))
        p = bad[0]
        if p not in res:
            kind = "add-or-modify-missed" if p not in LA else "wrongly-removed"
        elif p not in LB:
            kind = "delete-missed" if p in LA else "wrongly-added"
        else:
            kind = "stale-entry"
        F(
            f"{site}:apply-mismatch:{kind}{_coll(p, LA, LB)}",
            f"changes applied to flat(A) do not give flat(B): at {p!r} got {res.get(p)!r} want {LB.get(p)!r}; changes={changes!r}",
        )
    if wu:
        rep = {c[1][0] for c in changes if c[0] == "unchanged"}
        newp = {c[2][0] for c in changes if c[2] is not None}
        miss = [p for p in LA if LB.get(p) == LA[p] and p not in rep and p not in newp]
        if miss:
            F(f"{site}:want_unchanged-incomplete", f"unchanged path {miss[0]!r} not reported with want_unchanged=True")
    if not renames:
        if cts:
            for t, o, n in changes:
                if t == "delete" and o[0] in LB:
                    F(f"{site}:change_type_same-ignored", f"change_type_same=True but {o[0]!r} is reported as delete+add")
        if Counter(changes) != Counter(model):
            extra = list((Counter(changes) - Counter(model)).elements())
            missing = list((Counter(model) - Counter(changes)).elements())
            F(f"{site}:differs-from-model", f"unexpected {extra!r}, missing {missing!r}")


def split_filtered(changes, filters, it):
    """Partition a filtered result: (inside filter, allowed ancestor-tree changes, F1-style extras, other)."""
    inside, anc_ok, f1, other = [], [], [], []
    for c in changes:
        p = path_of(c)
        if any(M.under(p, f) for f in filters):
            inside.append(c)
            continue
        anc = p == b"" or any(M.proper_ancestor(p, f) for f in filters)
        sides = [s for s in (c[1], c[2]) if s is not None]
        if anc and it and all(is_dir(s[1]) for s in sides):
            anc_ok.append(c)
        elif anc and any(not is_dir(s[1]) for s in sides):
            f1.append(c)
        else:
            other.append(c)
    return inside, anc_ok, f1, other


def check_filtered(F, changes, model_unfiltered, filters, LA, LB, it):
    site = "tree_changes:paths"
    inside, anc_ok, f1, other = split_filtered(changes, filters, it)
    required = [c for c in model_unfiltered if any(M.under(path_of(c), f) for f in filters)]
    if Counter(inside) != Counter(required):
        extra = list((Counter(inside) - Counter(required)).elements())
        missing = list((Counter(required) - Counter(inside)).elements())
        kind = "missing" if missing else "extra"
        F(f"{site}:wrong-inside-filter:{kind}", f"paths={filters!r}: unexpected {extra!r}, missing {missing!r} relative to the unfiltered diff")
    if other:
        F(f"{site}:change-outside-filter", f"paths={filters!r}: {other[0]!r} is neither under a filter nor a parent tree of one")
    for t, o, n in anc_ok:
        if (o is not None and LA.get(o[0]) != (o[1], o[2])) or (n is not None and LB.get(n[0]) != (n[1], n[2])):
            F(f"{site}:ancestor-entry-not-in-tree", f"paths={filters!r}: {(t, o, n)!r}")
    if f1:
        F(
            F1_BUCKET,
            f"paths={filters!r}: {f1[0]!r} is reported although its path is only a parent of a filter path and the entry "
            f"is not a tree (git diff-tree -- <paths> does not report it)",
        )


def unique_exact_renames(A, B):
    """(old path, new path) pairs every exact-rename detector must find: one
    source and one destination carry the id, both sides really moved."""
    dm = M.diff_model(A, B)
    srcs, dsts = {}, {}
    for t, o, n in dm:
        if o is not None:
            srcs.setdefault(o[2], []).append((t, o))
        if n is not None:
            dsts.setdefault(n[2], []).append((t, n))
    out = []
    for sha, ss in srcs.items():
        ds = dsts.get(sha, [])
        if len(ss) != 1 or len(ds) != 1 or sha == M.EMPTY_BLOB:
            continue
        (ts, o), (td, n) = ss[0], ds[0]
        if ts != "delete" or td != "add" or o[0] in B or n[0] in A:
            continue
        if ifmt(o[1]) != ifmt(n[1]):
            continue
        out.append((o, n))
    return out


RENAME_CONFIGS = [
    ("default", {}),
    ("copies-harder", dict(find_copies_harder=True)),
    ("thr30-rewrite50", dict(rename_threshold=30, rewrite_threshold=50)),
    ("thr100", dict(rename_threshold=100)),
    ("thr60-rewrite80", dict(rename_threshold=60, rewrite_threshold=80)),
    ("maxfiles0-harder-rewrite60", dict(max_files=0, find_copies_harder=True, rewrite_threshold=60)),
]


def delta(A, B):
    dels = [(p, None, None) for p in A if p not in B]
    sets = [(p, m, s) for p, (m, s) in B.items() if A.get(p) != (m, s)]
    return dels, sets


def delta_shape(changes):
    sets = [p for p, m, s in changes if s is not None and not is_dir(m)]
    for p in sets:
        if any(s is None and q.startswith(p + b"/") for q, m, s in changes):
            return "dir-replaced-by-nondir+child-deletes"
    return "other"


# ---------------------------------------------------------------------------
# the per-implementation run


def run_impl(F, case, A, B, bA, bB, a_id, b_id, labels):
    d = D()
    store = d.Store()
    for spec in (case["A"], case["B"]):
        for _p, _m, r in spec:
            if isinstance(r, int):
                store.add_object(d.blobs[r])
    rnd = random.Random(case.get("perm", 0))  # deterministic function of the case
    out = {}

    # -- 1. build / flatten / lookup -----------------------------------------
    for side, L, b in (("A", A, bA), ("B", B, bB)):
        items = [(p, s, m) for p, (m, s) in sorted(L.items())]
        tid = F.call("commit_tree", d.di.commit_tree, store, items)
        if tid != b.root:
            F("commit_tree:id-differs-from-git", f"commit_tree({items!r}) = {tid!r}, git mktree gives {b.root!r}")
        shuffled = list(items)
        rnd.shuffle(shuffled)
        for perm in (items[::-1], shuffled):
            t2 = F.call("commit_tree", d.di.commit_tree, store, perm)
            if t2 != tid:
                F("commit_tree:order-dependent", f"commit_tree gives {tid!r} for sorted input and {t2!r} for {perm!r}")
        for dpath, (xid, es, body) in b.trees.items():
            if xid not in store:
                F("commit_tree:tree-not-stored", f"tree for directory {dpath!r} ({xid!r}) was not added to the store")
            t = store[xid]
            got = [(e.path, e.mode, e.sha) for e in F.call("Tree.items", t.items)]
            if got != es:
                F("Tree.items:not-git-order", f"Tree.items() of {dpath!r} = {got!r}, git order is {es!r}")
            raw = F.call("Tree.as_raw_string", t.as_raw_string)
            if raw != body:
                F("Tree.serialize:differs-from-git", f"tree {dpath!r} serialises to {raw!r}, git has {body!r}")
        for it in (False, True):
            ents = F.call("iter_tree_contents", lambda: list(d.dos.iter_tree_contents(store, tid, include_trees=it)))
            flat = {e.path: (e.mode, e.sha) for e in ents}
            want = b.full if it else L
            if len(flat) != len(ents):
                F("iter_tree_contents:duplicate-path", f"a path is yielded twice: {[e.path for e in ents]!r}")
            if flat != want:
                bad = sorted(p for p in set(flat) | set(want) if flat.get(p) != want.get(p))
                F(f"iter_tree_contents:differs-from-listing:include_trees={it}", f"at {bad[0]!r}: got {flat.get(bad[0])!r} want {want.get(bad[0])!r}")
        for p, ms in b.full.items():
            got = F.call("tree_lookup_path", d.dos.tree_lookup_path, store.__getitem__, tid, p)
            if tuple(got) != ms:
                F("tree_lookup_path:wrong-entry", f"tree_lookup_path({p!r}) = {got!r}, listing has {ms!r}")
        probes = set()
        for p in L:
            dn = G.dirname(p)
            pre = dn + b"/" if dn else b""
            base = p[len(pre):]
            probes.update((p + b"/zz", pre + base[:1], pre + base + b"0", pre + b"zz"))
        for p in sorted(probes - set(b.full)):
            try:
                got = d.dos.tree_lookup_path(store.__getitem__, tid, p)
            except Exception:
                continue
            F("tree_lookup_path:finds-absent-path", f"tree_lookup_path({p!r}) = {got!r} but the listing has no such path")

    # -- 2. diffs ---------------------------------------------------------------
    fsets = []
    if case.get("filters"):
        fsets = [list(case["filters"])] + ([[f] for f in case["filters"]] if len(case["filters"]) > 1 else [])
    fsets_all_flags = len(fsets)
    fsets += [list(f) for f in case.get("filter_sets", [])]  # part A: only with change_type_same=False, want_unchanged=False
    fullA = {} if a_id is None else bA.full
    fullB = {} if b_id is None else bB.full
    for wu in (False, True):
        for it in (False, True):
            LA, LB = (fullA, fullB) if it else (A, B)
            for cts in (False, True):
                model = M.diff_model(LA, LB, wu, cts)
                store.loaded = []
                ch = norm(F.call("tree_changes", lambda: list(d.dt.tree_changes(store, a_id, b_id, want_unchanged=wu, include_trees=it, change_type_same=cts))))
                loaded, store.loaded = set(store.loaded), None
                if not wu and a_id is not None and b_id is not None:
                    # identical subtrees must be pruned, not walked (ids that also occur at a non-identical place do not count)
                    ida = {p: t[0] for p, t in bA.trees.items()}
                    idb = {p: t[0] for p, t in bB.trees.items()}
                    same = {t for p, t in ida.items() if idb.get(p) == t}
                    same -= {t for p, t in ida.items() if idb.get(p) != t} | {t for p, t in idb.items() if ida.get(p) != t}
                    if same & loaded:
                        try:
                            F("tree_changes:identical-subtree-not-pruned", f"tree_changes fetched {sorted(same & loaded)!r}, trees that are identical at the same path on both sides")
                        except _Excluded:
                            pass
                try:
                    check_changes(F, "tree_changes", ch, LA, LB, wu, cts, model)
                except _Excluded:
                    pass
                out["diff", wu, it, cts] = ch
                if wu == it:  # the BaseObjectStore.tree_changes wrapper (what porcelain calls) must say the same
                    w = F.call("store.tree_changes", lambda: list(store.tree_changes(a_id, b_id, want_unchanged=wu, include_trees=it, change_type_same=cts)))
                    flat = [((o and o[0], n and n[0]), (o and o[1], n and n[1]), (o and o[2], n and n[2])) for _t, o, n in ch]
                    if w != flat:
                        try:
                            F("store.tree_changes:differs-from-tree_changes", f"store.tree_changes gives {w!r}, tree_changes {ch!r}")
                        except _Excluded:
                            pass
                for fs in fsets if not (cts or wu) else fsets[:fsets_all_flags]:
                    chf = norm(F.call("tree_changes:paths", lambda: list(d.dt.tree_changes(store, a_id, b_id, want_unchanged=wu, include_trees=it, change_type_same=cts, paths=fs))))
                    try:
                        check_filtered(F, chf, model, fs, LA, LB, it)
                    except _Excluded:
                        pass
                    out["diff", wu, it, cts, tuple(fs)] = chf

    # the twins on every directory pair
    for dpath in sorted(set(bA.trees) | set(bB.trees)):
        t1 = store[bA.trees[dpath][0]] if dpath in bA.trees else d.do.Tree()
        t2 = store[bB.trees[dpath][0]] if dpath in bB.trees else d.do.Tree()
        e1 = {n: (m, s) for n, m, s in bA.trees[dpath][1]} if dpath in bA.trees else {}
        e2 = {n: (m, s) for n, m, s in bB.trees[dpath][1]} if dpath in bB.trees else {}
        want = M.merge_entries_model(dpath, e1, e2)
        got = [(te(x), te(y)) for x, y in F.call("_merge_entries", d.dt._merge_entries, dpath, t1, t2)]
        if got != want:
            F("_merge_entries:differs-from-model", f"_merge_entries({dpath!r}) = {got!r}, expected {want!r}")

    # -- 3. rename detection ------------------------------------------------------
    gitlink_ids = {s for L in (A, B) for (m, s) in L.values() if m == GITLINK}

    def rd_bucket(e):
        if isinstance(e, KeyError) and e.args and e.args[0] in gitlink_ids:
            return "RenameDetector:KeyError:gitlink-id-looked-up-in-store"
        return f"RenameDetector:exception:{type(e).__name__}"

    if a_id is not None and b_id is not None:
        uniq = unique_exact_renames(A, B)
        if uniq:
            labels.add("unique-exact-rename")
        for cname, cfg in RENAME_CONFIGS:
            for wu in (False, True):
                for it in (False, True):
                    if it and (wu or cname not in ("default", "copies-harder")):
                        continue
                    LA, LB = (fullA, fullB) if it else (A, B)
                    rd = d.dt.RenameDetector(store, **cfg)
                    try:
                        ch = norm(F.call(f"RenameDetector[{cname}]", lambda: list(d.dt.tree_changes(store, a_id, b_id, want_unchanged=wu, include_trees=it, rename_detector=rd)), bucket=rd_bucket))
                        check_changes(F, "renames", ch, LA, LB, wu, False, None, renames=True, ctxmsg=f"RenameDetector({cfg!r}), want_unchanged={wu}, include_trees={it}: ")
                    except _Excluded:
                        continue
                    kinds = {c[0] for c in ch}
                    if "rename" in kinds:
                        labels.add("rename-reported")
                    if "copy" in kinds:
                        labels.add("copy-reported")
                    if any(c[0] in ("rename", "copy") and c[1][2] != c[2][2] for c in ch):
                        labels.add("similarity-rename-reported")
                    if not cfg.get("find_copies_harder"):
                        for o, n in uniq:
                            if ("rename", o, n) not in ch:
                                try:
                                    F("renames:unique-exact-rename-missed", f"RenameDetector({cfg!r}): {o!r} -> {n!r} is the only candidate for its id but is not reported as a rename: {ch!r}")
                                except _Excluded:
                                    pass
                    out["ren", cname, wu, it] = sorted(ch, key=repr)

    # -- 4. patching -----------------------------------------------------------------
    if a_id is not None:
        dels, sets = delta(A, B)
        full = sorted(dels + sets)
        shuffled = list(full)
        rnd.shuffle(shuffled)
        minimal = [c for c in full if not (c[2] is None and any(c[0].startswith(p + b"/") for p, m, s in sets))]
        variants = [("full-sorted", full, False), ("full-reversed", full[::-1], True), ("full-shuffled", shuffled, False), ("minimal", minimal, False)]
        graft = [p for p in sorted(bB.trees, key=lambda p: (p.count(b"/"), p)) if p and bA.trees.get(p, (None,))[0] != bB.trees[p][0]]
        if graft:
            g = graft[case.get("perm", 0) % len(graft)]
            labels.add("patch-with-subtree-graft")
            variants.append(("graft", [c for c in minimal if not M.under(c[0], g)] + [(g, DIR, bB.trees[g][0])], False))
        if len(minimal) != len(full):
            labels.add("patch-dir-replaced-by-file")
        want = bB.root
        for vname, chs, as_obj in variants:
            src = store[a_id] if as_obj else a_id
            try:
                try:
                    got = d.dos.commit_tree_changes(store, src, chs)
                except Exception as e:
                    shape = delta_shape(chs)
                    b = f"commit_tree_changes:raises:{shape}" if shape != "other" else f"commit_tree_changes:{type(e).__name__}:other"
                    F(b, f"commit_tree_changes(A, {chs!r}) raised {type(e).__name__}: {e}")
                if got != want:
                    F(f"commit_tree_changes:wrong-tree:{vname if vname in ('graft', 'minimal') else 'full'}", f"commit_tree_changes(A, {chs!r}) = {got!r}, rebuilding from the changed listing gives {want!r}")
                flat = {e.path: (e.mode, e.sha) for e in F.call("commit_tree_changes:flatten-result", lambda: list(d.dos.iter_tree_contents(store, got)))}
                if flat != B:
                    F("commit_tree_changes:result-not-stored-or-wrong", f"flattening the result of commit_tree_changes gives {flat!r}")
            except _Excluded:
                continue
        flat = {e.path: (e.mode, e.sha) for e in d.dos.iter_tree_contents(store, a_id)}
        if flat != A:
            F("commit_tree_changes:source-tree-corrupted", f"after commit_tree_changes the source tree flattens to {flat!r}")
    return out


# ---------------------------------------------------------------------------
# C git side


class GitSide:
    def __init__(self, ctx):
        d = D()
        self.dir = ctx.scratch.new("git")
        self.repo = cgit.init(os.path.join(self.dir, "r.git"), bare=True)
        names = []
        for i, data in enumerate(G.POOL):
            fn = os.path.join(self.dir, f"blob{i}")
            with open(fn, "wb") as f:
                f.write(data)
            names.append(fn.encode())
        ids = cgit.out(["hash-object", "-w", "--stdin-paths"], cwd=self.repo, input=b"\n".join(names) + b"\n").split()
        if ids != d.blob_ids:
            raise HarnessError("git hash-object disagrees with the model blob ids")
        self.have = set()
        self.index = os.path.join(self.dir, "index")
        self.mktrees([(EMPTY_TREE, [])])

    def mktrees(self, trees):
        """trees: (model id, entries) children first; verifies the model against git mktree."""
        todo = []
        for tid, es in trees:
            if tid not in self.have and tid not in [t for t, _ in todo]:
                todo.append((tid, es))
        if not todo:
            return
        inp = bytearray()
        for tid, es in todo:
            for n, m, s in es[::-1]:  # deliberately not in canonical order: mktree sorts
                typ = b"tree" if is_dir(m) else (b"commit" if m == GITLINK else b"blob")
                inp += b"%06o %s %s\t%s\0" % (m, typ, s, n)
            inp += b"\0"
        got = cgit.out(["mktree", "-z", "--batch", "--missing"], cwd=self.repo, input=bytes(inp)).split()
        want = [tid for tid, _ in todo]
        if got != want:
            bad = [(w, g, es) for (w, es), g in zip(todo, got) if w != g][:1]
            raise HarnessError(f"reference tree model disagrees with git mktree: {bad!r}")
        self.have.update(want)

    def ensure(self, built):
        order = sorted(built.trees, key=lambda p: -p.count(b"/") if p else 1)  # deeper first, root last
        self.mktrees([(built.trees[p][0], built.trees[p][1]) for p in order])

    def check_order_bytes(self, built):
        """git's stored bytes (hence its entry order) equal the model's."""
        ids = [t[0] for t in built.trees.values()]
        objs = cgit.cat_file_batch(self.repo, ids)
        for p, (tid, es, body) in built.trees.items():
            if objs.get(tid) is None or objs[tid][1] != body or M.parse_raw_tree(objs[tid][1]) != es:
                raise HarnessError(f"model tree bytes differ from git's for {p!r}")

    def write_tree(self, listing):
        if os.path.exists(self.index):
            os.unlink(self.index)
        env = {"GIT_INDEX_FILE": self.index}
        inp = b"".join(b"%06o %s\t%s\0" % (m, s, p) for p, (m, s) in listing.items())
        cgit.git(["update-index", "-z", "--index-info"], cwd=self.repo, input=inp, extra_env=env)
        return cgit.out(["write-tree", "--missing-ok"], cwd=self.repo, extra_env=env).strip()

    def diff(self, pairs, t=False, renames=False, paths=None):
        args = ["diff-tree", "--stdin", "-r", "--raw", "-z", "--no-abbrev", "-M100%" if renames else "--no-renames"]
        if t:
            args.append("-t")
        pre = []
        if paths:
            pre = ["--literal-pathspecs"]
            args += ["--"] + [bytes(p) for p in paths]
        inp = b"".join(b"%s %s\n" % (a, b) for a, b in pairs)
        data = cgit.out(pre + args, cwd=self.repo, input=inp)
        try:
            return M.parse_difftree_stdin(data, len(pairs))
        except ValueError as e:
            raise HarnessError(f"cannot parse git diff-tree output: {e}")


def git_records_to_changes(recs):
    out = []
    for st, o, n in recs:
        k = st[0]
        t = {"A": "add", "D": "delete", "M": "modify", "T": "modify", "R": "rename", "C": "copy"}.get(k)
        if t is None:
            raise HarnessError(f"unexpected diff-tree status {st!r}")
        out.append((t, o, n))
    return out


def _drop_root(d):
    return {p: v for p, v in d.items() if p != b""}


def git_verify(F, git, items):
    """items: dicts(A, B, bA, bB, a_none, b_none, out, fsets).  One git process per
    (flag, filter set) for the whole batch.  Model-vs-git disagreements are
    harness errors; dulwich-vs-git disagreements are reported per item."""
    for it in items:
        git.ensure(it["bA"])
        git.ensure(it["bB"])
    pairs = [(it["bA"].root, it["bB"].root) for it in items]
    for t in (False, True):
        got = git.diff(pairs, t=t)
        for it, recs in zip(items, got):
            LA, LB = (it["bA"].full, it["bB"].full) if t else (it["A"], it["B"])
            want = M.per_path(M.diff_model(LA, LB, False, True))
            have = M.per_path(git_records_to_changes(recs))
            if have is None or _drop_root(want) != have:
                raise HarnessError(f"diff model disagrees with git diff-tree (t={t}) on {it['case']!r}: git {have!r} model {want!r}")
    # renames: unique exact renames must be among git's R100
    got = git.diff(pairs, renames=True)
    for it, recs in zip(items, got):
        r100 = {(o, n) for st, o, n in recs if st == "R100"}
        for o, n in unique_exact_renames(it["A"], it["B"]):
            if (o, n) not in r100:
                raise HarnessError(f"git -M100% does not report the unique exact rename {o!r}->{n!r} on {it['case']!r}: {recs!r}")
    # path filters
    by_fs = {}
    for it in items:
        for fs in it["fsets"]:
            by_fs.setdefault(tuple(fs), []).append(it)
    for fs, its in by_fs.items():
        ps = [(it["bA"].root, it["bB"].root) for it in its]
        for t in (False, True):
            got = git.diff(ps, t=t, paths=list(fs))
            for it, recs in zip(its, got):
                have = M.per_path(git_records_to_changes(recs))
                if have is None:
                    raise HarnessError(f"git reports a path twice: {recs!r}")
                ch = it["out"].get(("diff", False, t, False, fs))
                if ch is None:
                    continue
                F.case = it["case"]
                inside, anc_ok, f1, other = split_filtered(ch, list(fs), t)
                mine = M.per_path(inside + anc_ok)
                if mine is None:
                    continue
                if not t:
                    LA, LB = it["A"], it["B"]
                    model = M.per_path([c for c in M.diff_model(LA, LB, False, True) if any(M.under(path_of(c), f) for f in fs)])
                    if model != have:
                        raise HarnessError(f"filter model disagrees with git diff-tree -- {fs!r} on {it['case']!r}: git {have!r} model {model!r}")
                if _drop_root(mine) != have:
                    try:
                        bad = sorted(p for p in set(mine) | set(have) if mine.get(p) != have.get(p))
                        F(
                            f"tree_changes:paths:differs-from-git:include_trees={t}",
                            f"paths={list(fs)!r} include_trees={t}: at {bad[0]!r} dulwich {mine.get(bad[0])!r}, git diff-tree {have.get(bad[0])!r}",
                        )
                    except (_CaseFailed, _Excluded):
                        pass


# ---------------------------------------------------------------------------
# one pair


def check_pair(ctx, env, case, check="pair", use_git=None, record=True):
    """Returns the item for deferred (batched) git verification, or None."""
    A, B = resolve(case["A"]), resolve(case["B"])
    if not (M.valid_listing(A) and M.valid_listing(B)):
        raise HarnessError(f"generator produced an invalid listing: {case!r}")
    bA, bB = M.build(A), M.build(B)
    a_id = None if case.get("a_none") else bA.root
    b_id = None if case.get("b_none") else bB.root
    labels, nontrivial = classify(A, B, bA, bB, case)
    F = Failer(ctx, check, case)
    item = None
    try:
        outs = {}
        for impl in ("rust", "py"):
            F.impl = impl
            try:
                with use_impl(impl), cpu_limit(CASE_CPU_SECONDS):
                    outs[impl] = run_impl(F, case, A, B, bA, bB, a_id, b_id, labels)
            except CpuLimit as e:
                import traceback

                where = [f.name for f in traceback.extract_tb(e.__traceback__) if "/dulwich/" in f.filename][-1:] or ["?"]
                F(f"does-not-terminate:{where[0]}", f"more than {CASE_CPU_SECONDS} CPU-seconds on listings of {len(A)}+{len(B)} entries "
                                                     f"(normal: milliseconds), interrupted in dulwich function {where[0]}")
        F.impl = "rust-vs-py"
        for k in outs["rust"]:
            r, p = outs["rust"][k], outs["py"].get(k)
            if Counter(r) != Counter(p):
                F(f"twins-disagree:{k[0]}", f"Rust and Python implementations disagree for {k!r}: {r!r} vs {p!r}")
        fsets = [tuple(k[4]) for k in outs["rust"] if k[0] == "diff" and len(k) == 5 and k[1:4] == (False, False, False)]
        item = dict(case=case, A=A, B=B, bA=bA, bB=bB, out=outs["rust"], fsets=fsets)
        if use_git if use_git is not None else case.get("git"):
            labels.add("checked-against-git")
            g = env.git(ctx)
            if env.count_git % 8 == 0:
                g.ensure(bA)
                g.check_order_bytes(bA)
                for L, b in ((A, bA), (B, bB)):
                    if g.write_tree(L) != b.root:
                        raise HarnessError(f"git write-tree disagrees with the model for {L!r}")
            env.count_git += 1
            F.impl = "vs-git"
            git_verify(F, g, [item])
            item = None
    except (_CaseFailed, _Excluded):
        item = None
    if record:
        key = (bA.root, bB.root, case.get("a_none"), case.get("b_none"), tuple(case.get("filters", ())))
        sample = None
        if nontrivial and len(case["A"]) + len(case["B"]) <= 8:
            sample = dict(A=case["A"], B=case["B"], filters=case.get("filters", []), labels=sorted(labels))
        ctx.case(key, nontrivial=nontrivial, labels=sorted(labels), sample=sample)
    return item


class Env:
    def __init__(self):
        self._git = None
        self._pid = None
        self.count_git = 0

    def git(self, ctx):
        if self._git is None or self._pid != os.getpid() or not os.path.isdir(self._git.repo):  # scratch of a finished replay ctx is gone
            self._git = GitSide(ctx)
            self._pid = os.getpid()
        return self._git


_ENV = Env()


# ---------------------------------------------------------------------------
# bounded minimiser for the quick tier (Hypothesis' shrink phase is off there)


def _fails_with(ctx, case, bucket, use_git):
    probe = ctx.child(ctx.shard)
    probe.raise_mode = True
    probe._scratch, probe._scratch_pid = ctx._scratch, getattr(ctx, "_scratch_pid", None)
    try:
        check_pair(probe, _ENV, case, use_git=use_git, record=False)
    except Violation as v:
        return v if v.bucket == bucket else None
    return None


def minimise(ctx, v, budget=60):
    case = dict(v.case)
    ctx.scratch  # make sure the probes share (and never create) the scratch directory
    use_git = "git" in v.bucket
    best = v
    probes = 0
    changed = True
    while changed and probes < budget:
        changed = False
        cands = []
        for side in ("A", "B"):
            for i in range(len(case[side])):
                c = dict(case)
                c[side] = case[side][:i] + case[side][i + 1:]
                cands.append(c)
        paths = {e[0] for e in case["A"]} & {e[0] for e in case["B"]}
        for p in paths:
            c = dict(case)
            c["A"] = [e for e in case["A"] if e[0] != p]
            c["B"] = [e for e in case["B"] if e[0] != p]
            cands.insert(0, c)
        for i in range(len(case.get("filters", []))):
            c = dict(case)
            c["filters"] = case["filters"][:i] + case["filters"][i + 1:]
            cands.append(c)
        for c in cands:
            probes += 1
            if probes > budget:
                break
            r = _fails_with(ctx, c, v.bucket, use_git)
            if r is not None:
                case, best, changed = c, r, True
                break
    return best


# ---------------------------------------------------------------------------
# parts


def _part_a(ctx, item):
    thorough, nshards, shard = item
    U = G.universe(thorough)
    specs = [G.to_spec(L) for L in U]
    items = []
    n = 0
    for i in range(len(U)):
        for j in range(len(U)):
            n += 1
            if n % nshards != shard:
                continue
            case = dict(A=specs[i], B=specs[j], a_none=False, b_none=False, filters=[], filter_sets=G.UNIVERSE_FILTERS, perm=n, git=False)
            it = check_pair(ctx, _ENV, case, check="pair", use_git=False)
            ctx.label("part-A-exhaustive-pair")
            if it is not None:
                # keep only what the git comparison needs
                it["out"] = {k: v for k, v in it["out"].items() if k[0] == "diff" and len(k) == 5 and k[1] is False and k[3] is False}
                items.append(it)
    if items:
        g = _ENV.git(ctx)
        F = Failer(ctx, "pair", None)
        F.impl = "vs-git"
        git_verify(F, g, items)
        ctx.label("checked-against-git", n=len(items))
        for it in items[:: max(1, len(items) // 6)]:
            g.check_order_bytes(it["bA"])
            if g.write_tree(it["A"]) != it["bA"].root:
                raise HarnessError(f"git write-tree disagrees with the model for {it['A']!r}")


def _part_b(ctx, n):
    def test(c, case):
        try:
            check_pair(c, _ENV, case)
        except Violation as v:
            if not c.thorough:
                raise minimise(c, v)
            raise

    run_hypothesis(ctx, G.strategies(), test, max_examples=n, shrink=ctx.thorough)


def _block_cases():
    cases = []
    lens = [0, 1, 2, 62, 63, 64, 65, 127, 128, 129, 200]
    for a in lens:
        for nl1 in (False, True):
            for b in (0, 1, 63, 64, 65):
                for nl2 in (False, True):
                    data = b"p" * a + (b"\n" if nl1 else b"") + b"q" * b + (b"\n" if nl2 else b"")
                    cases.append((data, 0))
    for data in G.POOL:
        for cut in (0, 1, 7, 63, 64, 65):
            cases.append((data, cut))
    cases.append((b"\n" * 130, 64))
    cases.append((bytes(range(256)) * 2, 100))
    return cases


def check_blocks(ctx, data, cut, check="blocks"):
    d = D()
    F = Failer(ctx, check, dict(data=data, cut=cut))
    blob = d.do.Blob()
    if cut <= 0 or cut >= len(data):
        blob.chunked = [data]
    else:
        blob.chunked = [data[:cut], data[cut : cut + 1], b"", data[cut + 1 :]]
    want = M.count_blocks_model(data)
    try:
        for name, fn in (("rust", d.rust[2]), ("py", d.py[2])):
            F.impl = name
            got = dict(F.call(f"_count_blocks[{name}]", fn, blob))
            got = {k: v for k, v in got.items() if v}
            if got != want:
                shape = "long-line" if any(len(l) > 64 for l in M._split_lf(data)) else "short-lines"
                F(f"_count_blocks[{name}]:differs-from-model:{shape}", f"_count_blocks({data[:80]!r}.., chunks cut at {cut}) = {sorted(got.values())!r}, expected {sorted(want.values())!r}")
    except (_CaseFailed, _Excluded):
        pass
    ctx.case(("blocks", data, cut), nontrivial=len(data) > 64 or cut > 0, labels=("count-blocks-twin",))


def check_is_tree(ctx, mode, check="is_tree"):
    d = D()
    F = Failer(ctx, check, dict(mode=mode))
    entry = None if mode == "none-entry" else d.do.TreeEntry(b"p", mode, b"0" * 40)
    want = False if entry is None or mode is None else (mode & 0o170000) == 0o040000
    try:
        for name, fn in (("rust", d.rust[1]), ("py", d.py[1])):
            F.impl = name
            got = F.call(f"_is_tree[{name}]", fn, entry)
            if got is not want:
                F(f"_is_tree[{name}]:wrong", f"_is_tree(mode={mode!r}) = {got!r}, expected {want!r}")
    except (_CaseFailed, _Excluded):
        pass
    ctx.case(("is_tree", mode), nontrivial=mode not in ("none-entry", None), labels=("is-tree-twin",))


IS_TREE_MODES = ["none-entry", None, 0, 0o040000, 0o040755, 0o100644, 0o100755, 0o100664, 0o120000, 0o160000, 0o060000, 0o140000, 0o170000, 0o40000 | 0o200000]


def _part_c(ctx, item):
    nshards, shard = item
    for i, (data, cut) in enumerate(_block_cases()):
        if i % nshards == shard:
            check_blocks(ctx, data, cut)
    if shard == 0:
        for m in IS_TREE_MODES:
            check_is_tree(ctx, m)
    # in-place modifications at every similarity the document families offer (rewrite detection splits a modify into
    # delete + add and may match the halves back together), alone and next to a rename target of the old content
    fam = {kv: idx for idx, kv in G.DOC_FAMILY.items()}
    n = 0
    for k in (0, 1):
        for v1 in G.DOC_VARIANTS:
            for v2 in G.DOC_VARIANTS:
                if v1 == v2:
                    continue
                for extra in ([], [(b"c", M.REG, fam[(k, v1)])], [(b"c", M.REG, fam[(k, G.DOC_VARIANTS[(G.DOC_VARIANTS.index(v1) + 1) % len(G.DOC_VARIANTS)])])]):
                    n += 1
                    if n % nshards != shard:
                        continue
                    case = {"A": [(b"a", M.REG, fam[(k, v1)]), (b"keep", M.REG, 0)], "B": [(b"a", M.REG, fam[(k, v2)]), (b"keep", M.REG, 0)] + extra, "perm": n}
                    ctx.label("directed-in-place-similarity")
                    check_pair(ctx, _ENV, case, use_git=False)


# ---------------------------------------------------------------------------


def selftest(ctx):
    cgit.selfcheck()
    D()
    # the model against git on a fixed listing that needs the directory-sorts-as-'name/' rule
    L = resolve([(b"a/b", M.REG, 0), (b"a.b", M.EXE, 1), (b"a-", LNK, 4), (b"a0", GITLINK, G.GITLINKS[0]), (b"ab/c/d", M.REG, 2)])
    b = M.build(L)
    if [e[0] for e in b.trees[b""][1]] != [b"a-", b"a.b", b"a", b"a0", b"ab"]:
        raise HarnessError("tree order model self-test failed")
    g = _ENV.git(ctx)
    g.ensure(b)
    g.check_order_bytes(b)
    if g.write_tree(L) != b.root:
        raise HarnessError("git write-tree disagrees with the model on the self-test listing")
    recs = g.diff([(EMPTY_TREE, b.root)], t=True)[0]
    if M.per_path(git_records_to_changes(recs)) != _drop_root({p: [None, v] for p, v in b.full.items()}):
        raise HarnessError("diff-tree parser self-test failed")
    x = (0o100644, b"1" * 40)
    if M.merge_entries_model(b"d", {b"a": x, b"a.b": x}, {b"a.b": x, b"a-": x}) != [
        ((b"d/a", *x), None), (None, (b"d/a-", *x)), ((b"d/a.b", *x), (b"d/a.b", *x))]:
        raise HarnessError("merge_entries model self-test failed")
    if M.count_blocks_model(b"a\n" + b"b" * 65) != {hash(b"a\n"): 2, hash(b"b" * 64): 64, hash(b"b"): 1}:
        raise HarnessError("count_blocks model self-test failed")
    # the generator's similarity ladder really spans the default threshold
    d = D()
    score = getattr(d.dt, "_similarity_score", None)
    if score is not None:
        base = G.DOC_IDX[0]
        scores = [score(d.blobs[base], d.blobs[base + i]) for i in range(1, len(G.DOC_VARIANTS))]
        if not (max(scores) > 60 > min(scores)):
            raise HarnessError(f"blob pool does not straddle the rename threshold: {scores}")


def run(ctx):
    selftest(ctx)
    ctx.note("git_version", cgit.version())
    U = G.universe(ctx.thorough)
    ctx.note("exhaustive_universe_listings", len(U))
    ctx.note("exhaustive_universe_pairs", len(U) ** 2)
    ctx.parallel(_part_a, [(ctx.thorough, 16, k) for k in range(16)])
    ctx.parallel(_part_c, [(16, k) for k in range(16)])
    before = ctx.evaluations
    ctx.parallel(_part_b, [ctx.scale(100, 5000)] * 16)
    nb = ctx.evaluations - before
    # a silent generator regression is a harness error, not a pass
    floors = {"tree-order!=name-order": 0.15, "type:dir<->file": 0.10, "collision-family-both-sides": 0.20, "unique-exact-rename": 0.05,
              "similarity-rename-reported": 0.02, "directory-emptied/removed": 0.10, "with-path-filters": 0.30, "checked-against-git": 0.5}
    if not ctx.violations and nb:
        for lab, share in floors.items():
            if ctx.labels[lab] < share * nb:
                raise HarnessError(f"generator regression: label {lab!r} seen {ctx.labels[lab]} times in {ctx.evaluations} cases (floor {share:.0%} of {nb})")


def replay(ctx, check, case):
    if check == "pair":
        check_pair(ctx, _ENV, case, use_git=True)
    elif check == "blocks":
        check_blocks(ctx, case["data"], case["cut"])
    elif check == "is_tree":
        check_is_tree(ctx, case["mode"])
    else:
        raise HarnessError(f"unknown check {check!r}")
