"""C16 — ref backends obey one contract; the files backend matches git's own view."""

from __future__ import annotations

import itertools
import os
import random
import shutil
import subprocess

from .. import cgit
from ..core import HarnessError, Violation, run_hypothesis
from ..model.c16_refs import SYMREF, ZERO, Alt, D, Expect, RefModel, S, refname_rules

PROPERTY = "C16"
LEVEL = "exploration"
RULE = (
    "(a) Hypothesis-generated operation sequences (<= 30 ops) over the names HEAD, refs/heads/{a,a/b,a/c,b,sym,sym2}, "
    "refs/tags/t, refs/remotes/o/HEAD and four real objects (3 commits, 1 annotated tag): set_if_equals (old = None / "
    "zero / current / other), c[n]=v, add_if_new, remove_if_equals, del, set_symbolic_ref (chains, loops, dangling), "
    "pack_refs(all=F/T), add_packed_refs, re-open, two long-lived handles, and C git acting on the same directory "
    "(update-ref, update-ref -d, symbolic-ref, pack-refs --all, detach HEAD); run against DiskRefsContainer (judged "
    "after every step by the map model AND by git for-each-ref / show-ref --head -d / symbolic-ref), DictRefsContainer "
    "and ReftableRefsContainer (map model, on the sub-language without symref write-through and colliding names).  "
    "A sequence is non-trivial if it contains a conditional op whose condition is false, a file/directory collision "
    "attempt, a write through a symref, or an update/delete of a ref that is packed at that moment; distinct by "
    "(backend, op list).  (b) check_ref_format on every string of <= L symbols (quick 5, thorough 6) over the 15-symbol "
    "class alphabet {a / . @ { \\ * ~ SP 0x1f 0x7f 0x80 NUL - 'lock'}, every byte value in 8 templates, and random "
    "longer names, against a transcription of git-check-ref-format(1) that is itself validated against the git "
    "binary; non-trivial = contains '/' and is valid or violates exactly one rule; distinct by construction."
)
ASSUMPTIONS = [
    "git 2.39.5 is the judge for the files backend; it has no reftable backend, so the reftable container is judged by the map model only",
    "the map model is written from the RefsContainer docstrings; where they leave an outcome open (conditional delete "
    "of a symref whose target has the old value, writes through a symref loop, deleting an absent colliding name) "
    "every reading is accepted",
    "names containing NUL or starting with '-' cannot be passed to `git check-ref-format`; the transcription of the manual page alone judges them",
    "HEAD is never deleted (git would stop recognising the directory); branch refs only get commit ids (git refuses others)",
    "import_refs and NamespacedRefsContainer are not exercised",
]

HEAD = b"HEAD"
NAMES = [
    b"refs/heads/a",
    b"refs/heads/a/b",
    b"refs/heads/b",
    b"refs/tags/t",
    b"refs/heads/sym",
    b"HEAD",
    b"refs/heads/sym2",
    b"refs/heads/a/c",
    b"refs/remotes/o/HEAD",
    b"refs/heads-o/x",  # shares the byte prefix b"refs/heads" with the base of that name, not the path component
    b"refs/heads/a/b/c",  # three levels: a refused/failed operation on it leaves nested empty directories where a and a/b go
]
SYMSRC = [b"refs/heads/sym", b"HEAD", b"refs/heads/sym2", b"refs/remotes/o/HEAD"]
SYMDST = [b"refs/heads/a", b"refs/heads/b", b"refs/heads/sym", b"refs/heads/sym2", b"refs/tags/t", b"refs/heads/a/b", b"HEAD"]  # HEAD as a target: chains of four symbolic refs (o/HEAD -> HEAD -> sym -> sym2 -> a) become possible
PROBE = NAMES + [b"refs/heads/none"]
BASES = [b"refs/heads", b"refs/heads/", b"refs/tags", b"refs/remotes/o"]
TAGREF = b"refs/tags/t"
INITIAL = {HEAD: S(b"refs/heads/b")}

REFUSAL_EXC = (OSError, KeyError, ValueError)

# ---------------------------------------------------------------------------
# template repository with real objects (per process)

_tmpl = {}


def _template(ctx):
    key = (os.getpid(), ctx.scratch.path)
    if key in _tmpl and os.path.isdir(_tmpl[key][0]):
        return _tmpl[key]
    path = os.path.join(ctx.scratch.path, "tmpl.git")
    if os.path.exists(path):
        shutil.rmtree(path)
    cgit.git(["init", "-q", "--bare", "-b", "b", "--template=", path])
    tree = cgit.out(["hash-object", "-t", "tree", "-w", "--stdin"], cwd=path, input=b"").strip()
    commits = []
    for m in (b"A", b"B", b"C"):
        commits.append(cgit.out(["commit-tree", tree.decode(), "-m", m.decode()], cwd=path).strip())
    tagdata = b"object " + commits[0] + b"\ntype commit\ntag t\ntagger T <t@example.com> 1000000000 +0000\n\nannotated\n"
    tag = cgit.out(["mktag"], cwd=path, input=tagdata).strip()
    vals = commits + [tag]
    if len({len(v) for v in vals}) != 1 or len(vals[0]) != 40:
        raise HarnessError(f"template objects look wrong: {vals!r}")
    _tmpl[key] = (path, vals)
    return _tmpl[key]


def _peel(vals, sha):
    return vals[0] if sha == vals[3] else sha


# ---------------------------------------------------------------------------
# C git's view of a directory (cached by directory content)

_GIT_SCRIPT = (
    'git for-each-ref --format="%(refname) %(objectname) %(symref)" 2>/dev/null; echo "=="; '
    'git show-ref --head -d 2>/dev/null; echo "=="; '
    "for n in " + " ".join(n.decode() for n in SYMSRC) + '; do git symbolic-ref -q --no-recurse "$n" 2>/dev/null || echo "-"; done'
)
_view_cache = {}


def _fingerprint(path):
    items = []
    for rel in ("HEAD", "packed-refs"):
        try:
            with open(os.path.join(path, rel), "rb") as f:
                items.append((rel, f.read()))
        except FileNotFoundError:
            items.append((rel, None))
    root = os.path.join(path, "refs")
    for dp, dn, fn in os.walk(root):
        dn.sort()
        for name in sorted(fn):
            p = os.path.join(dp, name)
            with open(p, "rb") as f:
                items.append((os.path.relpath(p, path), f.read()))
    return tuple(items)


def git_view(ctx, path, use_cache=True):
    fp = _fingerprint(path) if use_cache else None
    if fp is not None and fp in _view_cache:
        ctx.label("git-view-cached")
        return _view_cache[fp]
    p = subprocess.run(["/bin/sh", "-c", _GIT_SCRIPT], cwd=path, capture_output=True, env=cgit.env())
    parts = p.stdout.split(b"==\n")
    if len(parts) != 3:
        raise HarnessError(f"git view script output not understood: {p.stdout!r} {p.stderr!r}")
    fer = {}
    for line in parts[0].splitlines():
        f = line.split(b" ")
        if len(f) != 3:
            raise HarnessError(f"for-each-ref line not understood: {line!r}")
        fer[f[0]] = (f[1], f[2])
    show = {}
    for line in parts[1].splitlines():
        sha, name = line.split(b" ", 1)
        show[name] = sha
    symlines = parts[2].splitlines()
    if len(symlines) != len(SYMSRC):
        raise HarnessError(f"symbolic-ref output not understood: {parts[2]!r}")
    syms = {n: (None if l == b"-" else l) for n, l in zip(SYMSRC, symlines)}
    view = (fer, show, syms)
    if fp is not None:
        if len(_view_cache) > 20000:
            _view_cache.clear()
        _view_cache[fp] = view
    ctx.label("git-view-run")
    return view


def model_git_view(model, vals):
    fer, show = {}, {}
    for n, v in model.refs.items():
        sha = model.value(n)
        if sha is None:
            continue
        if n != HEAD:
            # %(symref) is the fully resolved name (observed; pinned by the self-test)
            fer[n] = (sha, model.resolve(n)[0][-1] if v[0] == "s" else b"")
        show[n] = sha
        if sha == vals[3]:
            show[n + b"^{}"] = vals[0]
    syms = {n: (model.refs[n][1] if model.refs.get(n, ("d",))[0] == "s" else None) for n in SYMSRC}
    return fer, show, syms


def _dict_diff_kinds(got, want, prefix=""):
    kinds = set()
    for k in set(got) | set(want):
        if k not in want:
            kinds.add(prefix + "extra")
        elif k not in got:
            kinds.add(prefix + "missing")
        elif got[k] != want[k]:
            kinds.add(prefix + "differs")
    return kinds


def git_view_diff(got, want):
    """(kinds in non-peeled part, kinds in peeled part)"""
    gfer, gshow, gsyms = got
    wfer, wshow, wsyms = want
    main = set()
    for n in SYMSRC:
        if gsyms[n] != wsyms[n]:
            if wsyms[n] is not None and gsyms[n] is None:
                main.add("symref-lost")
            elif wsyms[n] is None:
                main.add("symref-appeared")
            else:
                main.add("symref-target")
    main |= _dict_diff_kinds(gfer, wfer, "for-each-ref-")
    plain = lambda d: {k: v for k, v in d.items() if not k.endswith(b"^{}")}
    peeled = lambda d: {k: v for k, v in d.items() if k.endswith(b"^{}")}
    main |= _dict_diff_kinds(plain(gshow), plain(wshow), "show-ref-")
    pk = _dict_diff_kinds(peeled(gshow), peeled(wshow), "peeled-")
    return main, pk


# ---------------------------------------------------------------------------
# backends


class DiskBackend:
    name = "disk"
    handles = 2
    has_pack = True
    has_git = True
    full_language = True
    readers = ("allkeys", "as_dict", "get_symrefs", "bases", "getitem", "contains", "follow", "get_peeled")

    def __init__(self, ctx):
        from dulwich.refs import DiskRefsContainer

        tmpl, self.vals = _template(ctx)
        self.path = os.path.join(ctx.scratch.path, "run.git")
        if os.path.exists(self.path):
            shutil.rmtree(self.path)
        shutil.copytree(tmpl, self.path)
        self._cls = DiskRefsContainer
        self.h = [self._cls(self.path), self._cls(self.path)]

    def fresh(self):
        return self._cls(self.path)

    def reopen(self, i):
        self.h[i] = self._cls(self.path)

    def packed_names(self):
        try:
            with open(os.path.join(self.path, "packed-refs"), "rb") as f:
                data = f.read()
        except FileNotFoundError:
            return set()
        return {l.split(b" ", 1)[1] for l in data.splitlines() if l[:1] not in (b"#", b"^") and b" " in l}

    def storage(self):
        """(packed names, empty directory trees under refs/) before a call."""
        dirs, used = set(), set()
        root = os.path.join(self.path, "refs")
        for dp, dn, fn in os.walk(root):
            rel = os.path.relpath(dp, self.path).encode()
            dirs.add(rel)
            if fn:
                parts = rel.split(b"/")
                used |= {b"/".join(parts[:i]) for i in range(1, len(parts) + 1)}
        return self.packed_names(), dirs - used  # directories with no file anywhere below

    def storage_facts(self, opkind, n, final, storage):
        packed, dirs = storage
        facts = []
        if final in dirs:
            facts.append("dir-in-the-way")  # explains the failure on its own
        elif opkind == "add_if_new" and n != final and n in packed:
            facts.append("symref-has-packed-entry")  # only add_if_new looks the symref's own name up
        return facts

    def leftovers(self):
        out = []
        for dp, dn, fn in os.walk(self.path):
            if os.path.basename(dp) == "objects":
                dn[:] = []
                continue
            out += [os.path.relpath(os.path.join(dp, f), self.path) for f in fn if f.endswith(".lock")]
        return out

    def close(self):
        shutil.rmtree(self.path, ignore_errors=True)


class DictBackend:
    name = "dict"
    handles = 1
    has_pack = False
    has_git = False
    full_language = False
    readers = ("allkeys", "as_dict", "get_symrefs", "bases", "getitem", "contains", "follow", "get_peeled")

    def __init__(self, ctx):
        from dulwich.refs import DictRefsContainer

        self.vals = _template(ctx)[1]
        self.h = [DictRefsContainer({})]
        self.h[0].set_symbolic_ref(HEAD, b"refs/heads/b")

    def fresh(self):
        return self.h[0]

    def reopen(self, i):
        pass

    def packed_names(self):
        return set()

    def storage(self):
        return None

    def storage_facts(self, opkind, n, final, storage):
        return []

    def leftovers(self):
        return []

    def close(self):
        pass


class ReftableBackend:
    name = "reftable"
    handles = 2
    has_pack = False
    has_git = False
    full_language = False
    readers = ("allkeys", "as_dict", "get_symrefs", "getitem", "contains")

    def __init__(self, ctx):
        from dulwich.reftable import ReftableRefsContainer

        self.vals = _template(ctx)[1]
        self.path = os.path.join(ctx.scratch.path, "run.reftable")
        if os.path.exists(self.path):
            shutil.rmtree(self.path)
        os.mkdir(self.path)
        self._cls = ReftableRefsContainer
        self.h = [self._cls(self.path), self._cls(self.path)]
        self.h[0].set_symbolic_ref(HEAD, b"refs/heads/b")

    def fresh(self):
        return self._cls(self.path)

    def reopen(self, i):
        self.h[i] = self._cls(self.path)

    def packed_names(self):
        return set()

    def storage(self):
        return None

    def storage_facts(self, opkind, n, final, storage):
        return []

    def leftovers(self):
        return []

    def close(self):
        shutil.rmtree(self.path, ignore_errors=True)


BACKENDS = {"disk": DiskBackend, "dict": DictBackend, "reftable": ReftableBackend}

# ---------------------------------------------------------------------------
# observing a container


def raw_state(c):
    """({name: ("d", sha) | ("s", target)} over the probe names, names whose read raised KeyError)"""
    st, raised = {}, []
    for n in PROBE:
        try:
            v = c.read_ref(n)
        except KeyError:
            raised.append(n)
            continue
        if v is None:
            continue
        st[n] = S(v[len(SYMREF):]) if v.startswith(SYMREF) else D(v)
    return st, raised


def state_diff_kinds(got, want):
    kinds = set()
    for n in set(got) | set(want):
        g, w = got.get(n), want.get(n)
        if g == w:
            continue
        if w is None:
            kinds.add("extra")
        elif g is None:
            kinds.add("missing")
        elif w[0] == "s" and g[0] == "d":
            kinds.add("symref->direct")
        elif w[0] == "d" and g[0] == "s":
            kinds.add("direct->symref")
        elif w[0] == "d":
            kinds.add("value")
        else:
            kinds.add("target")
    return "+".join(sorted(kinds)) or "same"


def _show_state(st):
    return {n.decode(): (v[1][:7].decode() if v[0] == "d" else "->" + v[1].decode()) for n, v in sorted(st.items())}


def _call(fn, *a):
    try:
        return ("ret", fn(*a))
    except Exception as e:  # the outcome of the code under test, compared below
        return ("exc", e)


def _outcome_str(o):
    return f"raised-{type(o[1]).__name__}" if o[0] == "exc" else f"ret-{o[1]!r}"


class Run:
    """One operation sequence against one backend."""

    def __init__(self, ctx, backend, ops, check="ops", focus=None):
        self.ctx = ctx
        self.b = BACKENDS[backend](ctx)
        self.ops = [tuple(o) for o in ops]
        self.check = check
        self.backend = backend
        self.focus = focus
        self.model = RefModel(INITIAL)
        self.labels = set()
        self.alive = True
        self.git_ok = True  # git's view still comparable (non-peeled part)
        self.peeled_ok = True
        self.vals = self.b.vals
        self.step_no = 0
        self.read_raised = set()

    # -- reporting -------------------------------------------------------------
    def fail(self, bucket, message):
        if self.focus is not None and bucket != self.focus:
            # replay of one recorded bucket: failures of other (known) root causes on the way are stepped over
            self.labels.add("replay-stepped-over-other-bucket")
            return False
        msg = f"step {self.step_no} {self.ops[self.step_no] if self.step_no < len(self.ops) else ''!r}: {message}"
        new = self.ctx.fail(bucket, msg, self.check, dict(backend=self.backend, ops=self.ops, focus=bucket))
        if new:
            self.alive = False  # plain mode: recorded; stop this run
        return new

    def resync(self, observed):
        m = RefModel(observed)
        if not m.consistent():
            self.labels.add("stopped-behind-known-finding")
            self.alive = False
        self.model = m

    # -- helpers -----------------------------------------------------------------
    def value(self, n, vi):
        vi = vi % 4
        if n == TAGREF:
            return self.vals[(3, 1, 2, 3)[vi]]  # the tag ref mostly holds the annotated tag
        return self.vals[vi % 3]

    def oldspec(self, n, spec, for_remove):
        if spec == "none":
            return None
        if spec == "zero":
            return None if for_remove else ZERO  # "delete it if it does not exist" is not a call anybody makes
        if spec == "cur":
            if for_remove:
                v = self.model.refs.get(n)
                if v is not None and v[0] == "d":
                    return v[1]
            cur = self.model.value(n)
            if cur is None:
                return None if for_remove else ZERO
            return cur
        return self.value(n, int(spec[1:]))

    def situation(self, n, tags):
        s = "absent" if n not in self.model.refs else "present"
        coll = sorted(t for t in tags if t.startswith("collision-"))
        return s + ("," + coll[0] if coll else "")

    # -- one mutating dulwich call ------------------------------------------------
    def mutate(self, opkind, n, exp, call, hi):
        b = self.b
        tags = exp.tags
        if not b.full_language and (tags & {"write-through", "loop-write"} or any(t.startswith("collision-") for t in tags)):
            self.labels.add("skipped-outside-sublanguage")
            return
        self.labels |= {t for t in tags if t in ("cond-false", "write-through", "loop-write", "ambiguous", "remove-symref", "overwrite-loop")}
        if any(t.startswith("collision-") for t in tags):
            self.labels.add("collision-attempt")
        if n is not None and b.has_pack:
            final = self.model.resolve(n)[0][-1]
            if final in b.packed_names() and opkind not in ("pack_refs-all", "pack_refs-tags", "add_packed_refs"):
                self.labels.add("update-of-packed-ref")
        pre = dict(self.model.refs)
        pre_storage = b.storage()
        out = _call(call)
        obs = _call(lambda: raw_state(b.fresh()))
        if obs[0] == "exc":
            # the container cannot even be read any more: an outcome of the code under test
            self.fail(
                f"C16:{b.name}:{opkind}:unreadable-afterwards:raised-{type(obs[1]).__name__}",
                f"after {opkind} on {n!r} ({_outcome_str(out)}) a fresh container cannot be read: {obs[1]!r}",
            )
            self.alive = False
            return
        post = obs[1][0]
        matched = None
        if exp.free is not None:
            # contract leaves it open; everything outside the loop must be untouched
            keep = lambda st: {k: v for k, v in st.items() if k not in exp.free}
            if keep(post) == keep(pre):
                self.resync(post)
                return
        for alt in exp.alts:
            if alt.how != out[0] or post != alt.refs:
                continue
            if out[0] == "exc" and not (isinstance(out[1], REFUSAL_EXC) or ("loop-write" in tags and type(out[1]).__name__ == "SymrefLoop")):
                continue
            if out[0] == "ret" and out[1] != alt.value:
                continue
            matched = alt
            break
        if matched is not None:
            self.model.refs = dict(matched.refs)
            return
        if post == pre and any(a.refs != pre for a in exp.alts):
            effect = "no-effect"
        elif any(post == a.refs for a in exp.alts):
            effect = "effect-ok"
        else:
            ref = exp.alts[0].refs if exp.alts else pre
            effect = "state:" + state_diff_kinds(post, ref)
        facts = []
        if n is None:
            sit = "-"
        else:
            # the name actually written / removed
            final = self.model.resolve(n)[0][-1] if opkind.startswith(("set-", "add_if_new")) else n
            sit = self.situation(final, tags)
            # storage facts that tell root causes apart (files backend; used for the bucket only)
            facts = b.storage_facts(opkind, n, final, pre_storage)
            if facts:
                sit += "," + ",".join(facts)
        # normalised so that c[n]=v / set_if_equals(n, None, v) (and del / remove_if_equals) share buckets
        rets = {a.value for a in exp.alts if a.how == "ret"}
        if not exp.alts:
            want = "unspecified"
        elif any(a.how == "exc" for a in exp.alts):
            want = "refuse" if rets <= {False} else "ok-or-refuse"
        elif rets == {False}:
            want = "False"
        else:
            want = "either" if False in rets else "ok"
        if out[0] == "exc":
            got = f"raised-{type(out[1]).__name__}"
            if not effect.startswith("state:"):
                effect = "-"  # raised with the state unchanged or as expected: same bucket (the order of effects is not the root cause)
            # an exception is bucketed by what was raised, not by the kind of ref it hit
            sit = ",".join(sorted(t for t in tags if t.startswith("collision-")) + facts) or "-"
            if opkind.startswith(("set-", "del-")):
                opkind = opkind[:3]  # raised whatever the condition
        elif want == "ok" and (effect == "no-effect" or (out[1] is False and effect == "effect-ok")):
            got, effect = "noop", "no-effect"  # nothing done / refused although the call had to succeed
        else:
            got = "False" if out[1] is False else "ok"
        bucket = f"C16:{b.name}:{opkind}:{sit}:{want}->{got},{effect}"
        msg = (
            f"{opkind} on {n!r} ({sit}); before {_show_state(pre)}; contract allows {exp.alts!r}; "
            f"got {_outcome_str(out)} {out[1] if out[0] == 'exc' else ''} and state {_show_state(post)}"
        )
        if b.name == "disk":
            msg += f"; packed={sorted(x.decode() for x in b.packed_names())}"
        if not self.fail(bucket, msg):
            self.resync(post)

    # -- readers ---------------------------------------------------------------------
    def check_handles(self, opkind):
        b = self.b
        want = self.model.refs
        self.read_raised = set()
        for i, c in enumerate(b.h):
            out = _call(raw_state, c)
            if out[0] == "exc":
                self.fail(f"C16:{b.name}:read:read_ref:raised-{type(out[1]).__name__}", f"read_ref raised {out[1]!r}")
                return
            st, raised = out[1]
            self.read_raised |= set(raised)
            if raised:
                kinds = sorted({self.model.kind(n) for n in raised})
                self.fail(
                    f"C16:{b.name}:read:read_ref:raised-KeyError:{'+'.join(kinds)}",
                    f"read_ref raised KeyError for {raised!r} instead of returning None",
                )
                if not self.alive:
                    return
            if st != want:
                self.fail(
                    f"C16:{b.name}:stale-handle:{state_diff_kinds(st, want)}",
                    f"long-lived container #{i} reads {_show_state(st)} but a fresh container reads {_show_state(want)}",
                )
                if not self.alive:
                    return
                self.labels.add("stale-handle-known")

    def check_readers(self, c):
        b, m = self.b, self.model
        resolved = m.resolved_dict()

        def rep(fn, kind, msg):
            self.fail(f"C16:{b.name}:read:{fn}:{kind}", msg)
            return self.alive

        def cmp(fn, out, want, sit=""):
            if out[0] == "exc":
                return rep(fn, f"raised-{type(out[1]).__name__}{sit}", f"{fn} raised {out[1]!r}; model {want!r}")
            if out[1] != want:
                if isinstance(want, (dict, set)):
                    kinds = "+".join(sorted(_dict_diff_kinds(out[1], want) if isinstance(want, dict) else
                                            ({"extra"} if set(out[1]) - want else set()) | ({"missing"} if want - set(out[1]) else set())))
                else:
                    kinds = "wrong"
                return rep(fn, kinds + sit, f"{fn} returned {out[1]!r}; model {want!r}; state {_show_state(m.refs)}")
            return True

        R = b.readers
        # a listing that is already known to be wrong is not blamed again on the functions built on it
        nfail = lambda: sum(self.ctx.excluded.values())
        before = nfail()
        if "allkeys" in R and not cmp("allkeys", _call(lambda: set(c.allkeys())), set(m.refs)):
            return
        listing_ok = nfail() == before
        if listing_ok and "as_dict" in R and not cmp("as_dict", _call(c.as_dict), resolved):
            return
        if listing_ok and "get_symrefs" in R and not cmp("get_symrefs", _call(c.get_symrefs), m.symrefs()):
            return
        if "bases" in R:
            for base in BASES:
                pre = base.rstrip(b"/") + b"/"
                wk = {n[len(pre):] for n in m.refs if n.startswith(pre)}
                wd = {n[len(pre):]: v for n, v in resolved.items() if n.startswith(pre)}
                sit = ":base-with-slash" if base.endswith(b"/") else ":base"
                before = nfail()
                if not cmp("keys(base)", _call(lambda: set(c.keys(base))), wk, sit):
                    return
                if nfail() == before and not cmp("as_dict(base)", _call(c.as_dict, base), wd, sit):
                    return
        for n in PROBE:
            kind = m.kind(n)
            chain, sha, loop = m.resolve(n)
            sit = ":" + kind
            if "getitem" in R:
                out = _call(c.__getitem__, n)
                if sha is not None:
                    if not cmp("getitem", out, sha, sit):
                        return
                elif not (out[0] == "exc" and (isinstance(out[1], KeyError) or type(out[1]).__name__ == "SymrefLoop" or (loop and isinstance(out[1], ValueError)))):
                    if not rep("getitem", _outcome_str(out)[:24] + sit, f"c[{n!r}] gave {out!r}, expected KeyError"):
                        return
            if "contains" in R and n not in self.read_raised and not cmp("contains", _call(c.__contains__, n), n in m.refs, sit):
                return
            if "follow" in R:
                out = _call(c.follow, n)
                if loop:
                    if out[0] != "exc":
                        if not rep("follow", "loop-not-detected", f"follow({n!r}) returned {out[1]!r} on a symref loop"):
                            return
                elif not cmp("follow", out, (chain, sha), sit):
                    return
            if "get_peeled" in R and not loop:
                out = _call(c.get_peeled, n)
                true = _peel(self.vals, sha) if sha is not None else None
                if sha is None and out[0] == "exc" and isinstance(out[1], KeyError):
                    continue  # nothing to peel: an error is as good as None
                if out[0] == "exc" or out[1] not in (None, true):
                    # bucket by the storage situation that explains it (disk only), else by the value returned
                    if out[0] == "exc":
                        what = "raised-" + type(out[1]).__name__
                    elif b.name == "disk" and n in b.packed_names() and self._loose_exists(n):
                        what = "loose-shadows-packed"
                    else:
                        what = "tag-itself" if out[1] == sha else "wrong"
                    if not rep("get_peeled", what, f"get_peeled({n!r}) gave {out[1]!r}; true peeled id is {true!r} (ref value {sha!r}, {kind})"):
                        return

    def check_git(self, opkind, harness_action=False):
        if not self.b.has_git or not self.git_ok:
            return
        got = git_view(self.ctx, self.b.path)
        want = model_git_view(self.model, self.vals)
        main, pk = git_view_diff(got, want)
        if main:
            if harness_action:
                raise HarnessError(
                    f"the map model is wrong about C git itself after {self.ops[self.step_no]!r} in {self.ops!r}: "
                    f"git {got!r} model {want!r}"
                )
            self.git_ok = False
            self.fail(
                f"C16:disk:git-view:{opkind}:{'+'.join(sorted(main))}",
                f"C git lists {got!r}; model (and dulwich) {want!r}",
            )
            return
        if pk and self.peeled_ok:
            self.peeled_ok = False
            if harness_action:
                raise HarnessError(f"the map model is wrong about git's peeled output after {self.ops[self.step_no]!r}: {got[1]!r} vs {want[1]!r}")
            grp = "packing" if opkind in ("pack_refs", "add_packed_refs") else opkind
            self.fail(
                f"C16:disk:git-view:{grp}:{'+'.join(sorted(pk))}",
                f"git show-ref -d lists {got[1]!r}; expected {want[1]!r}; packed-refs: {self._packed_text()!r}",
            )

    def _packed_text(self):
        try:
            with open(os.path.join(self.b.path, "packed-refs"), "rb") as f:
                return f.read()
        except FileNotFoundError:
            return None

    # -- git acting on the directory -------------------------------------------------
    def git_action(self, op):
        kind = op[0]
        m = self.model
        args = None
        if kind == "git-set":
            n, v = op[1], self.value(op[1], op[2])
            exp = m.expect_set(n, None, v, setitem=True)
            if exp.free is not None:
                return False
            args = ["update-ref", n.decode(), v.decode()]
        elif kind == "git-del":
            n = op[1]
            if n == HEAD or n not in m.refs:
                return False
            exp = m.expect_remove(n, None, delitem=True)
            args = ["update-ref", "--no-deref", "-d", n.decode()]
        elif kind == "git-pack":
            exp = m.expect_noop()
            args = ["pack-refs", "--all"]
        elif kind == "git-symref":
            n, t = op[1], op[2]
            if n == t:
                return False
            exp = m.expect_symref(n, t)
            args = ["symbolic-ref", n.decode(), t.decode()]
        elif kind == "git-detach":
            v = self.value(HEAD, op[1])
            after = dict(m.refs)
            after[HEAD] = D(v)
            exp = Expect([Alt("ret", None, after)])
            args = ["update-ref", "--no-deref", "HEAD", v.decode()]
        else:
            raise HarnessError(f"unknown git action {op!r}")
        rc, out, err = cgit.git(["-c", "core.logAllRefUpdates=false"] + args, cwd=self.b.path, check=False)
        ok = [a for a in exp.alts if a.how == "ret"]
        refuse = [a for a in exp.alts if a.how == "exc"]
        if rc == 0 and ok:
            m.refs = dict(ok[0].refs)
        elif rc != 0 and refuse:
            pass
        else:
            raise HarnessError(f"the map model is wrong about C git: {args!r} exited {rc} ({err!r}) in state {_show_state(m.refs)}; model allowed {exp.alts!r}")
        self.labels.add("git-action")
        return True

    # -- the interpreter -----------------------------------------------------------------
    def step(self, op):
        b, m = self.b, self.model
        kind = op[0]
        if kind.startswith("git-"):
            if not b.has_git or not self.git_ok or not self.peeled_ok:
                return
            if not self.git_action(op):
                return
            self.check_git(kind, harness_action=True)
            obs = _call(lambda: raw_state(b.fresh()))
            if obs[0] == "exc":
                self.fail(f"C16:disk:read-after-{kind}:raised-{type(obs[1]).__name__}", f"after C git ran {op!r} a fresh DiskRefsContainer cannot be read: {obs[1]!r}")
                self.alive = False
                return
            post = obs[1][0]
            if post != m.refs:
                bucket = f"C16:disk:read-after-{kind}:{state_diff_kinds(post, m.refs)}"
                if not self.fail(bucket, f"after C git ran {op!r} a fresh DiskRefsContainer reads {_show_state(post)}; git and the model say {_show_state(m.refs)}"):
                    self.git_ok = False
                    self.resync(post)
            if self.alive:
                self.check_handles(kind)
            if self.alive:
                self.check_readers(b.h[0])
            return
        hi = op[1] % b.handles
        c = b.h[hi]
        n = None
        if kind == "set":
            _, _, n, spec, vi = op
            old, v = self.oldspec(n, spec, False), self.value(n, vi)
            opkind = "set-uncond" if old is None else "set-cond"
            self.mutate(opkind, n, m.expect_set(n, old, v), lambda: c.set_if_equals(n, old, v), hi)
        elif kind == "setitem":
            _, _, n, vi = op
            v = self.value(n, vi)
            self.mutate("set-uncond", n, m.expect_set(n, None, v, setitem=True), lambda: c.__setitem__(n, v), hi)
            opkind = "set-uncond"
        elif kind == "add":
            _, _, n, vi = op
            v = self.value(n, vi)
            opkind = "add_if_new"
            self.mutate(opkind, n, m.expect_add(n, v), lambda: c.add_if_new(n, v), hi)
        elif kind == "rm":
            _, _, n, spec = op
            if n == HEAD:
                return
            old = self.oldspec(n, spec, True)
            opkind = "del-uncond" if old is None else "del-cond"
            self.mutate(opkind, n, m.expect_remove(n, old), lambda: c.remove_if_equals(n, old), hi)
        elif kind == "del":
            _, _, n = op
            if n == HEAD:
                return
            opkind = "del-uncond"
            self.mutate(opkind, n, m.expect_remove(n, None, delitem=True), lambda: c.__delitem__(n), hi)
        elif kind == "symref":
            _, _, n, t = op
            if n == t:
                return
            opkind = "set_symbolic_ref"
            self.mutate(opkind, n, m.expect_symref(n, t), lambda: c.set_symbolic_ref(n, t), hi)
        elif kind == "pack":
            if not b.has_pack:
                return
            opkind = "pack_refs-all" if op[2] else "pack_refs-tags"
            under = {m.kind(x) for x in m.refs if x != HEAD and m.refs[x][0] == "s" and (op[2] or x.startswith(b"refs/tags/"))}
            under = "symref-loop" if "symref-loop" in under else ("symref" if "symref" in under else "")
            self.labels.add(opkind)
            self.mutate(opkind + (":" + under if under else ""), None, m.expect_noop(), lambda: c.pack_refs(all=bool(op[2])), hi)
        elif kind == "addpacked":
            if not b.has_pack:
                return
            n = op[2]
            v = m.refs.get(n)
            if n == HEAD or v is None or v[0] != "d":
                return
            opkind = "add_packed_refs"
            self.labels.add(opkind)
            self.mutate(opkind, None, m.expect_noop(), lambda: c.add_packed_refs({n: v[1]}), hi)
        elif kind == "reopen":
            if b.handles < 2 and b.name == "dict":
                return
            b.reopen(hi)
            opkind = "reopen"
            self.labels.add("reopen")
        else:
            raise HarnessError(f"unknown op {op!r}")
        if not self.alive:
            return
        if b.name == "disk":
            left = b.leftovers()
            if left:
                self.fail(f"C16:disk:{opkind.split(':')[0]}:lock-left-behind", f"lock files left behind: {left!r}")
                if not self.alive:
                    return
                for p in left:
                    os.unlink(os.path.join(b.path, p))
        self.check_handles(opkind.split(":")[0])
        if self.alive:
            self.check_readers(c)
        if self.alive:
            self.check_git(opkind.split(":")[0].replace("-all", "").replace("-tags", ""))

    def run(self):
        try:
            for i, op in enumerate(self.ops):
                self.step_no = i
                if not self.alive:
                    break
                self.step(op)
                m = self.model
                if any(v[0] == "s" and m.value(k) is None and not m.resolve(k)[2] for k, v in m.refs.items() if k != HEAD):
                    self.labels.add("dangling-symref")
                if any(m.kind(k) == "symref-loop" for k in m.refs):
                    self.labels.add("symref-loop")
                if m.refs.get(HEAD, ("s",))[0] == "d":
                    self.labels.add("head-detached")
                if self.b.has_pack:
                    pk = self.b.packed_names()
                    if pk:
                        self.labels.add("has-packed")
                    if any(k in pk and self._loose_exists(k) for k in m.refs):
                        self.labels.add("loose-and-packed")
        finally:
            self.b.close()
        nontrivial = bool(self.labels & {"cond-false", "collision-attempt", "write-through", "update-of-packed-ref"})
        return nontrivial

    def _loose_exists(self, n):
        return os.path.isfile(os.path.join(self.b.path, n.decode()))


_sticky = {}


def execute_ops(ctx, backend, ops, check="ops", focus=None):
    # A violation seen once stays a violation of that example: a defect whose
    # appearance depends on timing (stale stat cache) must end as VIOLATION, not
    # as a Hypothesis "flaky test" error.  The oracle never depends on time.
    key = (backend, repr(ops))
    if ctx.raise_mode and key in _sticky and _sticky[key].bucket not in ctx.known_open:
        raise _sticky[key]  # the same object: same origin for Hypothesis
    r = Run(ctx, backend, ops, check, focus)
    try:
        nt = r.run()
    except Violation as v:
        _sticky[key] = v
        raise
    labels = sorted(f"{backend}:{l}" for l in r.labels) + [f"{backend}:runs"]
    ctx.case((backend, repr(r.ops)), nontrivial=nt, labels=labels,
             sample=dict(backend=backend, ops=[list(o) for o in r.ops]) if nt and len(r.ops) <= 8 else None)


# ---------------------------------------------------------------------------
# generation


def _ops_strategy(backend):
    from hypothesis import strategies as st

    name = st.sampled_from(NAMES + [b"refs/heads/a", b"refs/tags/t", b"refs/heads/a/b", b"refs/heads/sym", b"refs/tags/t"])
    h = st.sampled_from([0, 1])
    vi = st.sampled_from([0, 1, 2, 3])
    old = st.sampled_from(["cur", "none", "v1", "zero", "v0", "v2"])
    src = st.sampled_from(SYMSRC)
    dst = st.sampled_from(SYMDST)
    ops = [
        st.tuples(st.just("setitem"), h, name, vi),
        st.tuples(st.just("setitem"), h, name, vi),
        st.tuples(st.just("set"), h, name, old, vi),
        st.tuples(st.just("set"), h, name, old, vi),
        st.tuples(st.just("add"), h, name, vi),
        st.tuples(st.just("rm"), h, name, old),
        st.tuples(st.just("rm"), h, name, old),
        st.tuples(st.just("del"), h, name),
        st.tuples(st.just("symref"), h, src, dst),
        st.tuples(st.just("symref"), h, src, dst),
        st.tuples(st.just("reopen"), h),
        # chains and loops among the two symref names
        st.tuples(st.just("symref"), h, st.sampled_from(SYMSRC[::2]), st.sampled_from([b"refs/heads/sym2", b"refs/heads/sym"])),
    ]
    if BACKENDS[backend].has_pack:
        ops += [
            st.tuples(st.just("pack"), h, st.sampled_from([1, 0])),
            st.tuples(st.just("pack"), h, st.sampled_from([1, 0])),
            st.tuples(st.just("addpacked"), h, name),
        ]
    if BACKENDS[backend].has_git:
        ops += [
            st.tuples(st.just("git-pack")),
            st.tuples(st.just("git-pack")),
            st.tuples(st.just("git-set"), name, vi),
            st.tuples(st.just("git-del"), name),
            st.tuples(st.just("git-symref"), src, dst),
            st.tuples(st.just("git-detach"), st.sampled_from([0, 1, 2])),
        ]
    return st.lists(st.one_of(*ops), min_size=1, max_size=30)


def directed_sequences(backend):
    """Directory/file conflicts crossed with how the existing ref is stored, how the new name is reached and which
    operation creates it: [ops]."""
    out = []
    pairs = [(b"refs/heads/a", b"refs/heads/a/b"), (b"refs/heads/a/b", b"refs/heads/a")]
    storages = ["loose"] + (["packed", "loose+packed"] if BACKENDS[backend].has_pack else [])
    for existing, new in pairs:
        for storage in storages:
            pre = [("setitem", 0, existing, 0)]
            if storage != "loose":
                pre.append(("pack", 0, 1))
            if storage == "loose+packed":
                pre.append(("setitem", 0, existing, 1))
            for via in (None, b"HEAD", b"refs/heads/sym"):
                link = [("symref", 0, via, new)] if via else []
                target = via or new
                for op in (("add", 1, target, 2), ("setitem", 1, target, 2), ("set", 1, target, "none", 2), ("set", 1, target, "zero", 2)):
                    out.append(pre + link + [op, ("reopen", 0), ("add", 0, new, 3), ("del", 0, existing), ("add", 0, target, 3)])
    # a name whose storage changes kind: direct ref, packed, then overwritten by a symbolic ref (the packed entry stays
    # behind the loose symref), then removed in each of the ways there are
    if BACKENDS[backend].has_pack:
        for name in (b"refs/heads/sym", b"refs/heads/sym2", b"refs/remotes/o/HEAD"):
            for dst in (b"refs/heads/b", b"refs/heads/a/b"):
                for removal in (("del", 1, name), ("rm", 1, name, "none"), ("rm", 0, name, "cur"), ("rm", 1, name, "v0"), ("setitem", 1, name, 2)):
                    for packer in (("pack", 0, 1), ("git-pack",)):
                        if packer[0] == "git-pack" and not BACKENDS[backend].has_git:
                            continue
                        out.append([("setitem", 0, b"refs/heads/b", 1), ("setitem", 0, name, 0), packer, ("symref", 0, name, dst), removal, ("reopen", 0), ("add", 0, name, 3)])
    # chains of two to four symbolic refs ending in a direct ref (git follows up to five links): read, list, write and
    # conditionally write through the head of the chain
    links = [b"refs/remotes/o/HEAD", b"HEAD", b"refs/heads/sym", b"refs/heads/sym2"]
    for k in (2, 3, 4):
        chain = links[4 - k:] + [b"refs/heads/b"]
        mk = [("setitem", 0, b"refs/heads/b", 0)] + [("symref", 0, chain[i], chain[i + 1]) for i in reversed(range(k))]
        for tail in ([("setitem", 1, chain[0], 2)], [("set", 1, chain[0], "cur", 2)], [("set", 1, chain[0], "v0", 1)], [("add", 1, chain[0], 2)],
                     [("del", 0, b"refs/heads/b"), ("add", 1, chain[0], 2)], [("pack", 0, 1), ("setitem", 1, chain[0], 3)]):
            if tail[0][0] == "pack" and not BACKENDS[backend].has_pack:
                continue
            out.append(mk + [("reopen", 0)] + tail + [("reopen", 0), ("setitem", 0, chain[-1], 1)])
    return out


def _part_machine(ctx, item):
    backend, n = item
    if ctx.shard % 16 == 0:
        for ops in directed_sequences(backend):
            ctx.label(f"{backend}:directed")
            try:
                execute_ops(ctx, backend, ops)
            except Violation as v:  # raise_mode is on inside run_hypothesis only; be safe
                ctx.record_violation(v.bucket, v.message, v.check, v.case)
    run_hypothesis(ctx, _ops_strategy(backend), lambda c, ops: execute_ops(c, backend, ops), max_examples=n, shrink=True)


# ---------------------------------------------------------------------------
# (b) check_ref_format

ALPHA = [b"a", b"/", b".", b"@", b"{", b"\\", b"*", b"~", b" ", b"\x1f", b"\x7f", b"\x80", b"\0", b"-", b"lock"]
TEMPLATES = [b"a/%s", b"%s/a", b"a/%sb", b"a%s/b", b"a/b%s", b"a/%s/b", b"a/b.%s", b"a/@%s"]


def git_judges(name: bytes):
    """True/False from `git check-ref-format`, None if the name cannot be passed in argv."""
    if b"\0" in name or name.startswith(b"-"):
        return None
    rc, _, err = cgit.git(["check-ref-format", name], check=False)
    if rc == 0:
        return True
    if rc == 1:
        return False
    raise HarnessError(f"git check-ref-format {name!r} exited {rc}: {err!r}")


def _dulwich_says(name):
    from dulwich.refs import check_ref_format

    try:
        return bool(check_ref_format(name))
    except Exception as e:  # outcome of the code under test
        return f"raised-{type(e).__name__}"


def judge_name(ctx, name, check="name"):
    """Returns the rule set; reports a disagreement (after asking git itself)."""
    rules = refname_rules(name)
    d = _dulwich_says(name)
    if d == (not rules) and isinstance(d, bool):
        return rules
    g = git_judges(name)
    if g is not None and g is not (not rules):
        raise HarnessError(f"transcription of git-check-ref-format(1) is wrong for {name!r}: rules {sorted(rules)} but git says {g}")
    rs = "+".join(f"r{r}" for r in sorted(rules)) or "valid"
    ctx.fail(
        f"C16:check_ref_format:dulwich-{d}:git-{rs}",
        f"check_ref_format({name!r}) -> {d}; git check-ref-format: {'valid' if not rules else 'invalid, rules ' + rs}"
        + ("" if g is not None else " (judged by the manual-page transcription; not passable in argv)"),
        check,
        dict(name=name),
    )
    return rules


def _tally(ctx, name, rules, counts):
    nt = b"/" in name and len(rules) <= 1
    counts["nt" if nt else "triv"] += 1
    if nt:
        counts["name:" + (f"only-r{next(iter(rules))}" if rules else "valid")] += 1


def _flush(ctx, counts, sample=None):
    from collections import Counter

    nt, triv = counts.pop("nt", 0), counts.pop("triv", 0)
    if nt:
        ctx.case(None, nontrivial=True, n=nt, sample=sample)
    if triv:
        ctx.case(None, nontrivial=False, n=triv)
    for k, v in counts.items():
        ctx.label(k, n=v)
    counts.clear()
    return Counter()


def _part_names(ctx, item):
    from collections import Counter

    maxlen, nshards, shard, nrandom, ngit = item
    counts = Counter()
    rnd = random.Random(ctx.seed * 104729 + shard)  # picks from the enumerated domain only
    gitpool = []
    i = 0
    for n in range(0, maxlen + 1):
        for tup in itertools.product(ALPHA, repeat=n):
            i += 1
            if i % nshards != shard:
                continue
            name = b"".join(tup)
            rules = judge_name(ctx, name)
            _tally(ctx, name, rules, counts)
            if b"\0" not in name and name[:1] != b"-" and rnd.random() < 0.004:
                gitpool.append(name)
    counts = _flush(ctx, counts, sample=dict(enumerated_up_to=maxlen, shard=shard))
    # every byte value in every template
    for x in range(256):
        if x % nshards != shard:
            continue
        for t in TEMPLATES:
            name = t % bytes([x])
            rules = judge_name(ctx, name)
            _tally(ctx, name, rules, counts)
            if t == TEMPLATES[0] and x != 0:
                gitpool.append(name)
    ctx.label("name:byte-template", n=256 * len(TEMPLATES) // nshards)
    # random longer names: valid skeleton + a few symbol substitutions
    comp = [b"a", b"lock", b"a.b", b"a.lock", b"@", b"a@", b"-a", b"a-", b"\x80\xff", b"refs", b"heads", b"x.locka", b"a{", b"HEAD"]
    for k in range(nrandom):
        parts = [rnd.choice(comp) for _ in range(rnd.choice([2, 2, 3, 3, 4, 6]))]
        name = bytearray(b"/".join(parts))
        for _ in range(rnd.choice([0, 1, 1, 2])):
            pos = rnd.randrange(len(name) + 1)
            sym = rnd.choice(ALPHA + [b"^", b":", b"?", b"[", b"..", b".lock", b"@{", b"//", b"\t", b"\n"])
            if rnd.random() < 0.5:
                name[pos:pos] = sym
            else:
                name[pos:pos + 1] = sym
        name = bytes(name)
        rules = judge_name(ctx, name)
        _tally(ctx, name, rules, counts)
        if b"\0" not in name and name[:1] != b"-" and k % 7 == 0:
            gitpool.append(name)
    ctx.label("name:random-long", n=nrandom)
    _flush(ctx, counts)
    # validate the transcription against the real binary
    rnd.shuffle(gitpool)
    for name in gitpool[:ngit]:
        g = git_judges(name)
        if g is not (not refname_rules(name)):
            raise HarnessError(f"transcription of git-check-ref-format(1) is wrong for {name!r}: git says {g}")
    ctx.label("name:transcription-validated-against-git", n=min(ngit, len(gitpool)))


# ---------------------------------------------------------------------------
# self tests

_SELFTEST_NAMES = [
    (b"refs/heads/a", True), (b"a", False), (b"a/b", True), (b"@", False), (b"a/@", True), (b"a/.b", False), (b"a/b.lock", False),
    (b"a.lock/b", False), (b"a/b..c", False), (b"a/b c", False), (b"a/b~", False), (b"a/b^", False), (b"a/b:", False), (b"a/b?", False),
    (b"a/b*", False), (b"a/b[", False), (b"a/b]", True), (b"/a/b", False), (b"a/b/", False), (b"a//b", False), (b"a/b.", False),
    (b"a./b", True), (b"a/b@{c", False), (b"a/b\\c", False), (b"a/\x7f", False), (b"a/\x01", False), (b"a/\x80", True), (b"", False),
    (b"a/lock", True), (b"a/b.lockx", True), (b"a/{", True), (b"a/@b", True), (b"HEAD", False), (b"a/-b", True),
]

_SELFTEST_GIT_SCRIPT = [
    ("git-set", b"refs/heads/a", 0),
    ("git-symref", b"refs/heads/sym", b"refs/heads/a"),
    ("git-symref", b"refs/heads/sym2", b"refs/heads/sym"),
    ("git-set", b"refs/heads/sym2", 1),  # through two symrefs
    ("git-set", b"refs/heads/a/b", 2),  # D/F conflict: refused
    ("git-set", b"refs/tags/t", 3),
    ("git-symref", b"refs/remotes/o/HEAD", b"refs/tags/t"),
    ("git-pack",),
    ("git-set", b"HEAD", 2),  # creates refs/heads/b through HEAD
    ("git-del", b"refs/heads/sym"),  # --no-deref: a stays, sym2 dangles
    ("git-detach", 1),
    ("git-symref", b"refs/heads/sym", b"refs/heads/sym2"),  # loop sym <-> sym2
    ("git-del", b"refs/heads/a"),
    ("git-set", b"refs/heads/a/b", 2),
    ("git-symref", b"HEAD", b"refs/heads/a/c"),
    ("git-pack",),
    ("git-del", b"refs/heads/sym2"),  # one half of the loop
]


def selftest(ctx):
    cgit.selfcheck()
    for name, want in _SELFTEST_NAMES:
        if (not refname_rules(name)) is not want:
            raise HarnessError(f"refname transcription self-test: {name!r} should be {want}")
        g = git_judges(name)
        if g is not None and g is not want:
            raise HarnessError(f"refname self-test list disagrees with git for {name!r}: git says {g}")
    # the map model, the git-view parser and the git actions agree with git itself
    r = Run(ctx, "disk", _SELFTEST_GIT_SCRIPT, check="selftest")
    try:
        for i, op in enumerate(r.ops):
            r.step_no = i
            if not r.git_action(op):
                raise HarnessError(f"self-test git action skipped: {op!r}")
            got = git_view(ctx, r.b.path, use_cache=False)
            want = model_git_view(r.model, r.vals)
            if got != want:
                raise HarnessError(f"map model / git view self-test failed after {op!r}: git {got!r} model {want!r}")
    finally:
        r.b.close()


# ---------------------------------------------------------------------------


def run(ctx):
    selftest(ctx)
    ctx.note("git_version", cgit.version())
    ctx.note("exhaustive", True)
    maxlen = ctx.scale(5, 6)
    ctx.note("exhaustive_name_symbols", maxlen)
    ns = 16
    parts = os.environ.get("VERIF_C16_PARTS", "names,disk,dict,reftable").split(",")  # development knob
    budget = dict(disk=ctx.scale(220, 5000), dict=ctx.scale(200, 6000), reftable=ctx.scale(16, 600))
    items = []
    # one parallel phase (no barriers): worker k gets the k-th item of every group
    for backend in ("disk", "dict", "reftable"):
        if backend in parts:
            items += [("machine", backend, budget[backend])] * ns
    if "names" in parts:
        items += [("names", maxlen, ns, k, ctx.scale(2500, 40000), ctx.scale(250, 2500)) for k in range(ns)]
    ctx.parallel(_part, items)


def _part(ctx, item):
    if item[0] == "machine":
        _part_machine(ctx, item[1:])
    else:
        _part_names(ctx, item[1:])


def replay(ctx, check, case):
    if check == "ops":
        execute_ops(ctx, case["backend"], [tuple(o) for o in case["ops"]], focus=case.get("focus"))
    elif check == "name":
        judge_name(ctx, case["name"])
    else:
        raise HarnessError(f"unknown check {check!r}")
