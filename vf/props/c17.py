"""C17 — checkout never writes outside the work tree or into .git; unsafe paths are refused."""

from __future__ import annotations

import io
import os
import random
import re
import shutil
import signal
import stat
import traceback

from ..core import HarnessError, h64
from ..gen import c17_gen as G
from ..model import c17_ref as R

PROPERTY = "C17"
LEVEL = "exploration"
RULE = (
    "cases = (settings core.protectNTFS/protectHFS/symlinks each unset/off/on, 1-4 raw tree objects, 1-5 operations).  Trees are "
    "written as raw bytes (unsorted / duplicate names / names containing '/' possible) from a 13-name universe plus ~80 "
    "adversarial names ('.git' spellings for NTFS/HFS/8.3/ADS, '.', '..', '', names with '/', '\\\\', absolute names that point "
    "into the scratch dir, drive prefixes, long / non-UTF-8 names); blobs carry a unique marker; symlink blobs point to canaries "
    "outside the work tree (relative and absolute), into .git, to dangling names, or inside; modes include setuid/setgid/sticky/"
    "0777/0.  Operations: porcelain.clone, build_index_from_tree, WorkTree.reset_index, porcelain.checkout / switch / "
    "reset --hard / reset --mixed, update_working_tree, stash pop of a crafted stash, stash push+pop, checkout(paths=), "
    "restore, reset_file, porcelain.apply_patch of generated and hand-mutated patches.  Part A samples 14 enumerated CVE shapes "
    "(symlink-then-directory, directory-then-symlink, file-then-directory, same-tree prefix/duplicate, partial checkout then "
    "traversal, index moved by reset --mixed then delete, ...) x 21 escaping targets x operations x settings; part B is free-form; "
    "part C patches.  After every operation a recursive snapshot (type, mode, inode, size, mtime, content, link target) of the "
    "whole per-case scratch root minus the work tree's own files is compared with the one before.  Non-trivial = the case "
    "contains a path git must refuse or a symlink leaving the work tree / entering .git AND an operation materialised at "
    "least one entry or refused a path; distinct by the full case.  Cases are drawn with random.Random(seed, shard) from the "
    "enumerated pools (no Hypothesis); a failing case is reduced by a bounded greedy minimiser (drop steps, tree entries, "
    "patch files, settings) that must keep the same bucket; replays/C17 pins one regression input per operation and shape."
)
ASSUMPTIONS = [
    "we run as root: confinement is observed through canary snapshots of the scratch root and of .git, not enforced by the OS",
    "only POSIX behaviour (os.name == 'nt' branches are out of reach); settings are given at repository level (.git/config)",
    "files inside .git that the operations own (index, HEAD, ORIG_HEAD, logs/HEAD, refs/heads/master and its log, refs/stash and its "
    "log, new loose objects) may change but must never contain a blob marker, become symlinks, or lose/alter existing objects",
    "'must be refused' is the lower bound written from git's documentation (empty/./.. component, any-case .git, NTFS and HFS "
    "spellings under the respective setting); C git 2.39.5 is checked in-run to refuse every such path; permission bits of files "
    "inside the work tree are exercised, not judged",
    "an operation that burns more than 6 s of CPU time (porcelain.status walks symlink cycles exponentially) is cut off and judged on "
    "what it had written until then; after the first violating step of a case the remaining steps are not run (secondary damage)",
]

SITE = {
    "clone": "build_index_from_tree", "build": "build_index_from_tree", "reset_index": "build_index_from_tree",
    "checkout": "update_working_tree", "switch": "update_working_tree", "reset_hard": "update_working_tree", "uwt": "update_working_tree",
    "stash_push": "update_working_tree", "reset_mixed": "reset_mixed", "stash_pop_crafted": "stash_pop", "stash_pop": "stash_pop",
    "apply_patch": "apply_patch", "checkout_paths": "path_checkout", "restore": "path_checkout", "reset_file": "path_checkout",
}
WHOLE_TREE_OPS = {"clone", "build", "reset_index", "checkout", "switch", "reset_hard", "uwt", "stash_pop_crafted"}

OWNED = {
    "index", "index.lock", "HEAD", "ORIG_HEAD", "logs", "logs/HEAD", "logs/refs", "logs/refs/heads", "logs/refs/heads/master",
    "refs/heads/master", "refs/stash", "logs/refs/stash", "objects",
}
CLONE_OK = {
    "HEAD", "config", "description", "index", "info", "info/exclude", "hooks", "branches", "objects", "objects/info", "objects/pack",
    "refs", "refs/heads", "refs/tags", "refs/remotes", "refs/remotes/origin", "packed-refs", "logs", "logs/HEAD", "logs/refs",
    "logs/refs/heads", "logs/refs/remotes", "logs/refs/remotes/origin",
}
_OWNED_RE = re.compile(r"^(?:logs/)?refs/heads/t[0-9]+$")  # branches the cases switch to (HEAD may be attached to them)
CANARY = b"CANARY\n"
UNIVERSE_FILES = ["a", "b", "c", "x", "f", "pre-commit", "config"]


def _hermetic_env():
    os.environ["GIT_CONFIG_GLOBAL"] = "/dev/null"
    os.environ["GIT_CONFIG_NOSYSTEM"] = "1"
    os.environ.pop("GIT_CONFIG_SYSTEM", None)
    os.environ.pop("XDG_CONFIG_HOME", None)
    for k in list(os.environ):
        if k.startswith("GIT_") and k not in ("GIT_CONFIG_GLOBAL", "GIT_CONFIG_NOSYSTEM"):
            del os.environ[k]
    os.umask(0o022)


# ---------------------------------------------------------------------------
# the sandbox


def _write(path, data=CANARY, mode=0o644):
    fd = os.open(path, os.O_WRONLY | os.O_CREAT | os.O_EXCL | os.O_NOFOLLOW, mode)
    try:
        os.write(fd, data)
    finally:
        os.close(fd)
    os.chmod(path, mode)


def _plant(d):
    """The canary forest planted at every level around the work tree."""
    _write(os.path.join(d, "canary.txt"))
    o = os.path.join(d, "other")
    os.mkdir(o)
    for n in UNIVERSE_FILES:
        _write(os.path.join(o, n))
    for sub, names in (("sub", ["b", "c"]), ("hooks", ["x", "pre-commit"]), ("heads", ["b"])):
        os.mkdir(os.path.join(o, sub))
        for n in names:
            _write(os.path.join(o, sub, n))


class Env:
    def __init__(self, ctx, case):
        self.case = case
        self.top = ctx.scratch.new("c")
        self.S = os.path.join(self.top, "r0", "r1")
        self.sandbox = os.path.join(self.S, "sandbox")
        self.mid = os.path.join(self.sandbox, "mid")
        self.W = os.path.join(self.mid, "work")
        os.makedirs(self.W)
        _write(os.path.join(self.top, "r0", "canary.txt"))
        for d in (self.S, self.sandbox, self.mid):
            _plant(d)
        os.symlink("other", os.path.join(self.sandbox, "lnk-canary"))
        self.cwd = os.path.join(self.S, "cwd")
        os.mkdir(self.cwd)
        _write(os.path.join(self.cwd, "canary.txt"))
        os.chdir(self.cwd)
        self.src = os.path.join(self.S, "src")
        self.Sb, self.Wb = os.fsencode(self.S), os.fsencode(self.W)
        cfg = case["cfg"]
        self.ntfs = True if cfg.get("ntfs") is None else cfg["ntfs"]
        self.hfs = False if cfg.get("hfs") is None else cfg["hfs"]
        self.tree_ids = []
        self.commit_ids = []
        self.markers = []  # per tree: {marker: (path, kind)}
        self.objects = []
        self.index_tree = None  # tree id the index was last set to by a successful operation
        self.entries = set()
        self.links = {}
        self.materialised = 0
        self.configured = False
        self.snap = None
        self.outcomes = []
        self._build_objects()

    # -- placeholders ------------------------------------------------------
    def subst(self, b: bytes) -> bytes:
        return b.replace(b"@S@", self.Sb).replace(b"@W@", self.Wb)

    # -- objects -----------------------------------------------------------
    def _build_objects(self):
        from dulwich.objects import Blob, Commit, ShaFile, Tree

        def commit(tree_id, msg, parents=()):
            c = Commit()
            c.tree = tree_id
            c.parents = list(parents)
            c.author = c.committer = b"C17 <c17@example.com>"
            c.author_time = c.commit_time = 1000000000
            c.author_timezone = c.commit_timezone = 0
            c.message = msg
            self.objects.append(c)
            return c.id

        self._commit = commit

        def build(spec, ti, prefix, mk):
            raw = []
            for mode, name, kind, payload in spec:
                name = self.subst(name)
                path = prefix + name
                if kind == "t":
                    sha = build(payload, ti, path + b"/", mk)
                elif kind == "g":
                    sha = b"%040x" % (h64("gitlink", path) | 1)
                else:
                    if kind == "l":
                        data = self.subst(payload)
                    else:
                        m = G.marker(ti, path)
                        mk[m] = path
                        data = m + b"\n" + payload
                    b = Blob.from_string(data)
                    self.objects.append(b)
                    sha = b.id
                raw.append(b"%o %s\0" % (mode, name) + bytes.fromhex(sha.decode("ascii")))
            t = ShaFile.from_raw_string(Tree.type_num, b"".join(raw))
            self.objects.append(t)
            return t.id

        for ti, spec in enumerate(self.case["trees"]):
            mk = {}
            tid = build(spec, ti, b"", mk)
            self.tree_ids.append(tid)
            self.markers.append(mk)
            self.commit_ids.append(commit(tid, b"tree %d" % ti))
        empty = ShaFile.from_raw_string(Tree.type_num, b"")
        self.objects.append(empty)
        self.empty_tree = empty.id
        self.empty_commit = commit(empty.id, b"empty")

    def add_objects(self, repo):
        for o in self.objects:
            repo.object_store.add_object(o)

    # -- repositories --------------------------------------------------------
    def init_work(self):
        from dulwich.repo import Repo

        with Repo.init(self.W) as r:
            self.add_objects(r)
        self.configure()

    def init_src(self, ti):
        from dulwich.repo import Repo

        os.mkdir(self.src)
        with Repo.init_bare(self.src) as r:
            self.add_objects(r)
            r.refs[b"refs/heads/master"] = self.commit_ids[ti]
            for i, c in enumerate(self.commit_ids):
                r.refs[b"refs/heads/t%d" % i] = c

    def configure(self):
        """Settings, canaries inside .git, pinned refs.  Plain file writes by the harness."""
        from dulwich.repo import Repo

        git = os.path.join(self.W, ".git")
        cfg = self.case["cfg"]
        lines = ["[user]\n\tname = C17\n\temail = c17@example.com\n[gc]\n\tauto = 0\n[core]\n"]
        for key, name in (("ntfs", "protectNTFS"), ("hfs", "protectHFS"), ("symlinks", "symlinks")):
            if cfg.get(key) is not None:
                lines.append(f"\t{name} = {'true' if cfg[key] else 'false'}\n")
        with open(os.path.join(git, "config"), "a") as f:
            f.write("".join(lines))
        with Repo(self.W) as r:
            self.add_objects(r)
        hooks = os.path.join(git, "hooks")
        os.makedirs(hooks, exist_ok=True)
        _write(os.path.join(hooks, "pre-commit"), CANARY, 0o755)
        for n in ("b", "c", "x"):
            _write(os.path.join(hooks, n))
        os.mkdir(os.path.join(hooks, "sub"))
        _write(os.path.join(hooks, "sub", "c"))
        _write(os.path.join(git, "canary"))
        os.makedirs(os.path.join(git, "refs", "heads"), exist_ok=True)
        os.makedirs(os.path.join(git, "refs", "tags"), exist_ok=True)
        ref = self.empty_commit + b"\n"
        for n in ("a", "b", "c", "x", "canary"):
            _write(os.path.join(git, "refs", "heads", n), ref)
        _write(os.path.join(git, "refs", "tags", "canary"), ref)
        for i, c in enumerate(self.commit_ids):
            p = os.path.join(git, "refs", "heads", "t%d" % i)
            if not os.path.lexists(p):
                _write(p, c + b"\n")
        if self.case.get("born") and not os.path.lexists(os.path.join(git, "refs", "heads", "master")):
            _write(os.path.join(git, "refs", "heads", "master"), ref)
            self.index_tree = self.empty_tree
        self.configured = True
        self.snap = None

    def snapshot(self):
        return R.snapshot(self.top, self.W)

    def cleanup(self):
        os.chdir("/")
        shutil.rmtree(self.top, ignore_errors=True)


# ---------------------------------------------------------------------------
# patches


def render_patch(env, step):
    strip = step.get("strip", 1)
    out = []
    for k, fp in enumerate(step["files"]):
        path = env.subst(fp["path"])
        a = (b"a/" if strip else b"") + path
        b = (b"b/" if strip else b"") + path
        mode = b"%o" % fp.get("mode", 0o100644)
        mk = G.marker(1000 + k, fp["path"])
        first = None
        for m, p in env.markers[0].items():
            if p == path:
                first = m
        ctxline = first if first is not None else CANARY.rstrip(b"\n")
        kind = fp["kind"]
        if kind == "add":
            out.append(b"diff --git %s %s\nnew file mode %s\n--- /dev/null\n+++ %s\n@@ -0,0 +1,2 @@\n+%s\n+added\n" % (a, b, mode, b, mk))
        elif kind in ("modify", "modify3"):
            hdr = b"diff --git %s %s\n" % (a, b)
            if fp.get("mode", 0o100644) != 0o100644:
                hdr += b"old mode 100644\nnew mode %s\n" % mode
            out.append(hdr + b"--- %s\n+++ %s\n@@ -1,1 +1,2 @@\n %s\n+%s\n" % (a, b, ctxline, mk))
        elif kind == "delete":
            out.append(b"diff --git %s %s\ndeleted file mode 100644\n--- %s\n+++ /dev/null\n@@ -1,1 +0,0 @@\n-%s\n" % (a, b, a, ctxline))
        else:
            to = env.subst(fp["to"])
            b2 = (b"b/" if strip else b"") + to
            word = b"rename" if kind == "rename" else b"copy"
            txt = b"diff --git %s %s\nsimilarity index 90%%\n%s from %s\n%s to %s\n" % (a, b2, word, path, word, to)
            if fp.get("hunks"):
                txt += b"--- %s\n+++ %s\n@@ -1,1 +1,2 @@\n %s\n+%s\n" % (a, b2, ctxline, mk)
            out.append(txt)
    return b"".join(out)


# ---------------------------------------------------------------------------
# operations


def _craft_stash(env, step):
    """refs/stash + its reflog pointing at a stash-shaped commit whose trees are the generated ones (harness writes)."""
    from dulwich.reflog import format_reflog_line
    from dulwich.repo import Repo

    git = os.path.join(env.W, ".git")
    with Repo(env.W) as r:
        try:
            head = r.refs[b"HEAD"]
        except KeyError:
            # a stash needs a commit to sit on: give the unborn branch the empty commit (as `git commit --allow-empty` would)
            head = env.empty_commit
            master = os.path.join(git, "refs", "heads", "master")
            if not os.path.lexists(master):
                _write(master, head + b"\n")
        parents = [head]
        commits = []
        it = step.get("index_tree")
        if it is not None:
            from dulwich.objects import Commit

            ic = Commit()
            ic.tree = env.tree_ids[it % len(env.tree_ids)]
            ic.parents = [head]
            ic.author = ic.committer = b"C17 <c17@example.com>"
            ic.author_time = ic.commit_time = 1000000001
            ic.author_timezone = ic.commit_timezone = 0
            ic.message = b"index on master"
            commits.append(ic)
            parents.append(ic.id)
        from dulwich.objects import Commit

        sc = Commit()
        sc.tree = env.tree_ids[step["tree"]]
        sc.parents = parents
        sc.author = sc.committer = b"C17 <c17@example.com>"
        sc.author_time = sc.commit_time = 1000000002
        sc.author_timezone = sc.commit_timezone = 0
        sc.message = b"WIP on master"
        commits.append(sc)
        for c in commits:
            r.object_store.add_object(c)
    for p in (os.path.join(git, "refs", "stash"), os.path.join(git, "logs", "refs", "stash")):
        if os.path.lexists(p):
            os.unlink(p)
    os.makedirs(os.path.join(git, "logs", "refs"), exist_ok=True)
    _write(os.path.join(git, "refs", "stash"), sc.id + b"\n")
    _write(os.path.join(git, "logs", "refs", "stash"),
           format_reflog_line(None, sc.id, b"C17 <c17@example.com>", 1000000002, 0, b"WIP on master") + b"\n")


def _user_edit(env):
    """A user edit inside the work tree, made without following anything."""
    p = os.path.join(env.W, "user-edit.txt")
    if not os.path.lexists(p):
        _write(p, b"edited by the user\n")
        return
    st = os.lstat(p)
    if stat.S_ISREG(st.st_mode) and st.st_nlink == 1:
        fd = os.open(p, os.O_WRONLY | os.O_APPEND | os.O_NOFOLLOW)
        try:
            os.write(fd, b"more\n")
        finally:
            os.close(fd)


def prepare(env, step):
    """Harness-side preparation of a step (before the 'before' snapshot).  Returns False if the step cannot run."""
    op = step["op"]
    have_repo = os.path.isdir(os.path.join(env.W, ".git"))
    if op == "clone":
        if have_repo or os.path.exists(env.src):
            return False
        env.init_src(step["tree"])
        env.snap = None
        return True
    if not have_repo:
        env.init_work()
    elif not env.configured:
        env.configure()
    lock = os.path.join(env.W, ".git", "index.lock")
    if os.path.lexists(lock):
        os.unlink(lock)
        env.snap = None
    if op == "stash_pop_crafted":
        _craft_stash(env, step)
        env.snap = None
    elif op == "stash_push":
        _user_edit(env)
    return True


class OpCpuLimit(BaseException):
    """The operation used more CPU time than any legitimate checkout of a handful of files needs."""


OP_CPU_SECONDS = 6.0


def _on_sigprof(signum, frame):
    raise OpCpuLimit()


def perform(env, step):
    """Run one operation under a CPU-time (not wall-clock) limit: dulwich walks that follow symlink cycles
    (a -> ".", hooks -> "..") are exponential and would never finish.  Hitting the limit is an outcome like a
    refusal; confinement is judged on whatever was written until then."""
    old = signal.signal(signal.SIGPROF, _on_sigprof)
    signal.setitimer(signal.ITIMER_PROF, OP_CPU_SECONDS, 0.5)
    try:
        _perform(env, step)
    finally:
        signal.setitimer(signal.ITIMER_PROF, 0)
        signal.signal(signal.SIGPROF, old)


def _perform(env, step):
    """Call dulwich.  Everything here is the code under test driven through its public API."""
    from dulwich import porcelain

    op = step["op"]
    W = env.W
    if op == "clone":
        porcelain.clone(env.src, W, errstream=io.BytesIO())
        return
    tid = env.tree_ids[step["tree"]] if "tree" in step and op != "apply_patch" else None
    cid = env.commit_ids[step["tree"]] if tid is not None else None
    if op == "build":
        from dulwich.index import build_index_from_tree, get_path_element_validator
        from dulwich.repo import Repo

        with Repo(W) as r:
            build_index_from_tree(r.path, r.index_path(), r.object_store, tid,
                                  validate_path_element=get_path_element_validator(r.get_config_stack()))
    elif op == "reset_index":
        from dulwich.repo import Repo

        with Repo(W) as r:
            r.get_worktree().reset_index(tid)
    elif op == "checkout":
        porcelain.checkout(W, target=cid, force=bool(step.get("force")))
    elif op == "switch":
        if step.get("detach"):
            porcelain.switch(W, target=cid, force=bool(step.get("force")), detach=True)
        else:
            porcelain.switch(W, target=b"t%d" % step["tree"], force=bool(step.get("force")))
    elif op == "reset_hard":
        porcelain.reset(W, "hard", treeish=cid)
    elif op == "reset_mixed":
        porcelain.reset(W, "mixed", treeish=cid)
    elif op == "uwt":
        from dulwich.diff_tree import tree_changes
        from dulwich.index import update_working_tree
        from dulwich.repo import Repo

        with Repo(W) as r:
            old = env.index_tree
            update_working_tree(r, old, tid, change_iterator=tree_changes(r.object_store, old, tid),
                                allow_overwrite_modified=bool(step.get("force")))
    elif op in ("stash_pop_crafted", "stash_pop"):
        porcelain.stash_pop(W)
    elif op == "stash_push":
        porcelain.stash_push(W)
    elif op == "checkout_paths":
        porcelain.checkout(W, target=cid, paths=[env.subst(p) for p in step["paths"]])
    elif op == "restore":
        porcelain.restore(W, paths=[env.subst(p) for p in step["paths"]], source=cid)
    elif op == "reset_file":
        from dulwich.repo import Repo

        with Repo(W) as r:
            for p in step["paths"]:
                porcelain.reset_file(r, os.fsdecode(env.subst(p)), target=cid)
    elif op == "apply_patch":
        porcelain.apply_patch(W, patch_file=io.BytesIO(render_patch(env, step)), strip=step.get("strip", 1),
                              three_way=bool(step.get("three_way")), reverse=bool(step.get("reverse")), cached=bool(step.get("cached")))
    else:
        raise HarnessError(f"unknown operation {op!r}")


# ---------------------------------------------------------------------------
# the oracle


def _git_rel(env, rel):
    """Path relative to <work>/.git if rel (relative to the snapshot root) lies inside it, else None."""
    g = os.path.relpath(os.path.join(env.W, ".git"), env.top)
    if rel == g:
        return ""
    if rel.startswith(g + "/"):
        return rel[len(g) + 1:]
    return None


def judge_step(ctx, env, step, k, before, after, outcome, check, case, links):
    op = step["op"]
    site = SITE[op]
    changes = R.diff_snapshots(before, after, fold=False)
    bad = {}  # (region, mechanism, class) -> [lines]

    def flag(region, rel, kind, detail):
        mech = R.mechanism(os.path.join(env.top, rel), links)
        cls = "deleted" if kind == "deleted" else "written"
        bad.setdefault((region, mech, cls), []).append((rel, kind, detail))

    for rel, kind, detail in changes:
        grel = _git_rel(env, rel)
        if grel is None:
            flag("outside", rel, kind, detail)
            continue
        rec = after.get(rel)
        has_marker = rec is not None and rec[0] == "f" and rec[5] is not None and R.MARKER_RE.search(rec[5]) is not None
        if op == "clone":
            if grel.startswith("objects/") and grel not in CLONE_OK:
                ok = R.valid_object_path(grel)
            else:
                ok = grel == "" or grel in CLONE_OK or grel.startswith(("refs/heads/", "refs/remotes/origin/", "refs/tags/", "logs/"))
            if not ok or (rec is not None and rec[0] == "l") or (has_marker and not grel.startswith("objects/")):
                flag("dotgit", rel, kind, detail)
            continue
        if grel.startswith("objects/"):
            if kind == "created" and R.valid_object_path(grel) and rec[0] in ("f", "d"):
                continue
            flag("dotgit-objects", rel, kind, detail)
            continue
        if grel in OWNED or _OWNED_RE.match(grel):
            if rec is not None and rec[0] == "l":
                flag("dotgit", rel, "symlink", detail)
            elif has_marker:
                flag("dotgit", rel, "blob-content", detail)
            continue
        flag("dotgit", rel, kind, detail)
    for (region, mech, cls), lines in sorted(bad.items()):
        folded = R.fold(lines)
        shown = "; ".join(f"{rel}: {kind_} ({detail})" for rel, kind_, detail in folded[:6])
        more = f" (+{len(folded) - 6} more)" if len(folded) > 6 else ""
        ctx.fail(
            f"C17:{site}:{region}:{mech}:{cls}",
            f"step {k} {op} (tree {step.get('tree')}, outcome {outcome}) touched files it must not touch: {shown}{more}  "
            f"[paths relative to the scratch root; the work tree is r0/r1/sandbox/mid/work]",
            check, case,
        )
    return bool(bad)


def judge_unsafe(ctx, env, step, k, outcome, check, case, new_entries):
    """No entry may appear in the work tree at a path that must be refused under the settings in force."""
    op = step["op"]
    if op in ("reset_mixed", "apply_patch", "stash_push"):
        return False
    ntfs, hfs = (True, False) if op == "clone" else (env.ntfs, env.hfs)
    seen = set()
    for rel in sorted(new_entries):
        cls = R.unsafe_class(rel, ntfs, hfs)
        if cls is not None and cls not in seen:
            seen.add(cls)
            ctx.fail(
                f"C17:{SITE[op]}:unsafe-path-materialised:{cls}",
                f"step {k} {op} (tree {step.get('tree')}, outcome {outcome}, protectNTFS={ntfs}, protectHFS={hfs}) created the work tree "
                f"entry {rel!r}, a path that must be refused ({cls})",
                check, case,
            )
    return bool(seen)


def expand_steps(steps):
    out = []
    for s in steps:
        if s["op"] == "stash_roundtrip":
            out.append({"op": "stash_push"})
            out.append({"op": "stash_pop"})
        else:
            out.append(s)
    return out


REFUSAL_TYPES = ("InvalidPathError",)


def execute(ctx, case, check="seq", record=True):
    """Run one case.  Returns a dict describing what happened (for labels and the self-test)."""
    env = Env(ctx, case)
    outcomes = []
    refused_path = False
    violated = False
    try:
        for k, step in enumerate(expand_steps(case["steps"])):
            try:
                ready = prepare(env, step)
            except HarnessError:
                raise
            except Exception as e:
                if violated:
                    # an earlier step of this case already broke .git (reported above); the harness cannot go on in it
                    outcomes.append((step["op"], "skipped"))
                    break
                raise HarnessError(f"c17 harness could not prepare step {k} {step['op']}: {type(e).__name__}: {e}") from e
            if not ready:
                outcomes.append((step["op"], "skipped"))
                continue
            before = env.snap if env.snap is not None else env.snapshot()
            try:
                perform(env, step)
                outcome = "ok"
            except HarnessError:
                raise
            except Exception as e:
                outcome = type(e).__name__
                msg = str(e)
                if outcome in REFUSAL_TYPES or "refusing" in msg or "outside repository" in msg or "invalid path" in msg:
                    refused_path = True
            except OpCpuLimit as e:
                outcome = "cpu-limit"
                if os.environ.get("C17_DEBUG"):
                    print("cpu-limit in", step, "".join(traceback.format_tb(e.__traceback__)[-6:]), flush=True)
            except BaseException as e:
                if type(e).__name__ != "PanicException":
                    raise
                outcome = "PanicException"
            after = env.snapshot()
            env.snap = after
            entries, links = R.scan_worktree(env.W)
            all_links = dict(env.links)
            all_links.update(links)
            if judge_step(ctx, env, step, k, before, after, outcome, check, case, all_links):
                violated = True
            if judge_unsafe(ctx, env, step, k, outcome, check, case, entries - env.entries):
                violated = True
            env.entries, env.links = entries, links
            if entries:
                env.materialised += 1
            if violated:
                # whatever was damaged (HEAD, index, config, ...) would only produce secondary alarms in later steps
                outcomes.append((step["op"], outcome))
                break
            if outcome == "ok" and "tree" in step and step["op"] in WHOLE_TREE_OPS | {"reset_mixed"}:
                env.index_tree = env.tree_ids[step["tree"]]
            if step["op"] == "clone":
                if not os.path.isdir(os.path.join(env.W, ".git")):
                    outcomes.append((step["op"], outcome))
                    break
                env.index_tree = env.tree_ids[step["tree"]] if outcome == "ok" else None
            outcomes.append((step["op"], outcome))
        info = dict(outcomes=outcomes, materialised=env.materialised, refused_path=refused_path, ntfs=env.ntfs, hfs=env.hfs)
    finally:
        env.cleanup()
    if record:
        _record(ctx, case, info)
    return info


def _has_unsafe_name(case, ntfs, hfs):
    for t in case["trees"]:
        for p, m, k, pl in G.flatten(t):
            p2 = p.replace(b"@S@", b"/S").replace(b"@W@", b"/W")
            if R.must_refuse(p2, ntfs, hfs) or R.must_refuse(p2, True, False):
                return True
    for s in case["steps"]:
        for fp in s.get("files", ()):
            for key in ("path", "to"):
                if key in fp:
                    p2 = fp[key].replace(b"@S@", b"/S").replace(b"@W@", b"/W")
                    if R.must_refuse(p2, ntfs, hfs):
                        return True
    return False


def _record(ctx, case, info):
    labels = set(G.static_labels(case))
    labels.add("shape:" + case.get("shape", "?"))
    for op, outcome in info["outcomes"]:
        labels.add("op:" + op)
        labels.add(f"outcome:{'ok' if outcome == 'ok' else 'skipped' if outcome == 'skipped' else 'raised:' + outcome}")
    cfg = case["cfg"]
    labels.add(f"cfg:ntfs={cfg.get('ntfs')},hfs={cfg.get('hfs')}")
    if cfg.get("symlinks") is False:
        labels.add("cfg:symlinks=false")
    unsafe = _has_unsafe_name(case, info["ntfs"], info["hfs"])
    esc = G.has_escaping_symlink(case)
    if unsafe:
        labels.add("unsafe-name")
    if esc:
        labels.add("escaping-symlink")
    reached = info["materialised"] > 0 or info["refused_path"]
    if info["refused_path"]:
        labels.add("path-refused")
    nontrivial = (unsafe or esc) and reached
    ctx.case(("c17", repr(case)), nontrivial=nontrivial, labels=sorted(labels), sample=case if nontrivial and len(repr(case)) < 1500 else None)


# ---------------------------------------------------------------------------
# minimisation (plain loops cannot use Hypothesis' shrinker)


class _Probe:
    """A throw-away context that only collects buckets."""

    def __init__(self, ctx):
        self.scratch = ctx.scratch
        self.buckets = set()

    def fail(self, bucket, message, check, case):
        self.buckets.add(bucket)
        return False

    def case(self, *a, **kw):
        pass


def _fails_with(ctx, case, bucket):
    p = _Probe(ctx)
    try:
        execute(p, case, record=False)
    except HarnessError:
        return False
    return bucket in p.buckets


def minimise(ctx, case, bucket, budget=40):
    import copy

    best = copy.deepcopy(case)
    used = [0]

    def attempt(cand):
        if used[0] >= budget:
            return False
        used[0] += 1
        return _fails_with(ctx, cand, bucket)

    changed = True
    while changed and used[0] < budget:
        changed = False
        for i in range(len(best["steps"]) - 1, -1, -1):
            if len(best["steps"]) <= 1:
                break
            cand = copy.deepcopy(best)
            del cand["steps"][i]
            if attempt(cand):
                best, changed = cand, True
        for ti in range(len(best["trees"])):
            i = len(best["trees"][ti]) - 1
            while i >= 0:
                cand = copy.deepcopy(best)
                del cand["trees"][ti][i]
                if attempt(cand):
                    best, changed = cand, True
                else:
                    e = best["trees"][ti][i]
                    if e[2] == "t":
                        for j in range(len(e[3]) - 1, -1, -1):
                            cand = copy.deepcopy(best)
                            ent = list(cand["trees"][ti][i])
                            ent[3] = list(ent[3])
                            del ent[3][j]
                            cand["trees"][ti][i] = tuple(ent)
                            if attempt(cand):
                                best, changed = cand, True
                i -= 1
        for s in range(len(best["steps"])):
            files = best["steps"][s].get("files")
            if files and len(files) > 1:
                for j in range(len(files) - 1, -1, -1):
                    if len(best["steps"][s]["files"]) <= 1:
                        break
                    cand = copy.deepcopy(best)
                    del cand["steps"][s]["files"][j]
                    if attempt(cand):
                        best, changed = cand, True
        for key in ("ntfs", "hfs", "symlinks"):
            if best["cfg"].get(key) is not None:
                cand = copy.deepcopy(best)
                cand["cfg"][key] = None
                if attempt(cand):
                    best, changed = cand, True
        if best.get("born"):
            cand = copy.deepcopy(best)
            cand["born"] = False
            if attempt(cand):
                best, changed = cand, True
    return best


class _Collect:
    """Context wrapper used by the search loops: a failing case is minimised once per bucket and worker."""

    def __init__(self, ctx):
        self.ctx = ctx
        self.scratch = ctx.scratch
        self.pending = []

    def fail(self, bucket, message, check, case):
        self.pending.append((bucket, message, check, case))
        return False

    def case(self, *a, **kw):
        self.ctx.case(*a, **kw)


_minimised = set()


def run_case(ctx, case):
    col = _Collect(ctx)
    execute(col, case)
    for bucket, message, check, c in col.pending:
        if bucket in ctx.known_open:
            ctx.fail(bucket, message, check, c)
            continue
        if bucket not in _minimised:
            _minimised.add(bucket)
            small = minimise(ctx, c, bucket)
            if small != c:
                p = _Collect(ctx)
                execute(p, small, record=False)
                for b2, m2, ch2, c2 in p.pending:
                    if b2 == bucket:
                        ctx.fail(b2, m2, ch2, c2)
                        break
                else:
                    ctx.fail(bucket, message, check, c)
                continue
        ctx.fail(bucket, message, check, c)


# ---------------------------------------------------------------------------
# self-test of the harness


def _capture(ctx, case):
    p = _Collect(ctx)
    p.case = lambda *a, **kw: None
    info = execute(p, case, record=False)
    return info, p.pending


def selftest(ctx):
    from .. import cgit

    cgit.selfcheck()
    names = []
    for n in G.ADVERSARIAL + G.PATCH_PATHS + G.UNIVERSE:
        names.append(n.replace(b"@S@", b"/scratch").replace(b"@W@", b"/scratch/work"))
    checked = R.selftest_against_git(names, ctx.scratch.path)
    ctx.note("reference_names_checked_against_git", checked)
    ctx.note("git_version", cgit.version())

    # 1. a benign history must run through every operation without refusal and without alarms
    t0 = G.canonical([G.tree(b"a", [G.blob(b"b"), G.blob(b"c", G.X)]), G.blob(b"p", G.F, b"line2\n"), G.link(b"lnk", b"p"), G.blob(b"keep")])
    t1 = G.canonical([G.tree(b"a", [G.blob(b"b"), G.blob(b"x")]), G.blob(b"p", G.F, b"line2\n"), G.tree(b"d", [G.blob(b"g")]), G.blob(b"keep")])
    patch = {"op": "apply_patch", "tree": 0, "strip": 1, "files": [{"kind": "add", "path": b"newfile"}, {"kind": "modify", "path": b"p"}]}
    for first in G.FIRST_OPS:
        if first == "stash_pop_crafted":
            continue
        steps = [{"op": first, "tree": 0}]
        for op in ("checkout", "reset_hard", "switch", "uwt", "reset_index", "build", "stash_pop_crafted", "reset_mixed"):
            steps.append({"op": op, "tree": (len(steps) % 2), "force": True, "detach": len(steps) % 3 == 0, "index_tree": 0})
        steps += [{"op": "reset_hard", "tree": 0}, patch, {"op": "reset_hard", "tree": 1}, {"op": "stash_roundtrip"},
                  {"op": "checkout_paths", "tree": 0, "paths": [b"a/c", b"lnk"]}, {"op": "restore", "tree": 1, "paths": [b"d/g"]},
                  {"op": "reset_file", "tree": 0, "paths": [b"a/b"]}]
        case = {"cfg": {"ntfs": None, "hfs": None, "symlinks": None}, "born": first != "clone", "trees": [t0, t1], "steps": steps, "shape": "selftest"}
        info, pending = _capture(ctx, case)
        notok = [(op, o) for op, o in info["outcomes"] if o != "ok"]
        if notok or pending:
            raise HarnessError(f"c17 harness self-test (benign history, first op {first}): outcomes {notok!r}, alarms {[p[:2] for p in pending]!r}")
    # 2. the snapshot must see a planted escape, inside and outside .git
    for rel, expect in (("../other/evil", "outside:by-name:written"), (".git/hooks/evil", "dotgit:by-name:written"),
                        (".git/hooks/pre-commit", "dotgit:by-name:written"), ("../other/b", "outside:by-name:deleted"),
                        (".git/HEAD", "dotgit:by-name:written"), (".git/objects/evil", "dotgit-objects:by-name:written")):
        case = {"cfg": {}, "born": True, "trees": [t0], "steps": [{"op": "reset_hard", "tree": 0}, {"op": "reset_index", "tree": 0}], "shape": "selftest"}
        env = Env(ctx, case)
        try:
            prepare(env, case["steps"][0])
            before = env.snapshot()
            target = os.path.normpath(os.path.join(env.W, rel))
            if expect.endswith("deleted"):
                os.unlink(target)
            else:
                with open(target, "wb") as f:
                    f.write(G.marker(0, b"a/b") + b"\n")
            after = env.snapshot()
            p = _Collect(ctx)
            judge_step(p, env, case["steps"][0], 0, before, after, "ok", "seq", case, {})
            got = [b for b, *_ in p.pending]
            if got != [f"C17:update_working_tree:{expect}"]:
                raise HarnessError(f"c17 snapshot self-test: planted {rel} -> buckets {got!r}, expected {expect}")
        finally:
            env.cleanup()


# ---------------------------------------------------------------------------
# search


def _search(ctx, item):
    part, n = item
    _hermetic_env()
    rnd = random.Random(h64("c17", part, ctx.seed, ctx.shard))  # picks from the enumerated pools only
    gen = {"A": G.shape_case, "B": G.free_case, "C": G.patch_case}[part]
    for _ in range(n):
        run_case(ctx, gen(rnd))


FLOORS = {  # share of all cases; below it the generator has regressed (harness error in thorough tier)
    "symlink-then-directory": 0.08, "duplicate-name": 0.06, "dotgit-variant": 0.10, "escaping-symlink": 0.50, "unsafe-name": 0.25,
    "path-refused": 0.20, "outcome:ok": 0.60, "directory-then-symlink": 0.03, "file-then-directory": 0.02, "slash-in-name": 0.08,
    "setuid-setgid-sticky": 0.05, "op:clone": 0.08, "op:apply_patch": 0.10, "op:stash_pop_crafted": 0.08, "op:reset_mixed": 0.08,
}


def run(ctx):
    try:
        _run(ctx)
    except BaseException:
        ctx.cleanup()  # the runner does not remove the scratch directory on a harness error
        raise


def _run(ctx):
    _hermetic_env()
    selftest(ctx)
    a, b, c = ctx.scale((120, 120, 64), (6000, 6000, 3000))
    items = []
    for _ in range(16):
        items += [("A", a), ("B", b), ("C", c)]
    # 48 items dealt round-robin over 16 workers: every worker runs one A, one B and one C block with its own stream
    before = ctx.evaluations
    ctx.parallel(_search, items)
    total = ctx.evaluations - before
    ctx.note("parts", "A enumerated CVE shapes (sampled), B free-form trees and sequences, C patch application")
    low = {l: round(ctx.labels.get(l, 0) / max(total, 1), 3) for l, f in FLOORS.items() if ctx.labels.get(l, 0) < f * total}
    if low:
        ctx.note("generator_warning", low)
        print(f"GENERATOR-WARNING: label shares below their floors: {low}")
        if ctx.thorough:
            raise HarnessError(f"c17 generator regression: label shares below their floors: {low}")


def replay(ctx, check, case):
    _hermetic_env()
    if check != "seq":
        raise HarnessError(f"unknown check {check!r}")
    execute(ctx, case, check)
