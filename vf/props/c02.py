"""C02 — pack and pack-index round trip, internally consistent, interoperable with C git."""

from __future__ import annotations

import io
import os
import random
import shutil
import struct

from .. import cgit
from ..core import HarnessError, run_hypothesis
from ..gen import c02_gen as gen
from ..model import c02_packref as ref
from ..model import packfmt

PROPERTY = "C02"
LEVEL = "exploration"
NEEDS_RUST = True
AUTO_TWINS = True
RULE = (
    "Hypothesis-generated closed object sets (0..40 objects by construction: blob families made of small edits so deltas "
    "pay off, blobs at the size-varint boundaries 15/16, 2047/2048, 2^18+-1 and around 64 KiB, explicit copy/insert "
    "targets with copies > 64 KiB and 1..3-byte offsets, trees/commits/tags on top, blobs whose bytes equal a "
    "tree/commit/tag of the set, duplicated content) x a drawn permutation x options.  Checks: [write] write_pack / "
    "write_pack_objects + write_pack_index(v1/v2/v3) with deltify/window/compression level -1..9/SHA-1|SHA-256/path "
    "hints; [records] write_pack_data over hand-built UnpackedObjects (REF deltas whose base comes later, OFS when "
    "earlier, chains, split copies; iterator/list/file targets); [store] DiskObjectStore.add_objects/add_pack_data with "
    "configured index version; [gitpack] packs made by `git pack-objects --threads=1` (--depth 0..50, --window, "
    "--delta-base-offset on/off, --thin --revs; chains of 60/120/250 growing versions give depth up to 50) read through "
    "git's idx (v1/v2), PackData.create_index(v1/v2/v3), add_pack and add_thin_pack (drawn short reads, bases loose or "
    "packed); [reuse] write_pack_from_container with reuse_deltas/deltify from a store holding git-made delta packs "
    "and loose objects (subset, other_haves -> thin output); [idx] synthetic index tables with offsets around 2^31 .. "
    "2^63-1.  Every pack/idx dulwich writes is parsed by an independent reader (trailers, per-object CRCs, fan-out, "
    "strictly increasing names, offsets = object starts, 64-bit table used exactly for offsets >= 2^31, mapping == "
    "input), must be byte-identical to what `git index-pack` writes for v1/v2 (reference writer and the real git), is "
    "verified by git index-pack --strict / verify-pack -v / cat-file --batch / fsck, and is read back by dulwich by "
    "random access (drawn order, every id twice, hex and binary, 50 absent ids + the bytes behind the name table), "
    "iteration, iter_unpacked, sorted_entries, iterentries, check().  Non-trivial = >= 2 objects and one of {delta "
    "emitted, OFS and REF in one pack, chain depth >= 3, size-boundary object, split copy, large offset, idx v1/v3, "
    "SHA-256, git-made chain depth >= 10}; distinct by full case encoding."
)
ASSUMPTIONS = [
    "git 2.39.5 is the reference pack/idx reader and writer; the independent reader/writer (vf/model/c02_packref.py, "
    "packfmt.py) is self-tested against it in every run (both hash algorithms, every delta kind, 64-bit offsets via show-index)",
    "idx v3 is dulwich's own layout (git 2.39 has none): only structure and dulwich round trip are checked for it",
    "deltification cost (difflib quadratic, debug-profile Myers (N+M)*D): sets given to deltify are <= 12 objects, "
    "unrelated blobs <= 600 bytes, a single family of near-identical blobs <= 4 KiB; > 64 KiB copies reach the writers "
    "through hand-built records and reused git-made deltas (dulwich's own create_delta at that size is C03's)",
    "a sequence that contains the same object twice is not a set: generated under label duplicate-input, outcome "
    "recorded (dulwich refuses its own pack, git accepts it), never alarmed",
    "SHA-256 object ids are computed by the harness (ShaFile.id is SHA-1 by design)",
    "packs > 2 GiB are not written: 64-bit offsets are exercised through synthetic index tables only",
    "quick tier does not shrink (a deltifying case costs up to seconds): the smallest failing case per bucket is kept",
]

BOUNDARY = {15, 16, 2047, 2048, (1 << 18) - 1, 1 << 18}


# ---------------------------------------------------------------------------
# small helpers


def _fmt(hl):
    from dulwich.object_format import SHA1, SHA256

    return SHA1 if hl == 20 else SHA256


def _shafile(o, hl):
    from dulwich.objects import ShaFile

    if hl == 20:
        return ShaFile.from_raw_string(o.type, o.data)
    return ShaFile.from_raw_string(o.type, o.data, object_format=_fmt(hl))


def _exc_site(e):
    """Innermost dulwich frame of an exception: part of the root-cause bucket."""
    tb = e.__traceback__
    site = "?"
    while tb is not None:
        fn = tb.tb_frame.f_code.co_filename
        if "/dulwich/" in fn:
            site = f"{os.path.basename(fn)[:-3]}.{tb.tb_frame.f_code.co_name}"
        tb = tb.tb_next
    return site


def _exc_file(e):
    tb = e.__traceback__
    fn = ""
    while tb is not None:
        if "/dulwich/" in tb.tb_frame.f_code.co_filename:
            fn = tb.tb_frame.f_code.co_filename
        tb = tb.tb_next
    return fn


def _catch(fn):
    """Run a dulwich call; -> (True, value) or (False, exception).  Only ever wraps code under test."""
    try:
        return True, fn()
    except (KeyboardInterrupt, SystemExit, HarnessError):
        raise
    except BaseException as e:  # PanicException (Rust) derives from BaseException
        return False, e


class Judge:
    """Collects the verdict for one case; at most one failure per stage is reported."""

    def __init__(self, ctx, check, case, hl):
        self.ctx, self.check, self.case, self.hl = ctx, check, case, hl
        self.tag = check + ("/sha256" if hl == 32 else "")
        self.failed = False
        self.any_failed = False

    def fail(self, stage, kind, msg, hashless=False, soft=False):
        """``soft``: the rest of the case is still meaningful; if the bucket is excluded as a known finding the
        later stages (C git) run as if nothing had happened."""
        new = self._report(stage, kind, msg, hashless)
        if soft and not new:
            return
        self.failed = True
        self.any_failed = True

    def _report(self, stage, kind, msg, hashless):
        # the readers are the same whoever wrote the pair: read-stage buckets do not carry the check name
        tag = ("read" + ("" if hashless else self.tag[len(self.check):])) if stage.startswith("read") else self.tag + ":" + stage
        if stage.startswith("read"):
            tag += stage[4:]
        return self.ctx.fail(f"C02:{tag}:{kind}", msg, self.check, self.case)

    def exc(self, stage, e, what):
        self.fail(stage, f"{type(e).__name__}@{_exc_site(e)}", f"{what} raised {type(e).__name__}: {str(e)[:300]}")


def delta_stats(entries):
    """Facts about the written bytes (reference parse): used for labels / non-triviality."""
    kinds = {e.pack_type for e in entries}
    split = False
    for e in entries:
        if e.pack_type in (6, 7):
            d = e.payload
            _, pos = packfmt.read_varint(d, 0)
            _, pos = packfmt.read_varint(d, pos)
            run = None
            while pos < len(d):
                cmd = d[pos]
                pos += 1
                if cmd & 0x80:
                    off = size = 0
                    for i in range(4):
                        if cmd & (1 << i):
                            off |= d[pos] << (8 * i)
                            pos += 1
                    for i in range(3):
                        if cmd & (0x10 << i):
                            size |= d[pos] << (8 * i)
                            pos += 1
                    size = size or 0x10000
                    if run is not None and run == off:
                        split = True
                    run = off + size if size >= 0xFFFF else None
                else:
                    pos += cmd
                    run = None
    return dict(
        ofs=6 in kinds,
        ref=7 in kinds,
        ndelta=sum(1 for e in entries if e.pack_type in (6, 7)),
        depth=max([e.depth for e in entries] or [0]),
        split=split,
        boundary=any(e.size in BOUNDARY or (e.data is not None and len(e.data) in BOUNDARY) for e in entries),
    )


def stat_labels(st, prefix=""):
    out = []
    if st["ndelta"]:
        out.append(prefix + "delta-emitted")
    if st["ofs"] and st["ref"]:
        out.append(prefix + "ofs+ref-in-one-pack")
    elif st["ofs"]:
        out.append(prefix + "ofs-delta")
    elif st["ref"]:
        out.append(prefix + "ref-delta")
    if st["depth"] >= 3:
        out.append(prefix + "chain-depth>=3")
    if st["depth"] >= 10:
        out.append(prefix + "chain-depth>=10")
    if st["split"]:
        out.append(prefix + "copy-split>64K")
    if st["boundary"]:
        out.append(prefix + "size-boundary")
    return out


def absent_ids(expected, hl, seed):
    """50 names that are not in the set: random ones and near misses around the fan-out buckets in use."""
    rnd = random.Random(seed)
    out = set()
    names = sorted(expected)
    for n in names[:12]:
        for delta in (1, -1):
            v = (int.from_bytes(n, "big") + delta) % (1 << (8 * hl))
            out.add(v.to_bytes(hl, "big"))
        out.add(n[:1] + b"\xff" * (hl - 1))
        out.add(n[:1] + b"\x00" * (hl - 1))
    while len(out) < 50:
        out.add(bytes(rnd.getrandbits(8) for _ in range(hl)))
    return [n for n in sorted(out) if n not in expected][:50]


# ---------------------------------------------------------------------------
# oracle 1+2: the written bytes, judged by the independent reader


def judge_bytes(j, pack, idx, expected, idxv, external=None):
    """-> (entries, stats) or None if the pack itself is unusable."""
    hl = j.hl
    try:
        entries, trailer = ref.read_pack(pack, hl, external)
    except ref.FormatError as e:
        j.fail("pack", e.kind, f"independent reader rejects the pack dulwich wrote: {e}")
        return None
    got = ref.mapping_of(entries)
    names = [e.name for e in entries]
    if len(set(names)) != len(names):
        j.fail("pack", "duplicate-object", f"pack holds {len(names)} entries for {len(set(names))} distinct objects")
    if got != expected:
        missing = [n.hex() for n in expected if n not in got]
        extra = [n.hex() for n in got if n not in expected]
        kind = "missing" if missing else "extra" if extra else "content-differs"
        j.fail("pack", f"mapping-{kind}", f"pack content != input set: missing={missing[:3]} extra={extra[:3]} (n={len(expected)})")
    if idx is not None:
        judge_idx_bytes(j, idx, idxv, entries, trailer)
    return entries, delta_stats(entries)


def judge_idx_bytes(j, idx, idxv, entries, trailer):
    hl = j.hl
    j.failed = False
    try:
        r = ref.read_idx(idx, hl)
    except (ref.FormatError, struct.error) as e:
        kind = getattr(e, "kind", "struct-error")
        if hl == 32:
            # diagnose the specific shape "names are 20 bytes long in a SHA-256 index"
            n = len(entries)
            v2_with_20 = 8 + 1024 + n * (20 + 4 + 4) + 64
            if idx[:4] == ref.IDX_MAGIC and len(idx) == v2_with_20 and n:
                kind = "names-are-sha1"
        j.fail("idx", kind, f"independent reader rejects the index dulwich wrote: {e}")
        return False
    if r["version"] != idxv:
        j.fail("idx", "wrong-version", f"asked for v{idxv}, file is v{r['version']}")
    want = sorted((e.name, e.offset, e.crc if r["version"] != 1 else None) for e in entries)
    if r["entries"] != want:
        gotd = {n: (o, c) for n, o, c in r["entries"]}
        wantd = {n: (o, c) for n, o, c in want}
        if set(gotd) != set(wantd):
            kind = "names-differ"
        elif any(gotd[n][0] != wantd[n][0] for n in wantd):
            kind = "offset-not-an-object-start"
        else:
            kind = "crc-mismatch"
        j.fail("idx", kind, f"index entries differ from the pack: first got={r['entries'][:2]!r} want={want[:2]!r}")
    if r["pack_checksum"] != trailer:
        j.fail("idx", "pack-checksum-mismatch", f"idx says {r['pack_checksum'].hex()}, pack trailer is {trailer.hex()}")
    if r["version"] in (1, 2) and not j.failed:
        mine = ref.write_idx([(e.name, e.offset, e.crc) for e in entries], trailer, r["version"], hl)
        if mine != idx:
            j.fail("idx", f"not-byte-identical-to-git-v{r['version']}", "index differs from the bytes git index-pack writes for this pack")
    return not j.failed


# ---------------------------------------------------------------------------
# oracle 1 (round trip through dulwich's readers)


def dulwich_read(j, base, expected, entries, idxv, seed, stage="read"):
    """All read paths over the pair base.pack / base.idx."""
    from dulwich.pack import Pack

    hl = j.hl
    fmt = _fmt(hl)
    ok, p = _catch(lambda: Pack(base, object_format=fmt))
    if not ok:
        return j.exc(stage + ":open", p, "Pack()")
    with open(base + ".idx", "rb") as f:
        idx_raw = f.read()
    try:
        _dulwich_read(j, p, expected, entries, idxv, seed, stage, idx_raw)
    finally:
        _catch(p.close)


def _dulwich_read(j, p, expected, entries, idxv, seed, stage, idx_raw=None):
    hl = j.hl
    n = len(expected)
    names = sorted(expected)
    rnd = random.Random(seed)

    ok, v = _catch(lambda: len(p))
    if not ok:
        return j.exc(stage + ":len", v, "len(pack)")
    if v != n:
        j.fail(stage + ":len", "wrong", f"len(pack)={v}, {n} objects were written")

    # random access, drawn order; every id twice (cold, then possibly warm) and in both spellings
    order = names + names
    rnd.shuffle(order)
    for k, name in enumerate(order):
        key = name.hex().encode() if (k + name[0]) % 2 else name
        ok, v = _catch(lambda: key in p)
        if not ok:
            return j.exc(stage + ":contains", v, "id in pack")
        if not v:
            j.fail(stage + ":contains", "present-id-missing", f"{name.hex()} in pack is False")
            continue
        ok, v = _catch(lambda: p.get_raw(key))
        if not ok:
            return j.exc(stage + ":get_raw", v, f"get_raw({name.hex()})")
        if (v[0], bytes(v[1])) != expected[name]:
            j.fail(stage + ":get_raw", "wrong-type" if v[0] != expected[name][0] else "wrong-content",
                   f"get_raw({name.hex()}) -> type {v[0]}, {len(v[1])} bytes; expected type {expected[name][0]}, {len(expected[name][1])} bytes")
            return
    for name in names[:: max(1, n // 8)]:
        ok, o = _catch(lambda: p[name.hex().encode()])
        if not ok:
            if hl == 32 and expected[name][0] == 2 and "/objects.py" in _exc_file(o):
                # one root cause whatever parser trips over it (Rust or Python parse_tree, different exception types)
                j.fail(stage + ":getitem", "sha256-tree-parsed-with-sha1-id-length",
                       f"pack[{name.hex()}] (a tree in a SHA-256 pack) raised {type(o).__name__}: {str(o)[:200]}", soft=True)
                continue
            return j.exc(stage + ":getitem", o, f"pack[{name.hex()}]")
        ok, v = _catch(lambda: (o.type_num, o.as_raw_string()))
        if not ok:
            return j.exc(stage + ":getitem", v, "as_raw_string")
        if v != expected[name]:
            j.fail(stage + ":getitem", "wrong-object", f"pack[{name.hex()}] is not the object written")
    for a in absent_ids(expected, hl, seed):
        key = a.hex().encode() if a[0] % 2 else a
        ok, v = _catch(lambda: key in p)
        if not ok:
            return j.exc(stage + ":contains-absent", v, f"{a.hex()} in pack")
        if v:
            j.fail(stage + ":contains-absent", "absent-id-found", f"{a.hex()} in pack is True")
        ok, v = _catch(lambda: p.get_raw(key))
        if ok or not isinstance(v, KeyError):
            j.fail(stage + ":get_raw-absent", "no-KeyError", f"get_raw of an absent id -> {v!r}"[:300])

    # the bytes that follow the name table, asked for as a name: the lookup must stay inside the table
    if n and idx_raw is not None:
        start = {1: 1024 + n * 24 + 4, 2: 8 + 1024 + n * hl, 3: 16 + 1024 + n * hl}[idxv]
        junk = idx_raw[start : start + hl]
        if len(junk) == hl and junk not in expected:
            ok, v = _catch(lambda: junk in p)
            if not ok or v:
                j.fail(stage + ":contains-absent", "lookup-reads-one-entry-past-the-name-table",
                       f"{junk.hex()} (the {hl} bytes after the name table of the idx) in pack -> {v!r}"[:400], hashless=True, soft=True)

    # names by iteration
    ok, v = _catch(lambda: list(p))
    if not ok:
        return j.exc(stage + ":iter", v, "iter(pack)")
    if v != [x.hex().encode() for x in names]:
        j.fail(stage + ":iter", "names-differ", f"iter(pack) gives {len(v)} names, not the sorted input ids")

    # sequential iteration
    ok, v = _catch(lambda: [(o.type_num, o.as_raw_string()) for o in p.iterobjects()])
    if not ok:
        return j.exc(stage + ":iterobjects", v, "iterobjects()")
    got = {}
    for t, data in v:
        got[ref.oid(t, data, hl)] = (t, data)
    if got != expected or len(v) != n:
        j.fail(stage + ":iterobjects", "mapping-differs", f"iterobjects() yields {len(v)} objects ({len(got)} distinct), expected {n}")

    # iter_unpacked + own delta resolution: the raw entries must be the ones in the file
    if entries is not None:
        ok, v = _catch(lambda: [(u.offset, u.pack_type_num, u.delta_base, b"".join(u.decomp_chunks)) for u in p.data.iter_unpacked()])
        if not ok:
            return j.exc(stage + ":iter_unpacked", v, "PackData.iter_unpacked()")
        want = [(e.offset, e.pack_type, (e.offset - e.base) if e.pack_type == 6 else e.base, e.payload) for e in entries]
        if v != want:
            j.fail(stage + ":iter_unpacked", "entries-differ", "iter_unpacked() does not return the entries that are in the file")
        ok, v = _catch(lambda: list(p.data.sorted_entries()))
        if not ok:
            return j.exc(stage + ":sorted_entries", v, "PackData.sorted_entries()")
        want = sorted((e.name, e.offset, e.crc) for e in entries)
        if [tuple(x) for x in v] != want:
            j.fail(stage + ":sorted_entries", "differs", "sorted_entries() != (name, offset, crc32) of the entries in the file")
        ok, v = _catch(lambda: [(bytes(a), b, c) for a, b, c in p.index.iterentries()])
        if not ok:
            return j.exc(stage + ":iterentries", v, "index.iterentries()")
        if v != [(a, b, c if idxv != 1 else None) for a, b, c in want]:
            j.fail(stage + ":iterentries", "differs", "index.iterentries() != entries of the pack")
        for e in entries[:: max(1, len(entries) // 6)]:
            ok, v = _catch(lambda: p.index.object_offset(e.name))
            if not ok:
                return j.exc(stage + ":object_offset", v, "index.object_offset()")
            if v != e.offset and list(x.name for x in entries).count(e.name) == 1:
                j.fail(stage + ":object_offset", "wrong", f"object_offset -> {v}, object starts at {e.offset}")

    for what, fn in (("Pack.check", p.check), ("PackData.check", lambda: p.data.check()), ("PackIndex.check", lambda: p.index.check())):
        ok, v = _catch(fn)
        if not ok:
            j.exc(stage + ":" + what, v, what + "()")


# ---------------------------------------------------------------------------
# oracle 3: C git reads what dulwich wrote


_repos = {}


def _scratch_repo(ctx, hl, tag="dst"):
    key = (os.getpid(), hl, tag)
    path = _repos.get(key)
    if path is None or not os.path.isdir(path):
        path = ctx.scratch.new("gitrepo")
        cgit.init(path, bare=True, object_format="sha256" if hl == 32 else None)
        _repos[key] = path
    pd = os.path.join(path, "objects", "pack")
    for n in os.listdir(pd):
        os.unlink(os.path.join(pd, n))
    return path


def git_judge(j, ctx, pack, idx, expected, entries, idxv, fsck=False, strict=True, base_objs=None):
    """index-pack (byte-identical idx), verify-pack -v over dulwich's own idx, cat-file --batch, fsck."""
    hl = j.hl
    repo = _scratch_repo(ctx, hl)
    pd = os.path.join(repo, "objects", "pack")
    tmp = os.path.join(pd, "tmp.pack")
    with open(tmp, "wb") as f:
        f.write(pack)
    fmt_args = ["--object-format=sha256"] if hl == 32 else []
    if base_objs:
        # a thin pack: the bases live in the repository as loose objects
        full = packfmt.build_pack([(t, d, None) for t, d in base_objs.values()], ref.ALGO[hl])
        cgit.git(["unpack-objects", "-q"], cwd=repo, input=full)
        rc, out, err = cgit.git(["index-pack", "--fix-thin", "--stdin"] + (["--strict"] if strict else []), cwd=repo, input=pack, check=False)
        os.unlink(tmp)
        if rc != 0:
            j.fail("git:index-pack", "thin-rejected", f"git index-pack --fix-thin rejects the thin pack: {err[:300]!r}")
            _clear_loose(repo)
            return
    else:
        v = idxv if idxv in (1, 2) else 2
        rc, out, err = cgit.git(["index-pack"] + (["--strict"] if strict else []) + [f"--index-version={v}"] + fmt_args + ["-o", os.path.join(pd, "tmp.gitidx"), tmp],
                                cwd=repo, check=False)
        if rc != 0:
            j.fail("git:index-pack", "rejected", f"git index-pack{' --strict' if strict else ''} rejects the pack: {err[:300]!r}")
            return
        with open(os.path.join(pd, "tmp.gitidx"), "rb") as f:
            gidx = f.read()
        os.unlink(os.path.join(pd, "tmp.gitidx"))
        if idx is not None and idxv in (1, 2) and gidx != idx:
            j.fail("git:index-pack", f"idx-differs-v{idxv}", "git index-pack writes a different index for this pack than dulwich did")
        # from here on git works with *dulwich's* index when it is a version git knows
        name = "pack-" + "0" * 40
        os.rename(tmp, os.path.join(pd, name + ".pack"))
        with open(os.path.join(pd, name + ".idx"), "wb") as f:
            f.write(idx if (idx is not None and idxv in (1, 2)) else gidx)
        rc, out, err = cgit.git(["verify-pack", "-v", os.path.join(pd, name + ".idx")], cwd=repo, check=False)
        if rc != 0:
            j.fail("git:verify-pack", "rejected", f"git verify-pack fails on dulwich's pack+idx: {(err or out)[:300]!r}")
            return
        rows = set()
        for line in out.splitlines():
            parts = line.split()
            if len(parts) >= 5 and len(parts[0]) == 2 * hl:
                rows.add((parts[0], parts[1], int(parts[2]), int(parts[4])))
        want = {(e.name.hex().encode(), ref.TYPE_NAMES[e.type], len(e.data) if e.pack_type < 5 else e.size, e.offset) for e in entries}
        if rows != want:
            j.fail("git:verify-pack", "rows-differ", f"verify-pack -v lists {len(rows)} rows, {len(rows ^ want)} differ from the independent parse")
    ids = [n.hex().encode() for n in sorted(expected)]
    if ids:
        got = cgit.cat_file_batch(repo, ids)
        for n in sorted(expected):
            g = got.get(n.hex().encode())
            t, data = expected[n]
            if g is None or g != (ref.TYPE_NAMES[t], data):
                j.fail("git:cat-file", "missing" if g is None else "content-differs", f"git cat-file {n.hex()} does not return the object written")
                break
    if fsck:
        rc, out = cgit.fsck(repo, "--no-dangling", "--no-progress")
        if rc != 0:
            j.fail("git:fsck", "errors", f"git fsck: {out[:300]!r}")
    if base_objs:
        _clear_loose(repo)


def _clear_loose(repo):
    od = os.path.join(repo, "objects")
    for n in os.listdir(od):
        if len(n) == 2:
            shutil.rmtree(os.path.join(od, n))


def judge_pair(j, ctx, pack, idx, expected, idxv, seed, base=None, git=True, fsck=False, external=None, strict=True, read=True):
    """Everything the statement says about one (pack, idx) pair dulwich wrote.  -> (entries, stats) or None.

    When only the index is wrong the search continues behind it with the index git would have written, so that
    one (known) index defect does not hide the read paths.
    """
    r = judge_bytes(j, pack, None, expected, idxv, external=external)
    if r is None:
        return None
    entries, st = r
    if j.failed:
        return r
    trailer = pack[-j.hl:]
    idx_ok = idx is not None and judge_idx_bytes(j, idx, idxv, entries, trailer)
    if not idx_ok:
        idx = ref.write_idx([(e.name, e.offset, e.crc) for e in entries], trailer, 2, j.hl)
        idxv = 2
        base = None
    j.failed = False
    if external is None and read:
        if base is None:
            base = os.path.join(ctx.scratch.new("pair"), "p")
            with open(base + ".pack", "wb") as f:
                f.write(pack)
            with open(base + ".idx", "wb") as f:
                f.write(idx)
            own = True
        else:
            own = False
        dulwich_read(j, base, expected, entries, idxv, seed)
        if own:
            shutil.rmtree(os.path.dirname(base), ignore_errors=True)
    if git and not j.failed:
        git_judge(j, ctx, pack, idx if idx_ok else None, expected, entries, idxv, fsck=fsck, strict=strict, base_objs=external)
    return r


# ---------------------------------------------------------------------------
# shared case plumbing


def _objects(case):
    hl = case["hl"]
    objs = gen.unique(gen.materialise(case["specs"], hl))
    order = [objs[i % len(objs)] for i in case.get("order", ())] if objs else []
    seen = set()
    seq = []
    for o in order + objs:  # the drawn permutation first, anything it left out after it
        if o.name not in seen:
            seen.add(o.name)
            seq.append(o)
    return objs, seq


def _case_labels(case, check, seq, st):
    hl = case.get("hl", 20)
    idxv = case.get("idxv", 2)
    labels = [check, f"idx-v{idxv}"]
    if hl == 32:
        labels.append("sha256")
    if not seq:
        labels.append("empty-set")
    if any(len(o.data) == 0 and o.type == 3 for o in seq):
        labels.append("empty-blob")
    if any(len(o.data) == 0 and o.type == 2 for o in seq):
        labels.append("empty-tree")
    if len(case.get("specs", ())) != len(seq):
        labels.append("duplicated-content-in-spec")
    if case.get("level") is not None:
        labels.append(f"level={case['level']}")
    if st is not None:
        labels += stat_labels(st)
    return labels


def _nontrivial(case, seq, st, extra=False):
    if len(seq) < 2 or st is None:
        return False
    return bool(st["ndelta"] or st["depth"] >= 3 or st["boundary"] or st["split"] or case.get("idxv", 2) in (1, 3) or case.get("hl") == 32 or extra)


def _sample(case):
    s = dict(case)
    if "specs" in s:
        s["specs"] = [str(x)[:80] for x in s["specs"][:5]] + ([f"...<{len(s['specs'])} specs>"] if len(s["specs"]) > 5 else [])
    for k in ("order", "plan", "mask", "haves", "where", "entries"):
        if k in s and isinstance(s[k], list):
            s[k] = s[k][:10]
    return s


def _key(case):
    return repr(sorted(case.items()))


# ---------------------------------------------------------------------------
# check "write": write_pack / write_pack_objects + write_pack_index


def run_write(ctx, case, check="write"):
    from dulwich.pack import write_pack, write_pack_index, write_pack_objects

    hl = case["hl"]
    fmt = _fmt(hl)
    j = Judge(ctx, check, case, hl)
    objs, seq = _objects(case)
    dup = case.get("dup")
    if dup is not None and seq:
        seq = seq + [seq[dup % len(seq)]]
    expected = {o.name: (o.type, o.data) for o in seq}
    sf = [_shafile(o, hl) for o in seq]
    hints = case.get("hints")
    arg = [(s, hints[k % len(hints)]) for k, s in enumerate(sf)] if hints is not None else sf
    kw = dict(deltify=case["deltify"], delta_window_size=case["window"], compression_level=case["level"])
    idxv = case["idxv"]
    d = ctx.scratch.new("w")
    base = os.path.join(d, "p")
    st = None
    labels = []
    try:
        if case["entry"] == "write_pack":
            ok, v = _catch(lambda: write_pack(base, arg, fmt, **kw))
            if not ok:
                j.exc("write", v, "write_pack")
            else:
                with open(base + ".pack", "rb") as f:
                    pack = f.read()
                with open(base + ".idx", "rb") as f:
                    idx = f.read()
                if v[0] != pack[-hl:] or v[1] != idx[-hl:]:
                    j.fail("write", "returned-checksums-wrong", "write_pack returns checksums that are not the trailers of the files")
        else:
            buf = io.BytesIO()
            ok, v = _catch(lambda: write_pack_objects(buf.write, arg, fmt, **kw))
            if not ok:
                j.exc("write", v, "write_pack_objects")
            else:
                entries, csum = v
                pack = buf.getvalue()
                ibuf = io.BytesIO()
                ok, v = _catch(lambda: write_pack_index(ibuf, sorted((k, e[0], e[1]) for k, e in entries.items()), csum, version=idxv))
                if not ok:
                    j.exc("write-index", v, f"write_pack_index(version={idxv})")
                else:
                    idx = ibuf.getvalue()
                    if csum != pack[-hl:] or v != idx[-hl:]:
                        j.fail("write", "returned-checksums-wrong", "returned checksums are not the trailers of the written data")
                    with open(base + ".pack", "wb") as f:
                        f.write(pack)
                    with open(base + ".idx", "wb") as f:
                        f.write(idx)
        if ok and dup is not None and seq:
            # a sequence with a repeated object is not a set: observe and report, never alarm
            ok2, v = _catch(lambda: _reopen_len(base, fmt))
            labels += ["duplicate-input", "duplicate-input:" + ("dulwich-reopens-it" if ok2 else f"dulwich-refuses-own-pack({type(v).__name__})")]
            rc, _, _ = cgit.git(["index-pack", "-o", base + ".gitidx", base + ".pack"] + (["--object-format=sha256"] if hl == 32 else []), check=False)
            labels.append("duplicate-input:" + ("git-accepts" if rc == 0 else "git-rejects"))
        elif ok:
            r = judge_pair(j, ctx, pack, idx, expected, idxv, case["seed"], base=base, git=True, fsck=case.get("fsck", False))
            st = r[1] if r else None
    finally:
        shutil.rmtree(d, ignore_errors=True)
    labels += _case_labels(case, check, seq, st) + [check + ":" + case["entry"]]
    if case["deltify"]:
        labels.append("deltify")
    if hints is not None:
        labels.append("path-hints:" + ("mixed" if len(set(hints)) > 1 else "uniform"))
    nt = _nontrivial(case, seq, st) and dup is None
    ctx.case(_key(case), nontrivial=nt, labels=labels, sample=_sample(case) if nt else None)


def _reopen_len(base, fmt):
    from dulwich.pack import Pack

    with Pack(base, object_format=fmt) as p:
        p.check_length_and_checksum()
        return len(p)


def _perm(st, draw, n):
    n = max(1, n)
    return list(draw(st.one_of(st.just(list(range(n))), st.just(list(range(n - 1, -1, -1))), st.permutations(list(range(n))))))


def _level(st, draw):
    return draw(st.sampled_from([-1, -1, 0, 1, 9, draw(st.integers(2, 8))]))


def write_strategy():
    S = gen.strategies()
    st = S["st"]

    @st.composite
    def case(draw):
        hl = draw(st.sampled_from([20, 20, 20, 20, 32]))
        deltify = draw(st.sampled_from([False, True, True, None]))
        if deltify:
            specs = draw(S["specs"](profile=draw(st.sampled_from(["deltify", "deltify", "deltify1"])), max_objs=12))
        else:
            specs = draw(S["specs"](profile="plain", max_objs=40, huge=draw(st.integers(0, 7)) == 0)) if draw(st.integers(0, 19)) else []
        entry = draw(st.sampled_from(["write_pack", "write_pack_objects", "write_pack_objects"]))
        idxv = 2 if hl == 32 or entry == "write_pack" else draw(st.sampled_from([1, 2, 3]))
        # mixed None/bytes hints only with SHA-1: the (known) failure they provoke does not depend on the hash
        hints = draw(st.sampled_from([None, None, None, "same", "same", "mixed" if hl == 20 else "same"]))
        if hints == "same":
            hints = [draw(st.sampled_from([None, b"a", b"dir/b"]))]
        elif hints == "mixed":
            hints = draw(st.lists(st.sampled_from([None, b"a", b"b", b"dir/c"]), min_size=2, max_size=4))
        c = dict(
            hl=hl, specs=specs, order=_perm(st, draw, len(specs)), entry=entry, deltify=deltify,
            window=draw(st.sampled_from([None, None, 0, 1, 2, 10])), level=_level(st, draw),
            idxv=idxv, hints=hints, seed=draw(st.integers(0, 1 << 16)), fsck=draw(st.integers(0, 7)) == 0,
        )
        if draw(st.integers(0, 24)) == 0:
            c["dup"] = draw(st.integers(0, 40))
        return c

    return case()


# ---------------------------------------------------------------------------
# check "records": write_pack_data over hand-built UnpackedObjects; check "store": the same through a DiskObjectStore


def _delta_plan(case, objs):
    """{name: (base Obj, delta bytes)} — bases always have a smaller spec index, so the plan is acyclic."""
    specs = case["specs"]
    plan = case["plan"]
    by_spec = {}
    for o in objs:
        by_spec[o.spec_index] = o
    # a spec dropped as duplicate stands for the first object with that content
    mat = gen.materialise(specs, case["hl"])
    first = {}
    for o in objs:
        first[o.name] = o
    out = {}
    for o in objs:
        k = o.spec_index
        choice = plan[k % len(plan)] if plan else 0
        if choice == 0 or len(o.data) == 0:
            continue
        s = specs[k]
        base = None
        use_ops = None
        if choice in (1, 3) and s[0] in ("E", "D"):
            base = first[mat[s[1]].name]
            if s[0] == "D":
                use_ops = gen.norm_ops(len(base.data), s[2])
        if base is None:
            cands = [b for b in objs if b.spec_index < k and b.type == o.type]
            if not cands:
                continue
            base = cands[(choice * 7 + k) % len(cands)] if choice >= 2 else cands[-1]
        if base.name == o.name or base.type != o.type or base.spec_index >= k:
            continue
        if use_ops is not None:
            delta, target = ref.make_delta(base.data, use_ops)
            if target != o.data:
                raise HarnessError("D-spec delta does not rebuild its own object")
        else:
            delta = gen.simple_delta(base.data, o.data)
        out[o.name] = (base, delta)
    return out


def _records(case, seq, plan, hl):
    from dulwich.pack import UnpackedObject

    fmt = _fmt(hl)
    recs = []
    for k, o in enumerate(seq):
        if o.name in plan:
            base, delta = plan[o.name]
            cut = case.get("cut", 0) % (len(delta) + 1)
            chunks = [delta[:cut], delta[cut:]] if cut else [delta]
            # both conventions found in dulwich itself: deltas_from_sorted_objects passes the object's type,
            # Pack.iter_unpacked_subset(convert_ofs_delta=True) passes REF_DELTA
            t = o.type if case["conv"] == "obj" else 7
            recs.append(UnpackedObject(t, sha=o.name, delta_base=base.name, decomp_chunks=chunks, hash_func=fmt.hash_func))
        else:
            cut = case.get("cut", 0) % (len(o.data) + 1)
            chunks = [o.data[:cut], o.data[cut:]] if cut else [o.data]
            recs.append(UnpackedObject(o.type, sha=o.name, decomp_chunks=chunks, hash_func=fmt.hash_func))
    return recs


def run_records(ctx, case, check="records"):
    from dulwich.pack import write_pack_data, write_pack_index

    hl = case["hl"]
    fmt = _fmt(hl)
    j = Judge(ctx, check, case, hl)
    objs, seq = _objects(case)
    expected = {o.name: (o.type, o.data) for o in seq}
    plan = _delta_plan(case, objs)
    recs = _records(case, seq, plan, hl)
    idxv = case["idxv"]
    buf = io.BytesIO()
    if case["how"] == "list":
        ok, v = _catch(lambda: write_pack_data(buf.write, recs, fmt, compression_level=case["level"]))
    elif case["how"] == "file":
        ok, v = _catch(lambda: write_pack_data(buf, iter(recs), fmt, num_records=len(recs), compression_level=case["level"]))
    else:
        ok, v = _catch(lambda: write_pack_data(buf.write, iter(recs), fmt, num_records=len(recs), compression_level=case["level"]))
    st = None
    if not ok:
        j.exc("write", v, "write_pack_data")
    else:
        entries, csum = v
        pack = buf.getvalue()
        ibuf = io.BytesIO()
        ok, v = _catch(lambda: write_pack_index(ibuf, sorted((k, e[0], e[1]) for k, e in entries.items()), csum, version=idxv))
        if not ok:
            j.exc("write-index", v, f"write_pack_index(version={idxv})")
        else:
            idx = ibuf.getvalue()
            if csum != pack[-hl:] or v != idx[-hl:]:
                j.fail("write", "returned-checksums-wrong", "returned checksums are not the trailers of the written data")
            r = judge_pair(j, ctx, pack, idx, expected, idxv, case["seed"], git=True, fsck=case.get("fsck", False))
            st = r[1] if r else None
            if r and st["ndelta"] != len(plan):
                j.fail("write", "delta-records-not-written-as-deltas", f"{len(plan)} delta records given, {st['ndelta']} delta entries in the pack")
    labels = _case_labels(case, check, seq, st) + [f"{check}:conv={case['conv']}", f"{check}:{case['how']}"]
    nt = _nontrivial(case, seq, st)
    ctx.case(_key(case), nontrivial=nt, labels=labels, sample=_sample(case) if nt else None)


def records_strategy(store=False):
    S = gen.strategies()
    st = S["st"]

    @st.composite
    def case(draw):
        hl = draw(st.sampled_from([20, 20, 20, 32]))
        specs = draw(S["specs"](profile="hand", max_objs=draw(st.sampled_from([6, 14, 30])), huge=draw(st.integers(0, 9)) == 0))
        c = dict(
            hl=hl, specs=specs, order=_perm(st, draw, len(specs)),
            plan=draw(st.lists(st.sampled_from([0, 1, 1, 1, 2, 3]), min_size=1, max_size=12)),
            conv=draw(st.sampled_from(["obj", "ref"])), cut=draw(st.sampled_from([0, 0, 1, 5, 1000])),
            level=_level(st, draw), seed=draw(st.integers(0, 1 << 16)),
        )
        if store:
            c["entry"] = draw(st.sampled_from(["add_objects", "add_pack_data", "add_pack_data"]))
            c["idxv"] = 2 if hl == 32 else draw(st.sampled_from([None, 1, 2, 3]))
        else:
            c["how"] = draw(st.sampled_from(["iter", "iter", "list", "file"]))
            c["idxv"] = 2 if hl == 32 else draw(st.sampled_from([1, 2, 3]))
            c["fsck"] = draw(st.integers(0, 7)) == 0
        return c

    return case()


def _pack_files(pack_dir):
    names = sorted(os.listdir(pack_dir))
    packs = [n for n in names if n.endswith(".pack")]
    idxs = [n for n in names if n.endswith(".idx")]
    other = [n for n in names if n not in packs and n not in idxs]
    return packs, idxs, other


def _judge_store_result(j, ctx, store, path, expected, idxv, seed, n_before=0, external_ok=None, strict=True):
    """The store must hold exactly one new self-contained pack + idx; -> (entries, stats) or None."""
    pd = os.path.join(path, "pack")
    packs, idxs, other = _pack_files(pd)
    if other:
        j.fail("store", "stray-files-in-pack-dir", f"left behind: {other[:3]}")
    if len(packs) != n_before + 1 or len(idxs) != n_before + 1:
        j.fail("store", "not-one-new-pack", f"pack dir has {len(packs)} packs / {len(idxs)} indexes, expected {n_before + 1}")
        return None
    new = [p for p in packs if p not in (external_ok or ())]
    if len(new) != 1 or new[0][:-5] + ".idx" not in idxs:
        j.fail("store", "pack-without-matching-idx", f"{packs} / {idxs}")
        return None
    base = os.path.join(pd, new[0][:-5])
    with open(base + ".pack", "rb") as f:
        pack = f.read()
    with open(base + ".idx", "rb") as f:
        idx = f.read()
    r = judge_pair(j, ctx, pack, idx, expected, idxv, seed, base=base, git=True, strict=strict)
    # and through the store API
    for name in sorted(expected)[:: max(1, len(expected) // 10)]:
        hexid = name.hex().encode()
        ok, v = _catch(lambda: (store.contains_packed(hexid), store.get_raw(hexid)))
        if not ok:
            j.exc("store:get_raw", v, f"store.get_raw({name.hex()})")
            break
        if not v[0] or (v[1][0], bytes(v[1][1])) != expected[name]:
            j.fail("store:get_raw", "wrong", f"store does not return {name.hex()} as written (contains_packed={v[0]})")
            break
    return r


def run_store(ctx, case, check="store"):
    from dulwich.object_store import DiskObjectStore

    hl = case["hl"]
    fmt = _fmt(hl)
    j = Judge(ctx, check, case, hl)
    objs, seq = _objects(case)
    expected = {o.name: (o.type, o.data) for o in seq}
    d = ctx.scratch.new("store")
    path = os.path.join(d, "objects")
    st = None
    labels = []
    try:
        DiskObjectStore.init(path, object_format=fmt).close()
        kw = dict(pack_compression_level=case["level"], object_format=fmt)
        if case["idxv"] is not None:
            kw["pack_index_version"] = case["idxv"]
        store = DiskObjectStore(path, **kw)
        try:
            if case["entry"] == "add_objects":
                arg = [(_shafile(o, hl), None) for o in seq]
                ok, v = _catch(lambda: store.add_objects(arg))
                nplan = 0
            else:
                plan = _delta_plan(case, objs)
                nplan = len(plan)
                recs = _records(case, seq, plan, hl)
                ok, v = _catch(lambda: store.add_pack_data(len(recs), iter(recs)))
            if not ok:
                j.exc("write", v, case["entry"])
            elif not seq:
                packs, idxs, other = _pack_files(os.path.join(path, "pack"))
                if v is not None or packs or idxs or other:
                    j.fail("store", "empty-set-left-files", f"adding nothing returned {v!r}, pack dir: {packs + idxs + other}")
                labels.append("empty-set")
            else:
                r = _judge_store_result(j, ctx, store, path, expected, case["idxv"] or 2, case["seed"])
                st = r[1] if r else None
                if r and st["ndelta"] != nplan:
                    j.fail("write", "delta-records-not-written-as-deltas", f"{nplan} delta records given, {st['ndelta']} delta entries in the pack")
        finally:
            _catch(store.close)
    finally:
        shutil.rmtree(d, ignore_errors=True)
    c2 = dict(case, idxv=case["idxv"] or 2)
    labels += _case_labels(c2, check, seq, st) + [f"{check}:{case['entry']}"] + (["store:default-idx-version"] if case["idxv"] is None else [])
    nt = _nontrivial(c2, seq, st)
    ctx.case(_key(case), nontrivial=nt, labels=labels, sample=_sample(case) if nt else None)


# ---------------------------------------------------------------------------
# packs made by C git


def _git_source(ctx, hl, objs):
    """A bare repository holding ``objs`` as loose objects (one git process)."""
    repo = _scratch_repo(ctx, hl, "src")
    _clear_loose(repo)
    if objs:
        cgit.git(["unpack-objects", "-q"], cwd=repo, input=packfmt.build_pack([(o.type, o.data, None) for o in objs], ref.ALGO[hl]))
    return repo


def _git_pack(ctx, case, objs, subset=None):
    """-> (pack bytes, expected mapping, external mapping or None)."""
    hl = case["hl"]
    repo = _git_source(ctx, hl, objs)
    g = case["git"]
    # --threads=1: the multi-threaded delta search makes the output depend on timing (same seed must give the same run)
    args = ["pack-objects", "--stdout", "-q", "--threads=1", f"--depth={g['depth']}", f"--window={g['window']}"]
    if g["ofs"]:
        args.append("--delta-base-offset")
    mat = gen.materialise(case["specs"], hl)
    thin = g.get("thin")
    if thin:
        new = mat[thin[0]].name.hex().encode()
        old = [mat[k].name.hex().encode() for k in thin[1]]
        args += ["--thin", "--revs"]
        inp = new + b"\n" + b"".join(b"^" + o + b"\n" for o in old)
    else:
        fam = {}
        for k, s in enumerate(case["specs"]):
            fam[k] = fam.get(s[1], s[1]) if s[0] in ("E", "D") else k
        lines = []
        for o in subset if subset is not None else objs:
            lines.append(o.name.hex().encode() + b" f%d\n" % fam[o.spec_index])
        inp = b"".join(lines)
    pack = cgit.out(args, cwd=repo, input=inp)
    allmap = {o.name: (o.type, o.data) for o in objs}
    try:
        entries, _ = ref.read_pack(pack, hl, allmap if thin else None)
    except ref.FormatError as e:
        raise HarnessError(f"independent reader cannot read a pack made by git: {e}")
    got = ref.mapping_of(entries)
    for n, v in got.items():
        if allmap.get(n) != v:
            raise HarnessError("git-made pack holds an object that was not generated")
    if not thin and set(got) != {o.name for o in (subset if subset is not None else objs)}:
        raise HarnessError("git pack-objects did not pack exactly the requested objects")
    ext = None
    if thin:
        ext = {e.base: allmap[e.base] for e in entries if e.pack_type == 7 and e.base not in got}
    return pack, got, ext, entries


class _Wire:
    """read_all / read_some over bytes with drawn short reads (the way a socket delivers a pack)."""

    def __init__(self, data, pattern):
        self.f = io.BytesIO(data)
        self.pattern = pattern or [1 << 30]
        self.k = 0

    def read_all(self, n):
        return self.f.read(n)

    def read_some(self, n):
        lim = self.pattern[self.k % len(self.pattern)]
        self.k += 1
        return self.f.read(max(1, min(n, lim)))


def run_gitpack(ctx, case, check="gitpack"):
    from dulwich.object_store import DiskObjectStore
    from dulwich.pack import PackData

    hl = case["hl"]
    fmt = _fmt(hl)
    j = Judge(ctx, check, case, hl)
    objs, seq = _objects(case)
    pack, expected, ext, gentries = _git_pack(ctx, case, objs)
    gst = delta_stats(gentries)
    reader = case["reader"]
    if ext is not None and reader != "add_thin_pack":
        reader = "add_thin_pack"
    d = ctx.scratch.new("gp")
    labels = [f"{check}:reader={reader}"]
    if ext:
        labels.append("thin-pack-with-external-bases")
    try:
        base = os.path.join(d, "p")
        with open(base + ".pack", "wb") as f:
            f.write(pack)
        idxv = case["idxv"]
        if reader == "git-idx":
            v = idxv if idxv in (1, 2) else 2
            idxv = v
            cgit.git(["index-pack", f"--index-version={v}"] + (["--object-format=sha256"] if hl == 32 else []) + ["-o", base + ".idx", base + ".pack"])
            dulwich_read(j, base, expected, gentries, v, case["seed"])
        elif reader == "create_index":
            def mk():
                with PackData(base + ".pack", object_format=fmt) as pdata:
                    return pdata.create_index(base + ".idx", version=idxv, **({"hash_format": 1} if idxv == 3 else {}))
            ok, v = _catch(mk)
            if not ok:
                j.exc("create_index", v, f"PackData.create_index(version={idxv})")
            else:
                with open(base + ".idx", "rb") as f:
                    idx = f.read()
                if judge_idx_bytes(j, idx, idxv, gentries, pack[-hl:]):
                    dulwich_read(j, base, expected, gentries, idxv, case["seed"])
        else:
            path = os.path.join(d, "objects")
            DiskObjectStore.init(path, object_format=fmt).close()
            kw = dict(object_format=fmt)
            if idxv in (1, 2, 3) and hl == 20:
                kw["pack_index_version"] = idxv
            else:
                idxv = 2
            store = DiskObjectStore(path, **kw)
            try:
                n_before = 0
                pre = ()
                if ext:
                    # the receiver already has the bases: loose, or in a pack of its own
                    bases = [(n, t, data) for n, (t, data) in sorted(ext.items())]
                    from dulwich.objects import ShaFile
                    sfs = [ShaFile.from_raw_string(t, data) if hl == 20 else ShaFile.from_raw_string(t, data, object_format=fmt) for _, t, data in bases]
                    if case.get("bases") == "packed":
                        store.add_objects([(s, None) for s in sfs])
                        n_before = 1
                        pre = tuple(_pack_files(os.path.join(path, "pack"))[0])
                    else:
                        for s in sfs:
                            store.add_object(s)
                if reader == "add_pack":
                    def go():
                        f, commit, abort = store.add_pack()
                        try:
                            w = _Wire(pack, case.get("chunks"))
                            while True:
                                b = w.read_some(1 << 20)
                                if not b:
                                    break
                                f.write(b)
                        except BaseException:
                            abort()
                            raise
                        return commit()
                    ok, v = _catch(go)
                else:
                    w = _Wire(pack, case.get("chunks"))
                    ok, v = _catch(lambda: store.add_thin_pack(w.read_all, w.read_some))
                if not ok:
                    j.exc(reader, v, reader)
                elif not expected:
                    labels.append("empty-set")
                else:
                    want = dict(expected)
                    if ext:
                        want.update(ext)  # a completed thin pack carries its bases
                    r = _judge_store_result(j, ctx, store, path, want, idxv, case["seed"], n_before=n_before, external_ok=pre, strict=False)
                    if r and not ext and not j.any_failed:
                        packs = [p for p in _pack_files(os.path.join(path, "pack"))[0]]
                        with open(os.path.join(path, "pack", packs[0]), "rb") as f:
                            if f.read() != pack:
                                j.fail(reader, "pack-bytes-changed", "a self-contained pack was not stored verbatim")
            finally:
                _catch(store.close)
    finally:
        shutil.rmtree(d, ignore_errors=True)
    c2 = dict(case, idxv=idxv)
    labels += _case_labels(c2, check, [o for o in objs if o.name in expected], None) + stat_labels(gst, "git-")
    if gst["depth"] >= 10:
        labels.append("git-depth>=10")
    if gst["depth"] >= 40:
        labels.append("git-depth>=40")
    if case["git"].get("thin"):
        labels.append("git---thin")
    labels.append("git-ofs" if case["git"]["ofs"] else "git-no-ofs")
    nt = len(expected) >= 2 and bool(gst["ndelta"] or gst["boundary"] or idxv in (1, 3) or hl == 32)
    ctx.case(_key(case), nontrivial=nt, labels=labels, sample=_sample(case) if nt and gst["depth"] >= 3 else None)


def _git_opts(st, draw, deep=False):
    # deep: a small window leaves git no choice but the predecessor as base, so chains really get long
    return dict(depth=50 if deep else draw(st.sampled_from([0, 1, 2, 5, 10, 50])), window=draw(st.sampled_from([1, 2, 10, 10, 20] if not deep else [2, 3, 5])),
                ofs=draw(st.booleans()))


def gitpack_strategy():
    S = gen.strategies()
    st = S["st"]

    @st.composite
    def case(draw):
        hl = draw(st.sampled_from([20, 20, 20, 32]))
        deep = draw(st.integers(0, 3)) == 0
        if deep:
            # one chain of n growing versions (sizes strictly increase: git then builds chains of depth ~n/5, up to --depth=50)
            n = draw(st.sampled_from([60, 120, 250]))
            edits = draw(st.lists(st.tuples(st.integers(0, 1000), st.binary(min_size=1, max_size=24)), min_size=n, max_size=n))
            specs = [("P", draw(st.integers(0, 5)), draw(st.sampled_from([300, 1000])))] + [("E", k, pm, 0, ins) for k, (pm, ins) in enumerate(edits)]
            specs += [("T", [("f", b"f", len(specs) - 1), ("f", b"g", 0)]), ("C", len(specs), [], b"deep\n")]
        else:
            specs = list(draw(S["specs"](profile="git", max_objs=draw(st.sampled_from([8, 20, 40])))))
        g = _git_opts(st, draw, deep)
        reader = draw(st.sampled_from(["git-idx", "create_index", "add_pack", "add_thin_pack"]))
        thin = draw(st.integers(0, 3)) == 0 and not deep
        if thin:
            # two commits: the old one holds the first version of every family, the new one the last
            roots = [k for k, s in enumerate(specs) if s[0] in ("P", "R", "B")][:6]
            last = {}
            for k, s in enumerate(specs):
                if s[0] == "E":
                    r = s[1]
                    while specs[r][0] == "E":
                        r = specs[r][1]
                    last[r] = k
            if roots:
                specs.append(("T", [("f", b"f%d" % r, r) for r in roots]))
                specs.append(("C", len(specs) - 1, [], b"old\n"))
                old = len(specs) - 1
                specs.append(("T", [("f", b"f%d" % r, last.get(r, r)) for r in roots] + [("f", b"new", roots[0])]))
                specs.append(("C", len(specs) - 1, [old], b"new\n"))
                g["thin"] = (len(specs) - 1, [old])
                reader = "add_thin_pack"
        return dict(
            hl=hl, specs=specs, git=g, reader=reader, idxv=2 if hl == 32 else draw(st.sampled_from([1, 2, 3])),
            chunks=draw(st.one_of(st.none(), st.lists(st.sampled_from([1, 2, 7, 19, 20, 21, 100, 4096, 65536]), min_size=1, max_size=5))),
            bases=draw(st.sampled_from(["loose", "packed"])), seed=draw(st.integers(0, 1 << 16)),
        )

    return case()


# ---------------------------------------------------------------------------
# check "reuse": write_pack_from_container over a store that holds git-made delta packs


def run_reuse(ctx, case, check="reuse"):
    from dulwich.object_store import DiskObjectStore
    from dulwich.pack import write_pack_from_container, write_pack_index

    hl = case["hl"]
    fmt = _fmt(hl)
    j = Judge(ctx, check, case, hl)
    objs, seq = _objects(case)
    where = case["where"]
    groups = {0: [], 1: [], 2: []}
    for o in objs:
        groups[where[o.spec_index % len(where)]].append(o)
    d = ctx.scratch.new("reuse")
    path = os.path.join(d, "objects")
    st = None
    labels = []
    sub = []
    try:
        DiskObjectStore.init(path, object_format=fmt).close()
        src_stats = []
        for gk in (0, 1):
            if not groups[gk]:
                continue
            pack, got, _, gentries = _git_pack(ctx, case, objs, subset=groups[gk])
            src_stats.append(delta_stats(gentries))
            base = os.path.join(path, "pack", "pack-%040d" % gk)
            with open(base + ".pack", "wb") as f:
                f.write(pack)
            cgit.git(["index-pack"] + (["--object-format=sha256"] if hl == 32 else []) + ["-o", base + ".idx", base + ".pack"])
        store = DiskObjectStore(path, object_format=fmt)
        try:
            for o in groups[2]:
                store.add_object(_shafile(o, hl))
            mask = case["mask"]
            sub = [o for o in seq if mask[o.spec_index % len(mask)]]
            rest = [o for o in objs if o not in sub]
            hv = case["haves"]
            haves = [o for o in rest if hv[o.spec_index % len(hv)]]
            expected = {o.name: (o.type, o.data) for o in sub}
            hint = case["hint"]
            ids = [(o.name.hex().encode(), None if hint == "none" else (o.type, None if hint == "type" else b"p%d" % (o.spec_index % 3))) for o in sub]
            buf = io.BytesIO()
            kw = dict(delta_window_size=case["window"], deltify=case["deltify"], reuse_deltas=case["reuse"], compression_level=case["level"])
            if haves or case["haves_given"]:
                kw["other_haves"] = {o.name.hex().encode() for o in haves}
            ok, v = _catch(lambda: write_pack_from_container(buf.write, store, ids, fmt, **kw))
            if not ok:
                j.exc("write", v, "write_pack_from_container")
            elif sub:
                entries, csum = v
                pack = buf.getvalue()
                ibuf = io.BytesIO()
                ok, v = _catch(lambda: write_pack_index(ibuf, sorted((k, e[0], e[1]) for k, e in entries.items()), csum, version=case["idxv"]))
                if not ok:
                    j.exc("write-index", v, f"write_pack_index(version={case['idxv']})")
                else:
                    ext_all = {o.name: (o.type, o.data) for o in haves}
                    try:
                        ents, _ = ref.read_pack(pack, hl, ext_all)
                        ext = {e.base: ext_all[e.base] for e in ents if e.pack_type == 7 and e.base not in expected and e.base in ext_all}
                    except ref.FormatError:
                        ext = None  # judged (and reported) by judge_pair below
                    if ext:
                        labels.append("thin-output")
                    r = judge_pair(j, ctx, pack, ibuf.getvalue(), expected, case["idxv"], case["seed"], git=True, external=ext or None,
                                   strict=len(sub) == len(objs))
                    st = r[1] if r else None
        finally:
            _catch(store.close)
    finally:
        shutil.rmtree(d, ignore_errors=True)
    labels += _case_labels(case, check, sub, st)
    labels.append("reuse_deltas" if case["reuse"] else "no-reuse")
    if case["deltify"]:
        labels.append("deltify")
    if any(s["ndelta"] for s in src_stats):
        labels.append("source-packs-have-deltas")
    if len(sub) < len(objs):
        labels.append("subset")
    nt = _nontrivial(case, sub, st)
    ctx.case(_key(case), nontrivial=nt, labels=labels, sample=_sample(case) if nt else None)


def reuse_strategy():
    S = gen.strategies()
    st = S["st"]

    @st.composite
    def case(draw):
        hl = draw(st.sampled_from([20, 20, 20, 32]))
        deltify = draw(st.sampled_from([False, None, None, True]))
        specs = draw(S["specs"](profile=draw(st.sampled_from(["deltify", "deltify1"])) if deltify else "git", max_objs=12 if deltify else draw(st.sampled_from([8, 20, 40]))))
        return dict(
            hl=hl, specs=specs, order=_perm(st, draw, len(specs)), git=_git_opts(st, draw),
            where=draw(st.one_of(st.just([0]), st.lists(st.sampled_from([0, 0, 1, 2]), min_size=1, max_size=6))),
            mask=draw(st.one_of(st.just([1]), st.lists(st.sampled_from([1, 1, 0]), min_size=2, max_size=8))),
            haves=draw(st.one_of(st.just([1]), st.lists(st.sampled_from([1, 1, 0]), min_size=1, max_size=8))), haves_given=draw(st.booleans()), hint=draw(st.sampled_from(["none", "type", "path"])),
            reuse=draw(st.sampled_from([True, True, True, False])), deltify=deltify, window=draw(st.sampled_from([None, 0, 2, 10])),
            level=_level(st, draw), idxv=2 if hl == 32 else draw(st.sampled_from([1, 2, 2, 3])), seed=draw(st.integers(0, 1 << 16)),
        )

    return case()


# ---------------------------------------------------------------------------
# check "idx": synthetic index tables (no pack) with offsets up to 2^63-1

BIG_OFFSETS = [12, 13, 255, (1 << 31) - 1, 1 << 31, (1 << 31) + 1, (1 << 32) - 1, 1 << 32, (1 << 32) + 1, 1 << 40, (1 << 63) - 1]


def run_idx(ctx, case, check="idx"):
    from dulwich.pack import load_pack_index, load_pack_index_file, write_pack_index

    hl = case["hl"]
    fmt = _fmt(hl)
    ver = case["idxv"]
    j = Judge(ctx, check, case, hl)
    ents = sorted({bytes(n): (bytes(n), off, crc) for n, off, crc in case["entries"]}.values())
    csum = bytes(case["csum"])
    buf = io.BytesIO()
    ok, v = _catch(lambda: write_pack_index(buf, ents, csum, version=ver))
    large = any(off >= 1 << 31 for _, off, _ in ents)
    labels = [check, f"idx-v{ver}", f"idx:n={'0' if not ents else '1' if len(ents) == 1 else '2+'}"] + (["sha256"] if hl == 32 else [])
    if large:
        labels.append("large-offset")
    unrepresentable = ver == 1 and any(off > 0xFFFFFFFF for _, off, _ in ents)
    if unrepresentable:
        labels.append("idx:v1-offset>32bit")
        if ok:
            try:
                r = ref.read_idx(buf.getvalue(), hl)
                bad = r["entries"] != [(n, o, None) for n, o, _ in ents]
            except ref.FormatError:
                bad = True
            if bad:
                j.fail("write", "v1-silently-truncates-offset", "write_pack_index(version=1) accepted an offset above 2^32-1 and wrote something else")
    elif not ok:
        j.exc("write", v, f"write_pack_index(version={ver})")
    else:
        raw = buf.getvalue()
        if v != raw[-hl:]:
            j.fail("write", "returned-checksum-wrong", "returned checksum is not the trailer")
        try:
            r = ref.read_idx(raw, hl)
        except (ref.FormatError, struct.error) as e:
            j.fail("idx", getattr(e, "kind", "struct-error"), f"independent reader rejects the index: {e}")
            r = None
        if r is not None:
            if r["version"] != ver:
                j.fail("idx", "wrong-version", f"asked for v{ver}, file is v{r['version']}")
            if r["entries"] != [(n, o, c if ver != 1 else None) for n, o, c in ents]:
                j.fail("idx", "entries-differ", "independent reader finds other entries than were written")
            if r["pack_checksum"] != csum:
                j.fail("idx", "pack-checksum-mismatch", "pack checksum not stored as given")
            if ver in (1, 2):
                if ref.write_idx(ents, csum, ver, hl) != raw:
                    j.fail("idx", f"not-byte-identical-to-git-v{ver}", "differs from git's layout for these entries")
                elif case.get("git"):
                    out = cgit.out(["show-index"] + (["--object-format=sha256"] if hl == 32 else []), input=raw)
                    rows = [(l.split()[1], int(l.split()[0])) for l in out.splitlines()]
                    if rows != [(n.hex().encode(), o) for n, o, _ in ents]:
                        raise HarnessError("git show-index disagrees with an index that is byte-identical to the reference writer's")
        if not j.any_failed:
            d = ctx.scratch.new("idx")
            p = os.path.join(d, "x.idx")
            with open(p, "wb") as f:
                f.write(raw)
            try:
                if case["via"] == "path":
                    ok, ix = _catch(lambda: load_pack_index(p, fmt))
                else:
                    ok, ix = _catch(lambda: load_pack_index_file("<mem>", io.BytesIO(raw), fmt))
                if not ok:
                    j.exc("load", ix, "load_pack_index")
                else:
                    try:
                        _judge_loaded_index(j, ix, ents, csum, ver, hl, case["seed"])
                    finally:
                        _catch(ix.close)
            finally:
                shutil.rmtree(d, ignore_errors=True)
    nt = len(ents) >= 2 and (large or ver in (1, 3) or hl == 32)
    ctx.case(_key(case), nontrivial=nt, labels=labels, sample=_sample(case) if nt and large else None)


def _judge_loaded_index(j, ix, ents, csum, ver, hl, seed):
    ok, v = _catch(lambda: len(ix))
    if not ok:
        return j.exc("load:len", v, "len(index)")
    if v != len(ents):
        j.fail("load:len", "wrong", f"len(index)={v}, {len(ents)} entries written")
    ok, v = _catch(lambda: [(bytes(a), b, c) for a, b, c in ix.iterentries()])
    if not ok:
        return j.exc("load:iterentries", v, "iterentries()")
    if v != [(n, o, c if ver != 1 else None) for n, o, c in ents]:
        j.fail("load:iterentries", "differs", "iterentries() != entries written")
    ok, v = _catch(lambda: list(ix))
    if not ok:
        return j.exc("load:iter", v, "iter(index)")
    if v != [n.hex().encode() for n, _, _ in ents]:
        j.fail("load:iter", "differs", "iter(index) != sorted hex names")
    for k, (n, o, c) in enumerate(ents):
        key = n.hex().encode() if k % 2 else n
        ok, v = _catch(lambda: ix.object_offset(key))
        if not ok:
            return j.exc("load:object_offset", v, f"object_offset({n.hex()})")
        if v != o:
            j.fail("load:object_offset", "wrong-large" if o >= 1 << 31 else "wrong", f"object_offset -> {v}, written {o}")
            break
    expected = {n: None for n, _, _ in ents}
    for a in absent_ids(expected, hl, seed):
        ok, v = _catch(lambda: ix.object_offset(a))
        if ok or not isinstance(v, KeyError):
            j.fail("load:object_offset-absent", "no-KeyError", f"object_offset of an absent name -> {v!r}"[:200])
            break
    ok, v = _catch(ix.get_pack_checksum)
    if not ok:
        return j.exc("load:get_pack_checksum", v, "get_pack_checksum()")
    if v != csum:
        j.fail("load:get_pack_checksum", "wrong", "get_pack_checksum() != checksum written")
    ok, v = _catch(ix.check)
    if not ok:
        j.exc("load:check", v, "index.check()")


def idx_strategy():
    from hypothesis import strategies as st

    @st.composite
    def case(draw):
        hl = draw(st.sampled_from([20, 20, 32]))
        ver = 2 if hl == 32 else draw(st.sampled_from([1, 2, 2, 3]))
        n = draw(st.sampled_from([0, 1, 2, 3, 8, 40]))
        first = st.sampled_from([0x00, 0x00, 0x01, 0x7F, 0x80, 0xFE, 0xFF, 0xFF])
        ents = []
        offs = BIG_OFFSETS if draw(st.integers(0, 3)) else [x for x in BIG_OFFSETS if x <= 0xFFFFFFFF]
        for i in range(n):
            name = bytes([draw(first)]) + draw(st.binary(min_size=hl - 1, max_size=hl - 1))
            off = draw(st.sampled_from(offs)) if draw(st.integers(0, 2)) else 12 + 7 * i
            crc = draw(st.sampled_from([0, 1, 0x7FFFFFFF, 0x80000000, 0xFFFFFFFF, 0x12345678]))
            ents.append((name, off, crc))
        return dict(hl=hl, idxv=ver, entries=ents, csum=draw(st.binary(min_size=hl, max_size=hl)), via=draw(st.sampled_from(["path", "file"])),
                    git=draw(st.integers(0, 3)) == 0, seed=draw(st.integers(0, 1 << 16)))

    return case()


# ---------------------------------------------------------------------------
# driver


def selftest(ctx):
    cgit.selfcheck()
    # the independent reader/writer against C git, both hash algorithms, every delta kind
    for hl in (20, 32):
        specs = [("P", 1, 3000), ("E", 0, 500, 3, b"edit"), ("E", 1, 100, 0, b"x" * 200), ("B", b""), ("R", b"ab", 70000),
                 ("D", 4, [("c", 10, 66000), ("i", b"tail")]), ("T", [("f", b"a", 0), ("x", b"b", 1)]), ("T", [("d", b"d", 6), ("l", b"l", 3)]),
                 ("C", 7, [], b"m\n"), ("C", 6, [8], b"n\n"), ("G", 9, b"v1", b"t\n")]
        objs = gen.unique(gen.materialise(specs, hl))
        ents = [(objs[0].type, objs[0].data, None),
                (7, gen.simple_delta(objs[2].data, objs[1].data), objs[2].name),  # REF, base later, itself a delta
                (6, gen.simple_delta(objs[0].data, objs[2].data), 0)]
        ents += [(o.type, o.data, None) for o in objs[3:5]]
        ents.append((6, ref.make_delta(objs[4].data, [("c", 10, 66000), ("i", b"tail")])[0], 4))
        ents += [(o.type, o.data, None) for o in objs[6:]]
        pack = packfmt.build_pack(ents, ref.ALGO[hl])
        entries, trailer = ref.read_pack(pack, hl)
        if ref.mapping_of(entries) != {o.name: (o.type, o.data) for o in objs}:
            raise HarnessError("reference pack reader does not return what the reference writer wrote")
        st = delta_stats(entries)
        if not (st["ofs"] and st["ref"] and st["split"] and st["depth"] == 2):
            raise HarnessError(f"delta_stats self-test failed: {st}")
        d = ctx.scratch.new("self")
        pp = os.path.join(d, "p.pack")
        with open(pp, "wb") as f:
            f.write(pack)
        for v in (1, 2) if hl == 20 else (2,):
            args = ["index-pack", "--strict", f"--index-version={v}"] + (["--object-format=sha256"] if hl == 32 else []) + ["-o", pp + ".idx", pp]
            cgit.git(args)
            with open(pp + ".idx", "rb") as f:
                gi = f.read()
            os.unlink(pp + ".idx")
            if ref.write_idx([(e.name, e.offset, e.crc) for e in entries], trailer, v, hl) != gi:
                raise HarnessError(f"reference idx writer differs from git index-pack (v{v}, hash {hl})")
            r = ref.read_idx(gi, hl)
            if r["version"] != v or len(r["entries"]) != len(entries):
                raise HarnessError("reference idx reader misreads git's index")
            for pos in (len(gi) // 2, 1030):  # a damaged index must not pass the reference reader
                try:
                    ref.read_idx(gi[:pos] + bytes([gi[pos] ^ 1]) + gi[pos + 1:], hl)
                except ref.FormatError:
                    continue
                raise HarnessError("reference idx reader accepts a damaged index")
        # large offsets: writer/reader agree with each other and with git show-index
        big = [(bytes([i]) * hl, off, i) for i, off in enumerate([12, (1 << 31) - 1, 1 << 31, (1 << 32) + 5, (1 << 63) - 1])]
        raw = ref.write_idx(big, b"\1" * hl, 2, hl)
        r = ref.read_idx(raw, hl)
        if r["entries"] != sorted(big) or r["nlarge"] != 3:
            raise HarnessError("reference idx large-offset self-test failed")
        out = cgit.out(["show-index"] + (["--object-format=sha256"] if hl == 32 else []), input=raw)
        rows = [(l.split()[1], int(l.split()[0])) for l in out.splitlines()]
        if rows != [(n.hex().encode(), o) for n, o, _ in sorted(big)]:
            raise HarnessError(f"git show-index disagrees with the reference idx writer: {rows}")
        shutil.rmtree(d, ignore_errors=True)


CHECKS = {
    "write": (run_write, write_strategy),
    "records": (run_records, records_strategy),
    "store": (run_store, lambda: records_strategy(store=True)),
    "gitpack": (run_gitpack, gitpack_strategy),
    "reuse": (run_reuse, reuse_strategy),
    "idx": (run_idx, idx_strategy),
}


def _part(ctx, item):
    name, n = item
    fn, strat = CHECKS[name]
    # quick tier: no shrinking (a deltifying case costs up to seconds); the smallest failing case per bucket is kept
    import time  # evidence only (where the budget goes); never used by an oracle

    from hypothesis.errors import FlakyFailure

    from ..core import Violation

    t = time.time()
    try:
        run_hypothesis(ctx, strat(), lambda c, case: fn(c, case), max_examples=n, shrink=ctx.thorough)
    except FlakyFailure as e:
        # an oracle failure that did not repeat when Hypothesis re-ran the same case: still an observed failure
        vs = [x for x in e.exceptions if isinstance(x, Violation)]
        if not vs:
            raise
        for v in vs:
            ctx.record_violation(v.bucket, "(did not repeat on immediate re-execution) " + v.message, v.check, v.case)
    t = time.time() - t
    ctx.extra[f"shard_wall_sum_s_{name}"] = round(ctx.extra.get(f"shard_wall_sum_s_{name}", 0) + t, 1)


def run(ctx):
    selftest(ctx)
    ctx.note("git_version", cgit.version())
    # quick: ~110 CPU-seconds in total (7-10 s wall on 16 idle cores; the machine is usually shared)
    budget = dict(write=ctx.scale(26, 800), records=ctx.scale(26, 800), store=ctx.scale(12, 400), gitpack=ctx.scale(20, 600),
                  reuse=ctx.scale(16, 500), idx=ctx.scale(48, 1500))
    # one item per (check, shard): dealt round-robin, every worker runs one shard of every check
    ctx.parallel(_part, [(name, n) for name, n in budget.items() for _ in range(16)])


def replay(ctx, check, case):
    if check not in CHECKS:
        raise HarnessError(f"unknown check {check!r}")
    CHECKS[check][0](ctx, case)
