"""C02 — pack and pack-index round trip, internally consistent, interoperable with C git."""

from __future__ import annotations

import io
import os
import random
import shutil
import struct
import zlib

from .. import cgit
from ..core import HarnessError, run_hypothesis
from ..gen import c02_gen as gen
from ..model import c02_packref as ref
from ..model import packfmt

PROPERTY = "C02"
LEVEL = "exploration"
NEEDS_RUST = True
AUTO_TWINS = True
RULE = (
    "Hypothesis-generated closed object sets (0..40 objects by construction: blob families made of small edits so deltas "
    "pay off, blobs at the size-varint boundaries 15/16, 2047/2048, 2^18+-1 and around 64 KiB, trees/commits/tags on "
    "top, duplicated content) x a drawn permutation x write options.  Checks: [write] write_pack / write_pack_objects + "
    "write_pack_index(v1/v2/v3) with deltify/window/compression level/SHA-1|SHA-256/path hints; [records] "
    "write_pack_data over hand-built UnpackedObjects (REF deltas whose base comes later, OFS when earlier, chains, "
    "copies > 64 KiB); [store] DiskObjectStore.add_objects/add_pack_data with configured index version; [gitpack] packs "
    "made by `git pack-objects` (--depth 0..50, --window, --delta-base-offset on/off, --thin --revs) read through "
    "git's idx, PackData.create_index(v1/v2/v3), add_pack and add_thin_pack (short reads); [reuse] "
    "write_pack_from_container with reuse_deltas from a store holding git-made delta packs (subset, other_haves -> "
    "thin); [idx] synthetic index tables with offsets around 2^31..2^63-1.  Every pack/idx dulwich writes is parsed by "
    "an independent reader (trailers, CRCs, fan-out, offsets, 64-bit table, mapping == input), must be byte-identical "
    "to what `git index-pack` writes for v1/v2, is verified by git verify-pack/cat-file/fsck, and is read back by "
    "dulwich by random access (drawn order, twice), iteration, iter_unpacked, sorted_entries, check().  Non-trivial = "
    ">= 2 objects and one of {delta emitted, OFS and REF in one pack, chain depth >= 3, size-boundary object, split "
    "copy, large offset, idx v1/v3, SHA-256, git-made chain depth >= 10}; distinct by full case encoding."
)
ASSUMPTIONS = [
    "git 2.39.5 is the reference pack/idx reader and writer; the independent reader/writer (vf/model/c02_packref.py, "
    "packfmt.py) is self-tested against it in every run",
    "idx v3 is dulwich's own layout (git 2.39 has none): only structure and dulwich round trip are checked for it",
    "pure-Python deltification is quadratic: sets given to deltify are <= 12 objects of <= 8 KiB",
    "a sequence that contains the same object twice is not a set: generated under label duplicate-input, outcome "
    "recorded, never alarmed",
    "SHA-256 object ids are computed by the harness (ShaFile.id is SHA-1 by design)",
]

BOUNDARY = {15, 16, 2047, 2048, (1 << 18) - 1, 1 << 18}


# ---------------------------------------------------------------------------
# small helpers


def _fmt(hl):
    from dulwich.object_format import SHA1, SHA256

    return SHA1 if hl == 20 else SHA256


def _shafile(o, hl):
    from dulwich.objects import ShaFile

    if hl == 20:
        return ShaFile.from_raw_string(o.type, o.data)
    return ShaFile.from_raw_string(o.type, o.data, object_format=_fmt(hl))


def _exc_site(e):
    """Innermost dulwich frame of an exception: part of the root-cause bucket."""
    tb = e.__traceback__
    site = "?"
    while tb is not None:
        fn = tb.tb_frame.f_code.co_filename
        if "/dulwich/" in fn:
            site = f"{os.path.basename(fn)[:-3]}.{tb.tb_frame.f_code.co_name}"
        tb = tb.tb_next
    return site


def _catch(fn):
    """Run a dulwich call; -> (True, value) or (False, exception).  Only ever wraps code under test."""
    try:
        return True, fn()
    except (KeyboardInterrupt, SystemExit, HarnessError):
        raise
    except BaseException as e:  # PanicException (Rust) derives from BaseException
        return False, e


class Judge:
    """Collects the verdict for one case; at most one failure per stage is reported."""

    def __init__(self, ctx, check, case, hl):
        self.ctx, self.check, self.case, self.hl = ctx, check, case, hl
        self.tag = check + ("/sha256" if hl == 32 else "")
        self.failed = False

    def fail(self, stage, kind, msg):
        self.failed = True
        self.ctx.fail(f"C02:{self.tag}:{stage}:{kind}", msg, self.check, self.case)

    def exc(self, stage, e, what):
        self.fail(stage, f"{type(e).__name__}@{_exc_site(e)}", f"{what} raised {type(e).__name__}: {str(e)[:300]}")


def delta_stats(entries):
    """Facts about the written bytes (reference parse): used for labels / non-triviality."""
    kinds = {e.pack_type for e in entries}
    split = False
    for e in entries:
        if e.pack_type in (6, 7):
            d = e.payload
            _, pos = packfmt.read_varint(d, 0)
            _, pos = packfmt.read_varint(d, pos)
            run = None
            while pos < len(d):
                cmd = d[pos]
                pos += 1
                if cmd & 0x80:
                    off = size = 0
                    for i in range(4):
                        if cmd & (1 << i):
                            off |= d[pos] << (8 * i)
                            pos += 1
                    for i in range(3):
                        if cmd & (0x10 << i):
                            size |= d[pos] << (8 * i)
                            pos += 1
                    size = size or 0x10000
                    if run is not None and run == off:
                        split = True
                    run = off + size if size >= 0xFFFF else None
                else:
                    pos += cmd
                    run = None
    return dict(
        ofs=6 in kinds,
        ref=7 in kinds,
        ndelta=sum(1 for e in entries if e.pack_type in (6, 7)),
        depth=max([e.depth for e in entries] or [0]),
        split=split,
        boundary=any(e.size in BOUNDARY or (e.data is not None and len(e.data) in BOUNDARY) for e in entries),
    )


def stat_labels(st, prefix=""):
    out = []
    if st["ndelta"]:
        out.append(prefix + "delta-emitted")
    if st["ofs"] and st["ref"]:
        out.append(prefix + "ofs+ref-in-one-pack")
    elif st["ofs"]:
        out.append(prefix + "ofs-delta")
    elif st["ref"]:
        out.append(prefix + "ref-delta")
    if st["depth"] >= 3:
        out.append(prefix + "chain-depth>=3")
    if st["depth"] >= 10:
        out.append(prefix + "chain-depth>=10")
    if st["split"]:
        out.append(prefix + "copy-split>64K")
    if st["boundary"]:
        out.append(prefix + "size-boundary")
    return out


def absent_ids(expected, hl, seed):
    """50 names that are not in the set: random ones and near misses around the fan-out buckets in use."""
    rnd = random.Random(seed)
    out = set()
    names = sorted(expected)
    for n in names[:12]:
        for delta in (1, -1):
            v = (int.from_bytes(n, "big") + delta) % (1 << (8 * hl))
            out.add(v.to_bytes(hl, "big"))
        out.add(n[:1] + b"\xff" * (hl - 1))
        out.add(n[:1] + b"\x00" * (hl - 1))
    while len(out) < 50:
        out.add(bytes(rnd.getrandbits(8) for _ in range(hl)))
    return [n for n in sorted(out) if n not in expected][:50]


# ---------------------------------------------------------------------------
# oracle 1+2: the written bytes, judged by the independent reader


def judge_bytes(j, pack, idx, expected, idxv, external=None, allow_dups=False):
    """-> (entries, stats) or None if the pack itself is unusable."""
    hl = j.hl
    try:
        entries, trailer = ref.read_pack(pack, hl, external)
    except ref.FormatError as e:
        j.fail("pack", e.kind, f"independent reader rejects the pack dulwich wrote: {e}")
        return None
    got = ref.mapping_of(entries)
    names = [e.name for e in entries]
    if len(set(names)) != len(names) and not allow_dups:
        j.fail("pack", "duplicate-object", f"pack holds {len(names)} entries for {len(set(names))} distinct objects")
    if got != expected:
        missing = [n.hex() for n in expected if n not in got]
        extra = [n.hex() for n in got if n not in expected]
        kind = "missing" if missing else "extra" if extra else "content-differs"
        j.fail("pack", f"mapping-{kind}", f"pack content != input set: missing={missing[:3]} extra={extra[:3]} (n={len(expected)})")
    if idx is not None:
        judge_idx_bytes(j, idx, idxv, entries, trailer)
    return entries, delta_stats(entries)


def judge_idx_bytes(j, idx, idxv, entries, trailer):
    hl = j.hl
    try:
        r = ref.read_idx(idx, hl)
    except (ref.FormatError, struct.error) as e:
        kind = getattr(e, "kind", "struct-error")
        if hl == 32:
            # diagnose the specific shape "names are 20 bytes long in a SHA-256 index"
            n = len(entries)
            v2_with_20 = 8 + 1024 + n * (20 + 4 + 4) + 64
            if idx[:4] == ref.IDX_MAGIC and len(idx) == v2_with_20 and n:
                kind = "names-are-sha1"
        j.fail("idx", kind, f"independent reader rejects the index dulwich wrote: {e}")
        return None
    if r["version"] != idxv:
        j.fail("idx", "wrong-version", f"asked for v{idxv}, file is v{r['version']}")
    want = sorted((e.name, e.offset, e.crc if r["version"] != 1 else None) for e in entries)
    if r["entries"] != want:
        gotd = {n: (o, c) for n, o, c in r["entries"]}
        wantd = {n: (o, c) for n, o, c in want}
        if set(gotd) != set(wantd):
            kind = "names-differ"
        elif any(gotd[n][0] != wantd[n][0] for n in wantd):
            kind = "offset-not-an-object-start"
        else:
            kind = "crc-mismatch"
        j.fail("idx", kind, f"index entries differ from the pack: first got={r['entries'][:2]!r} want={want[:2]!r}")
    if r["pack_checksum"] != trailer:
        j.fail("idx", "pack-checksum-mismatch", f"idx says {r['pack_checksum'].hex()}, pack trailer is {trailer.hex()}")
    if r["version"] in (1, 2) and not j.failed:
        mine = ref.write_idx([(e.name, e.offset, e.crc) for e in entries], trailer, r["version"], hl)
        if mine != idx:
            j.fail("idx", f"not-byte-identical-to-git-v{r['version']}", "index differs from the bytes git index-pack writes for this pack")
    return r


# ---------------------------------------------------------------------------
# oracle 1 (round trip through dulwich's readers)


def dulwich_read(j, base, expected, entries, idxv, seed, stage="read"):
    """All read paths over the pair base.pack / base.idx."""
    from dulwich.pack import Pack

    hl = j.hl
    fmt = _fmt(hl)
    ok, p = _catch(lambda: Pack(base, object_format=fmt))
    if not ok:
        return j.exc(stage + ":open", p, "Pack()")
    try:
        _dulwich_read(j, p, expected, entries, idxv, seed, stage)
    finally:
        _catch(p.close)


def _dulwich_read(j, p, expected, entries, idxv, seed, stage):
    hl = j.hl
    fmt = _fmt(hl)
    n = len(expected)
    names = sorted(expected)
    rnd = random.Random(seed)

    ok, v = _catch(lambda: len(p))
    if not ok:
        return j.exc(stage + ":len", v, "len(pack)")
    if v != n:
        j.fail(stage + ":len", "wrong", f"len(pack)={v}, {n} objects were written")

    # random access, drawn order; every id twice (cold, then possibly warm) and in both spellings
    order = names + names
    rnd.shuffle(order)
    for k, name in enumerate(order):
        key = name.hex().encode() if (k + name[0]) % 2 else name
        ok, v = _catch(lambda: key in p)
        if not ok:
            return j.exc(stage + ":contains", v, "id in pack")
        if not v:
            j.fail(stage + ":contains", "present-id-missing", f"{name.hex()} in pack is False")
            continue
        ok, v = _catch(lambda: p.get_raw(key))
        if not ok:
            return j.exc(stage + ":get_raw", v, f"get_raw({name.hex()})")
        if (v[0], bytes(v[1])) != expected[name]:
            j.fail(stage + ":get_raw", "wrong-type" if v[0] != expected[name][0] else "wrong-content",
                   f"get_raw({name.hex()}) -> type {v[0]}, {len(v[1])} bytes; expected type {expected[name][0]}, {len(expected[name][1])} bytes")
            return
    for name in names[:: max(1, n // 8)]:
        ok, o = _catch(lambda: p[name.hex().encode()])
        if not ok:
            return j.exc(stage + ":getitem", o, f"pack[{name.hex()}]")
        ok, v = _catch(lambda: (o.type_num, o.as_raw_string()))
        if not ok:
            return j.exc(stage + ":getitem", v, "as_raw_string")
        if v != expected[name]:
            j.fail(stage + ":getitem", "wrong-object", f"pack[{name.hex()}] is not the object written")
    for a in absent_ids(expected, hl, seed):
        key = a.hex().encode() if a[0] % 2 else a
        ok, v = _catch(lambda: key in p)
        if not ok:
            return j.exc(stage + ":contains-absent", v, f"{a.hex()} in pack")
        if v:
            j.fail(stage + ":contains-absent", "absent-id-found", f"{a.hex()} in pack is True")
        ok, v = _catch(lambda: p.get_raw(key))
        if ok or not isinstance(v, KeyError):
            j.fail(stage + ":get_raw-absent", "no-KeyError", f"get_raw of an absent id -> {v!r}"[:300])

    # names by iteration
    ok, v = _catch(lambda: list(p))
    if not ok:
        return j.exc(stage + ":iter", v, "iter(pack)")
    if v != [x.hex().encode() for x in names]:
        j.fail(stage + ":iter", "names-differ", f"iter(pack) gives {len(v)} names, not the sorted input ids")

    # sequential iteration
    ok, v = _catch(lambda: [(o.type_num, o.as_raw_string()) for o in p.iterobjects()])
    if not ok:
        return j.exc(stage + ":iterobjects", v, "iterobjects()")
    got = {}
    for t, data in v:
        got[ref.oid(t, data, hl)] = (t, data)
    if got != expected or len(v) != n:
        j.fail(stage + ":iterobjects", "mapping-differs", f"iterobjects() yields {len(v)} objects ({len(got)} distinct), expected {n}")

    # iter_unpacked + own delta resolution: the raw entries must be the ones in the file
    if entries is not None:
        ok, v = _catch(lambda: [(u.offset, u.pack_type_num, u.delta_base, b"".join(u.decomp_chunks)) for u in p.data.iter_unpacked()])
        if not ok:
            return j.exc(stage + ":iter_unpacked", v, "PackData.iter_unpacked()")
        want = [(e.offset, e.pack_type, (e.offset - e.base) if e.pack_type == 6 else e.base, e.payload) for e in entries]
        if v != want:
            j.fail(stage + ":iter_unpacked", "entries-differ", "iter_unpacked() does not return the entries that are in the file")
        ok, v = _catch(lambda: list(p.data.sorted_entries()))
        if not ok:
            return j.exc(stage + ":sorted_entries", v, "PackData.sorted_entries()")
        want = sorted((e.name, e.offset, e.crc) for e in entries)
        if [tuple(x) for x in v] != want:
            j.fail(stage + ":sorted_entries", "differs", "sorted_entries() != (name, offset, crc32) of the entries in the file")
        ok, v = _catch(lambda: [(bytes(a), b, c) for a, b, c in p.index.iterentries()])
        if not ok:
            return j.exc(stage + ":iterentries", v, "index.iterentries()")
        if v != [(a, b, c if idxv != 1 else None) for a, b, c in want]:
            j.fail(stage + ":iterentries", "differs", "index.iterentries() != entries of the pack")
        for e in entries[:: max(1, len(entries) // 6)]:
            ok, v = _catch(lambda: p.index.object_offset(e.name))
            if not ok:
                return j.exc(stage + ":object_offset", v, "index.object_offset()")
            if v != e.offset and list(x.name for x in entries).count(e.name) == 1:
                j.fail(stage + ":object_offset", "wrong", f"object_offset -> {v}, object starts at {e.offset}")

    for what, fn in (("Pack.check", p.check), ("PackData.check", lambda: p.data.check()), ("PackIndex.check", lambda: p.index.check())):
        ok, v = _catch(fn)
        if not ok:
            j.exc(stage + ":" + what, v, what + "()")


# ---------------------------------------------------------------------------
# oracle 3: C git reads what dulwich wrote


_repos = {}


def _scratch_repo(ctx, hl):
    key = (os.getpid(), hl)
    path = _repos.get(key)
    if path is None or not os.path.isdir(path):
        path = ctx.scratch.new("gitrepo")
        cgit.init(path, bare=True, object_format="sha256" if hl == 32 else None)
        _repos[key] = path
    pd = os.path.join(path, "objects", "pack")
    for n in os.listdir(pd):
        os.unlink(os.path.join(pd, n))
    return path


def git_judge(j, ctx, pack, idx, expected, entries, idxv, fsck=False, strict=True, base_objs=None):
    """index-pack (byte-identical idx), verify-pack -v over dulwich's own idx, cat-file --batch, fsck."""
    hl = j.hl
    repo = _scratch_repo(ctx, hl)
    pd = os.path.join(repo, "objects", "pack")
    tmp = os.path.join(pd, "tmp.pack")
    with open(tmp, "wb") as f:
        f.write(pack)
    fmt_args = ["--object-format=sha256"] if hl == 32 else []
    if base_objs:
        # a thin pack: the bases live in the repository as loose objects
        full = packfmt.build_pack([(t, d, None) for t, d in base_objs.values()], ref.ALGO[hl])
        cgit.git(["unpack-objects", "-q"], cwd=repo, input=full)
        rc, out, err = cgit.git(["index-pack", "--fix-thin", "--stdin"] + (["--strict"] if strict else []), cwd=repo, input=pack, check=False)
        os.unlink(tmp)
        if rc != 0:
            j.fail("git:index-pack", "thin-rejected", f"git index-pack --fix-thin rejects the thin pack: {err[:300]!r}")
            _clear_loose(repo)
            return
    else:
        v = idxv if idxv in (1, 2) else 2
        rc, out, err = cgit.git(["index-pack"] + (["--strict"] if strict else []) + [f"--index-version={v}"] + fmt_args + ["-o", os.path.join(pd, "tmp.gitidx"), tmp],
                                cwd=repo, check=False)
        if rc != 0:
            j.fail("git:index-pack", "rejected", f"git index-pack{' --strict' if strict else ''} rejects the pack: {err[:300]!r}")
            return
        with open(os.path.join(pd, "tmp.gitidx"), "rb") as f:
            gidx = f.read()
        os.unlink(os.path.join(pd, "tmp.gitidx"))
        if idx is not None and idxv in (1, 2) and gidx != idx:
            j.fail("git:index-pack", f"idx-differs-v{idxv}", "git index-pack writes a different index for this pack than dulwich did")
        # from here on git works with *dulwich's* index when it is a version git knows
        name = "pack-" + "0" * 40
        os.rename(tmp, os.path.join(pd, name + ".pack"))
        with open(os.path.join(pd, name + ".idx"), "wb") as f:
            f.write(idx if (idx is not None and idxv in (1, 2)) else gidx)
        rc, out, err = cgit.git(["verify-pack", "-v", os.path.join(pd, name + ".idx")], cwd=repo, check=False)
        if rc != 0:
            j.fail("git:verify-pack", "rejected", f"git verify-pack fails on dulwich's pack+idx: {(err or out)[:300]!r}")
            return
        rows = set()
        for line in out.splitlines():
            parts = line.split()
            if len(parts) >= 5 and len(parts[0]) == 2 * hl:
                rows.add((parts[0], parts[1], int(parts[2]), int(parts[4])))
        want = {(e.name.hex().encode(), ref.TYPE_NAMES[e.type], len(e.data) if e.pack_type < 5 else e.size, e.offset) for e in entries}
        if rows != want:
            j.fail("git:verify-pack", "rows-differ", f"verify-pack -v lists {len(rows)} rows, {len(rows ^ want)} differ from the independent parse")
    ids = [n.hex().encode() for n in sorted(expected)]
    if ids:
        got = cgit.cat_file_batch(repo, ids)
        for n in sorted(expected):
            g = got.get(n.hex().encode())
            t, data = expected[n]
            if g is None or g != (ref.TYPE_NAMES[t], data):
                j.fail("git:cat-file", "missing" if g is None else "content-differs", f"git cat-file {n.hex()} does not return the object written")
                break
    if fsck:
        rc, out = cgit.fsck(repo, "--no-dangling", "--no-progress")
        if rc != 0:
            j.fail("git:fsck", "errors", f"git fsck: {out[:300]!r}")
    if base_objs:
        _clear_loose(repo)


def _clear_loose(repo):
    od = os.path.join(repo, "objects")
    for n in os.listdir(od):
        if len(n) == 2:
            shutil.rmtree(os.path.join(od, n))


def judge_pair(j, ctx, pack, idx, expected, idxv, seed, base=None, git=True, fsck=False, external=None, strict=True, allow_dups=False):
    """Everything the statement says about one (pack, idx) pair dulwich wrote.  -> stats or None."""
    r = judge_bytes(j, pack, idx, expected, idxv, external=external, allow_dups=allow_dups)
    if r is None:
        return None
    entries, st = r
    if j.failed:
        return st
    if base is None:
        base = os.path.join(ctx.scratch.new("pair"), "p")
        with open(base + ".pack", "wb") as f:
            f.write(pack)
        with open(base + ".idx", "wb") as f:
            f.write(idx)
        own = True
    else:
        own = False
    if external is None:
        dulwich_read(j, base, expected, entries, idxv, seed)
    if own:
        shutil.rmtree(os.path.dirname(base), ignore_errors=True)
    if git and not j.failed:
        git_judge(j, ctx, pack, idx, expected, entries, idxv, fsck=fsck, strict=strict, base_objs=external)
    return st


# ---------------------------------------------------------------------------
# check "write": write_pack / write_pack_objects + write_pack_index


def run_write(ctx, case, check="write"):
    from dulwich.pack import write_pack, write_pack_index, write_pack_objects

    hl = case["hl"]
    fmt = _fmt(hl)
    j = Judge(ctx, check, case, hl)
    objs = gen.unique(gen.materialise(case["specs"], hl))
    order = [objs[i % len(objs)] for i in case["order"]] if objs else []
    seen = set()
    seq = []
    for o in order + objs:  # the permutation first, anything it left out after it
        if o.name not in seen:
            seen.add(o.name)
            seq.append(o)
    dup = case.get("dup")
    if dup is not None and seq:
        seq = seq + [seq[dup % len(seq)]]
    expected = {o.name: (o.type, o.data) for o in seq}
    sf = [_shafile(o, hl) for o in seq]
    hints = case.get("hints")
    if hints is not None:
        arg = [(s, hints[k % len(hints)]) for k, s in enumerate(sf)]
    else:
        arg = sf
    kw = dict(deltify=case["deltify"], delta_window_size=case["window"], compression_level=case["level"])
    idxv = case["idxv"]
    d = ctx.scratch.new("w")
    base = os.path.join(d, "p")
    try:
        if case["entry"] == "write_pack":
            idxv = 2
            ok, v = _catch(lambda: write_pack(base, arg, fmt, **kw))
            if not ok:
                j.exc("write", v, "write_pack")
                return _account(ctx, case, check, seq, None, dup)
            with open(base + ".pack", "rb") as f:
                pack = f.read()
            with open(base + ".idx", "rb") as f:
                idx = f.read()
            if v[0] != pack[-hl:] or v[1] != idx[-hl:]:
                j.fail("write", "returned-checksums-wrong", "write_pack returns checksums that are not the trailers of the files")
        else:
            buf = io.BytesIO()
            ok, v = _catch(lambda: write_pack_objects(buf.write, arg, fmt, **kw))
            if not ok:
                j.exc("write", v, "write_pack_objects")
                return _account(ctx, case, check, seq, None, dup)
            entries, csum = v
            pack = buf.getvalue()
            ibuf = io.BytesIO()
            ok, v = _catch(lambda: write_pack_index(ibuf, sorted((k, e[0], e[1]) for k, e in entries.items()), csum, version=idxv))
            if not ok:
                j.exc("write-index", v, f"write_pack_index(version={idxv})")
                return _account(ctx, case, check, seq, None, dup)
            idx = ibuf.getvalue()
            if csum != pack[-hl:] or v != idx[-hl:]:
                j.fail("write", "returned-checksums-wrong", "returned checksums are not the trailers of the written data")
            with open(base + ".pack", "wb") as f:
                f.write(pack)
            with open(base + ".idx", "wb") as f:
                f.write(idx)
        if dup is not None and seq:
            # not a set: observe and report only
            ok, v = _catch(lambda: _reopen_len(base, fmt))
            ctx.label("duplicate-input:" + ("dulwich-reopens" if ok else f"dulwich-refuses-own-pack:{type(v).__name__}"))
            return _account(ctx, case, check, seq, None, dup)
        st = judge_pair(j, ctx, pack, idx, expected, idxv, case["seed"], base=base, git=True, fsck=case.get("fsck", False))
        return _account(ctx, case, check, seq, st, dup)
    finally:
        shutil.rmtree(d, ignore_errors=True)


def _reopen_len(base, fmt):
    from dulwich.pack import Pack

    with Pack(base, object_format=fmt) as p:
        len(p.data)
        p.check_length_and_checksum()
        return len(p)


def _account(ctx, case, check, seq, st, dup=None, extra_labels=()):
    labels = [check]
    hl = case.get("hl", 20)
    idxv = case.get("idxv", 2)
    n = len(seq)
    nt = False
    if dup is not None:
        labels.append("duplicate-input")
    if n == 0:
        labels.append("empty-set")
    if hl == 32:
        labels.append("sha256")
    labels.append(f"idx-v{idxv}")
    if case.get("deltify"):
        labels.append("deltify")
    if case.get("level") is not None:
        labels.append(f"level={case['level']}")
    if any(len(o.data) == 0 for o in seq):
        labels.append("empty-blob" if any(len(o.data) == 0 and o.type == 3 for o in seq) else "empty-object")
    if len(case.get("specs", ())) != n and dup is None:
        labels.append("duplicated-content-in-spec")
    if st is not None:
        labels += stat_labels(st)
        nt = n >= 2 and (st["ndelta"] > 0 or st["depth"] >= 3 or st["boundary"] or st["split"] or idxv in (1, 3) or hl == 32)
    labels += list(extra_labels)
    if "large-offset" in labels or "git-depth>=10" in labels:
        nt = nt or n >= 2
    ctx.case(repr(sorted(case.items())), nontrivial=nt, labels=labels, sample=_sample(case) if nt else None)


def _sample(case):
    s = dict(case)
    if "specs" in s:
        s["specs"] = [str(x)[:80] for x in s["specs"][:6]] + ([f"...<{len(s['specs'])} specs>"] if len(s["specs"]) > 6 else [])
    if "order" in s:
        s["order"] = s["order"][:12]
    return s


def write_strategy():
    S = gen.strategies()
    st = S["st"]

    @st.composite
    def case(draw):
        hl = draw(st.sampled_from([20, 20, 20, 20, 32]))
        deltify = draw(st.sampled_from([False, True, True, None]))
        if deltify:
            specs = draw(S["specs"](max_objs=12, max_blob=8192, min_objs=1))
        else:
            specs = draw(S["specs"](max_objs=40, max_blob=65537, huge=draw(st.integers(0, 5)) == 0, family_bias=False))
        n = max(1, len(specs))
        order = draw(st.one_of(st.just(list(range(n))), st.just(list(range(n - 1, -1, -1))), st.permutations(list(range(n)))))
        entry = draw(st.sampled_from(["write_pack", "write_pack_objects", "write_pack_objects"]))
        idxv = 2 if hl == 32 or entry == "write_pack" else draw(st.sampled_from([1, 2, 3]))
        hints = draw(st.sampled_from([None, None, "same", "mixed"]))
        if hints == "same":
            hints = [draw(st.sampled_from([None, b"a", b"dir/b"]))]
        elif hints == "mixed":
            hints = draw(st.lists(st.sampled_from([None, b"a", b"b", b"dir/c"]), min_size=2, max_size=4))
        c = dict(
            hl=hl, specs=specs, order=list(order), entry=entry, deltify=deltify,
            window=draw(st.sampled_from([None, None, 0, 1, 2, 10])),
            level=draw(st.sampled_from([-1, -1, 0, 1, 9, draw(st.integers(2, 8))])),
            idxv=idxv, hints=hints, seed=draw(st.integers(0, 1 << 16)),
            fsck=draw(st.integers(0, 7)) == 0,
        )
        if draw(st.integers(0, 24)) == 0:
            c["dup"] = draw(st.integers(0, 40))
        return c

    return case()


# ---------------------------------------------------------------------------
# driver


def selftest(ctx):
    cgit.selfcheck()
    # the independent reader/writer against C git, both hash algorithms, every delta kind
    for hl in (20, 32):
        specs = [("P", 1, 3000), ("E", 0, 500, 3, b"edit"), ("E", 1, 100, 0, b"x" * 200), ("B", b""), ("R", b"ab", 70000),
                 ("D", 4, [("c", 10, 66000), ("i", b"tail")]), ("T", [("f", b"a", 0), ("x", b"b", 1)]), ("T", [("d", b"d", 6), ("l", b"l", 3)]),
                 ("C", 7, [], b"m\n"), ("C", 6, [8], b"n\n"), ("G", 9, b"v1", b"t\n")]
        objs = gen.unique(gen.materialise(specs, hl))
        ents = [(objs[0].type, objs[0].data, None),
                (7, gen.simple_delta(objs[2].data, objs[1].data), objs[2].name),  # REF, base later, itself a delta
                (6, gen.simple_delta(objs[0].data, objs[2].data), 0)]
        ents += [(o.type, o.data, None) for o in objs[3:5]]
        ents.append((6, ref.make_delta(objs[4].data, [("c", 10, 66000), ("i", b"tail")])[0], 4))
        ents += [(o.type, o.data, None) for o in objs[6:]]
        pack = packfmt.build_pack(ents, ref.ALGO[hl])
        entries, trailer = ref.read_pack(pack, hl)
        if ref.mapping_of(entries) != {o.name: (o.type, o.data) for o in objs}:
            raise HarnessError("reference pack reader does not return what the reference writer wrote")
        st = delta_stats(entries)
        if not (st["ofs"] and st["ref"] and st["split"] and st["depth"] == 2):
            raise HarnessError(f"delta_stats self-test failed: {st}")
        d = ctx.scratch.new("self")
        pp = os.path.join(d, "p.pack")
        with open(pp, "wb") as f:
            f.write(pack)
        for v in (1, 2) if hl == 20 else (2,):
            args = ["index-pack", "--strict", f"--index-version={v}"] + (["--object-format=sha256"] if hl == 32 else []) + ["-o", pp + ".idx", pp]
            cgit.git(args)
            with open(pp + ".idx", "rb") as f:
                gi = f.read()
            os.unlink(pp + ".idx")
            if ref.write_idx([(e.name, e.offset, e.crc) for e in entries], trailer, v, hl) != gi:
                raise HarnessError(f"reference idx writer differs from git index-pack (v{v}, hash {hl})")
            r = ref.read_idx(gi, hl)
            if r["version"] != v or len(r["entries"]) != len(entries):
                raise HarnessError("reference idx reader misreads git's index")
        # large offsets: writer/reader agree with each other and with git show-index
        big = [(bytes([i]) * hl, off, i) for i, off in enumerate([12, (1 << 31) - 1, 1 << 31, (1 << 32) + 5, (1 << 63) - 1])]
        raw = ref.write_idx(big, b"\1" * hl, 2, hl)
        r = ref.read_idx(raw, hl)
        if r["entries"] != sorted(big) or r["nlarge"] != 3:
            raise HarnessError("reference idx large-offset self-test failed")
        out = cgit.out(["show-index"] + (["--object-format=sha256"] if hl == 32 else []), input=raw)
        rows = [(l.split()[1], int(l.split()[0])) for l in out.splitlines()]
        if rows != [(n.hex().encode(), o) for n, o, _ in sorted(big)]:
            raise HarnessError(f"git show-index disagrees with the reference idx writer: {rows}")
        shutil.rmtree(d, ignore_errors=True)


def _part_write(ctx, n):
    run_hypothesis(ctx, write_strategy(), lambda c, case: run_write(c, case), max_examples=n, shrink=True)


def run(ctx):
    selftest(ctx)
    ctx.note("git_version", cgit.version())
    ctx.parallel(_part_write, [ctx.scale(40, 1500)] * 16)


def replay(ctx, check, case):
    if check == "write":
        run_write(ctx, case)
    else:
        raise HarnessError(f"unknown check {check!r}")
