"""C18 — work tree round trip (checkout then stage reproduces the tree); status is exact.

One *scenario* = three generated trees (B, C derived from A by tree edits that
include file<->symlink<->directory replacements, or independent), an initial
checkout method and a sequence of operations on the checked-out repository:
working-directory edits, index operations and branch switches.  After the
initial checkout and after every operation the three states are observed
WITHOUT dulwich (HEAD: `git ls-tree -r -z`, index: `git ls-files -s -z`,
directory: own lstat/readlink scan) and the oracles are applied:

1. round trip (after the initial checkout and after every switch from a clean
   state): directory == flat(T) (bytes, link targets, x bit), index == flat(T),
   status clean for dulwich and git, porcelain.add() + Index.commit() == id(T)
   (reference tree id from vf.model.c18_model) == `git write-tree`.
2. status is exact: porcelain.status(untracked_files="all"|"normal") equals
   the three-map model (vf.model.c18_model.expected_status) and
   `git status --porcelain=v1 -z --no-renames --untracked-files=<mode>`; an item
   on which model and git disagree is never blamed on dulwich.
3. index operations (porcelain.add, WorkTree.stage/unstage,
   porcelain.remove(cached=True), porcelain.reset) leave the index that the git
   equivalent leaves when run on a copy of the index file; porcelain.commit
   makes HEAD^{tree} == reference id(index).
4. branch switch from a dirty state: refused (CheckoutError & co.), or HEAD
   moves and every tracked path that is identical in the old and the new tree
   keeps its index entry and its working-directory content.

Stat-based change detection is made deterministic by a tick barrier before
every working-directory edit (the file system clock must have moved past the
index file's timestamps); the racily-clean window is out of reach on purpose.
"""

from __future__ import annotations

import errno
import hashlib
import io
import os
import shutil
import stat
import traceback

from .. import cgit
from ..core import HarnessError, Violation, run_hypothesis
from ..model import c18_model as M
from ..model.c18_model import EXE, LNK, REG

PROPERTY = "C18"
LEVEL = "exploration"
NEEDS_RUST = True
RULE = (
    "Hypothesis scenarios (quick 16 shards x 100, thorough 16 x 2500; even shards Rust extensions, odd shards pure-Python "
    "twins): 5-9 path components drawn from a flavour pool (plain incl. the a/a.b/a-/a0/ab sort-collision family and a "
    "File/file case pair; special = spaces, quotes, newline, tab, backslash, glob and shell characters, control bytes, "
    "UTF-8 incl. NFD; non-UTF-8 bytes), 2-3 of them also used as directory names (so file/directory collisions at one "
    "path are frequent), depth <= 3; tree A of 1-8 entries (regular/executable/symlink; contents empty, 1 byte, text, "
    "CRLF, NUL bytes, same-size pairs, 64 KiB+1; link targets to files, directories, dangling, absolute, non-UTF-8), "
    "trees B and C derived from A by 1-4 tree edits (content, mode, link retarget, file<->symlink, file->dir, dir->file, delete, add) "
    "or independent; initial checkout by reset_index (build_index_from_tree) / porcelain.checkout from an empty commit "
    "/ porcelain.reset --hard / porcelain.clone; then 2-12 (thorough 2-16) operations: modify same size, modify "
    "different size, touch, chmod, delete file, delete directory, add untracked file/symlink/dir, file|dir->symlink, "
    "symlink|dir->file, file|symlink->dir, rename, porcelain.add(all), porcelain.add(paths), WorkTree.stage, "
    "WorkTree.unstage, porcelain.remove(cached), porcelain.commit, porcelain.reset mixed/hard, porcelain.checkout(branch) "
    "over the 3 branches; every state is judged by the status oracle in both untracked modes against the model and C "
    "git.  A case (one scenario) is non-trivial if it contains >= 1 type-change edit or a successful branch switch "
    "across a file<->symlink<->directory replacement, and >= 2 status observations with different expected results; "
    "distinct by (initial method, sequence of operation names with the kind of the path they hit, expected-status "
    "shape sequence)."
)
ASSUMPTIONS = [
    "git 2.39.5 is the reference for status and for index operations; HEAD/index are read through git ls-tree / ls-files, "
    "the directory through lstat/readlink by the harness",
    "core.filemode=true, core.symlinks=true, core.autocrlf unset, no .gitignore/attributes/filters, no submodules, no "
    "nested repositories, SHA-1, case-sensitive file system (tmpfs on /dev/shm, nanosecond timestamps)",
    "names are valid for git and for core.protectNTFS: no NUL or '/', not '.', '..', no '.git'/'git~1' spellings, no "
    "components made only of dots and spaces; symlink targets are non-empty and NUL-free",
    "tick barrier: no working-directory edit happens within the same file-system timestamp as the last index write, so "
    "racily-clean entries never occur (declared out of reach)",
    "one item on which the three-map model and git status disagree (known: a collapsed untracked directory d/ in normal "
    "mode when d is itself an index entry) is accepted either way",
    "a refused dirty switch may leave the work tree partially updated and a switch may overwrite a colliding untracked "
    "file: both are counted as labels, not failures (the statement does not speak about them); likewise an exception "
    "from porcelain.reset(hard) or from a dirty switch that is not a TypeError/UnicodeError/KeyError/... counts as a refusal",
    "symlink loops are out of the generated domain (a scenario that creates one ends there); directories that hold no "
    "file (invisible to status) at or below a path the target tree needs as a file make a switch 'not clean' for oracle 1",
    "porcelain.add(paths=[p]) is never given a symlink that points to a directory (dulwich's tests pin that it scans the "
    "link like a directory); WorkTree.stage is given file-level paths only; WorkTree.unstage may differ from `git reset "
    "-- p` on entries below p/",
]


# ---------------------------------------------------------------------------
# generator domain

PLAIN = [b"a", b"b", b"a.b", b"a-", b"a0", b"ab", b"c", b"d", b"f", b"x.sh", b"README", b"File", b"file"]
SPECIAL = [
    b"sp ace", b" lead", b"trail ", b'q"uote', b"new\nline", b"tab\there", b"back\\slash", b"-dash", b"*star", b"?q",
    b"[br]", b"'sq", b"#hash", b"~tilde", b".hidden", b"dot.", b"semi;colon", b"\x01ctl", b"\x7f", b"caf\xc3\xa9",
    b"\xe2\x82\xac", b"e\xcc\x81", b"a b", b"$var", b"!bang", b"&amp", b"(p)", b"a:b", b"%25", b"{x}", b"@at", b"`bt`",
    b"|pipe", b"<lt>", b"\xc3\xa9\xc3\xa9",
]
NONUTF8 = [b"hi\xff", b"\x80", b"lat\xe9in", b"\xc3(", b"\xfe\xfe", b"sj\x8a\xa0", b"a\xffb"]
POOLS = {
    "plain": PLAIN,
    "special": PLAIN[:7] + SPECIAL,
    "nonutf8": PLAIN[:5] + SPECIAL[:8] + NONUTF8 + NONUTF8,
}
FLAVOURS = ["plain"] * 4 + ["special"] * 4 + ["nonutf8"] * 2

BIG = ("big", 7, 65537)
CONTENTS = [
    ("raw", b""), ("raw", b"x"), ("raw", b"y"), ("raw", b"hello\n"), ("raw", b"hellO\n"), ("raw", b"hello\r\n"),
    ("raw", b"line1\nline2\n"), ("raw", b"\x00\x01\x02bin\xff\n"), ("raw", b"a"), ("raw", b"nowhere"),
    ("raw", b"#!/bin/sh\necho hi\n"), ("raw", b"A" * 100), ("raw", b"B" * 100), ("raw", b"\xff\xfe\r"), BIG,
    ("raw", b"x\n"), ("raw", b"../a"),
]
TARGETS = [b"a", b"b", b"nowhere", b"../outside", b"/dev/null", b"/nonexistent/abs", b"./a", b"d", b"t\xff", b"sp ace",
           b"x" * 60, b"a/b"]

EDIT_OPS = ["modify_same", "modify_size", "touch", "chmod", "delete", "delete_dir", "add_file", "add_link", "add_dir",
            "to_symlink", "to_file", "to_dir", "rename"]
INDEX_OPS = ["add_all", "add", "stage", "unstage", "rm_cached", "commit", "reset_mixed", "reset_hard"]
OPS_WEIGHTED = (
    ["modify_same"] * 3 + ["modify_size"] * 3 + ["touch"] + ["chmod"] * 5 + ["delete"] * 3 + ["delete_dir"] + ["add_file"] * 3
    + ["add_link"] + ["add_dir"] * 2 + ["to_symlink"] * 3 + ["to_file"] * 3 + ["to_dir"] * 3 + ["rename"] * 2
    + ["add_all"] * 3 + ["add"] * 3 + ["stage"] * 4 + ["unstage"] * 3 + ["rm_cached"] * 3 + ["commit"] * 2 + ["reset_mixed"]
    + ["reset_hard"] * 2 + ["checkout"] * 8
)
TYPE_CHANGE_OPS = {"to_symlink", "to_file", "to_dir"}
TREE_EDITS = ["content", "content", "mode", "mode", "retype", "retype", "to_dir", "to_dir", "to_file", "to_file", "delete", "add", "add",
              "retarget"]
INITS = ["reset_index", "checkout", "reset_hard", "clone"]
# configuration that must not change any answer (git honours both the same way); spelled as a suffix of the init kind so that
# cases, replays and the minimiser carry it along unchanged
INIT_OPTS = ["", "", "", "+notrustctime", "+notrustctime", "+preload", "+notrustctime+preload"]
_OPT_CONFIG = {"notrustctime": ("core.trustctime", "false"), "preload": ("core.preloadIndex", "true")}
KIND_MODE = {"f": REG, "x": EXE, "l": LNK}
MODE_KIND = {REG: "f", EXE: "x", LNK: "l"}


def content(spec) -> bytes:
    if spec[0] == "raw":
        return spec[1]
    if spec[0] == "big":
        seed, n = spec[1], spec[2]
        out = []
        for i in range(n // 20 + 1):
            out.append(hashlib.sha1(b"%d:%d" % (seed, i)).digest())
        return b"".join(out)[:n]
    raise HarnessError(f"bad content spec {spec!r}")


def valid_target(data: bytes) -> bool:
    return 0 < len(data) <= 200 and b"\0" not in data


def _universe(names, ndirs):
    dirs = names[:ndirs]
    u = list(names)
    for d in dirs:
        for n in names[:4]:
            u.append(d + b"/" + n)
    if len(dirs) >= 2:
        for n in names[:3]:
            u.append(dirs[0] + b"/" + dirs[1] + b"/" + n)
            u.append(dirs[1] + b"/" + dirs[0] + b"/" + n)
    return u


def fits(tree, path) -> bool:
    """Can ``path`` be added to the listing without making a path both a file and a directory?"""
    if path in tree:
        return False
    parts = path.split(b"/")
    for i in range(1, len(parts)):
        if b"/".join(parts[:i]) in tree:
            return False
    pre = path + b"/"
    return not any(p.startswith(pre) for p in tree)


def _entry(kind_sel, c_sel, t_sel):
    kind = "ffffxxlll"[kind_sel % 9]
    if kind == "l":
        return ("l", ("raw", TARGETS[t_sel % len(TARGETS)]))
    return (kind, CONTENTS[c_sel % len(CONTENTS)])


def loops(path: bytes, target: bytes) -> bool:
    """Does a link at ``path`` with ``target`` lead (lexically) back to or through itself?  Symlink loops are covered by
    pinned inputs only."""
    if target.startswith(b"/"):
        return False
    norm = os.path.normpath(os.path.join(os.path.dirname(path), target))
    return norm == path or norm.startswith(path + b"/")


def _no_self_loop(path, entry):
    kind, spec = entry
    if kind == "l" and loops(path, content(spec)):
        return (kind, ("raw", b"elsewhere"))
    return entry


def _build_tree(universe, picks):
    tree = {}
    for u, k, c, t in picks:
        p = universe[u % len(universe)]
        if fits(tree, p):
            tree[p] = _no_self_loop(p, _entry(k, c, t))
    if not tree:
        tree[universe[0]] = ("f", CONTENTS[3])
    return tree


def _derive_tree(base, universe, names, edits):
    tree = dict(base)
    for name, s1, s2, s3 in edits:
        paths = sorted(tree)
        if name in ("content", "mode", "retype", "to_dir", "delete"):
            if not paths:
                continue
            p = paths[s1 % len(paths)]
            kind, spec = tree[p]
            if name == "content":
                if kind == "l":
                    if s3 % 2:
                        cur = content(spec)  # another target of the same length
                        t = cur[:-1] + (b"b" if cur[-1:] != b"b" else b"c")
                    else:
                        t = TARGETS[s2 % len(TARGETS)]
                    tree[p] = ("l", ("raw", t if ("raw", t) != spec else t + b"2"))
                else:
                    new = CONTENTS[s2 % len(CONTENTS)]
                    if new == spec:
                        new = CONTENTS[(s2 + 1) % len(CONTENTS)]
                    tree[p] = (kind, new)
            elif name == "mode":
                if kind != "l":
                    tree[p] = ("x" if kind == "f" else "f", spec)
            elif name == "retype":
                if kind == "l":
                    tree[p] = ("f" if s2 % 3 else "x", spec if s3 % 2 else CONTENTS[s2 % len(CONTENTS)])
                else:
                    data = content(spec)
                    keep = s3 % 2 and valid_target(data)
                    tree[p] = ("l", spec if keep else ("raw", TARGETS[s2 % len(TARGETS)]))
            elif name == "to_dir":
                del tree[p]
                tree[p + b"/" + names[s2 % len(names)]] = _entry(s3, s2, s3)
                if s3 % 2:
                    q = p + b"/" + names[(s2 + 1) % len(names)]
                    if fits(tree, q):
                        tree[q] = _entry(s2, s3, s2)
            elif name == "delete":
                if len(tree) > 1:
                    del tree[p]
        elif name == "retarget":  # a symlink stays a symlink, the target changes but not its length
            links = [p for p in paths if tree[p][0] == "l"]
            if links:
                p = links[s1 % len(links)]
                cur = content(tree[p][1])
                tree[p] = ("l", ("raw", cur[:-1] + (b"b" if cur[-1:] != b"b" else b"c")))
        elif name == "to_file":
            dirs = sorted({b"/".join(p.split(b"/")[:i]) for p in tree for i in range(1, p.count(b"/") + 1)})
            if not dirs:
                continue
            d = dirs[s1 % len(dirs)]
            for p in [p for p in tree if p.startswith(d + b"/")]:
                del tree[p]
            tree[d] = _entry(s2, s3, s2)
        elif name == "add":
            p = universe[s1 % len(universe)]
            if fits(tree, p):
                tree[p] = _entry(s2, s3, s1)
    return {p: _no_self_loop(p, e) for p, e in tree.items()}


def _scenarios(maxops):
    from hypothesis import strategies as st

    sel = st.integers(0, 9999)

    @st.composite
    def scen(draw):
        flavour = draw(st.sampled_from(FLAVOURS))
        pool = POOLS[flavour]
        n = draw(st.integers(5, 9))
        names = draw(st.lists(st.sampled_from(pool), min_size=n, max_size=n, unique=True))
        ndirs = draw(st.integers(2, 3))
        universe = _universe(names, ndirs)
        picks = draw(st.lists(st.tuples(sel, sel, sel, sel), min_size=1, max_size=8))
        a = _build_tree(universe, picks)
        trees = [a]
        for _ in range(2):
            if draw(st.integers(0, 5)) == 0:
                trees.append(_build_tree(universe, draw(st.lists(st.tuples(sel, sel, sel, sel), min_size=1, max_size=6))))
            else:
                edits = draw(st.lists(st.tuples(st.sampled_from(TREE_EDITS), sel, sel, sel), min_size=1, max_size=4))
                trees.append(_derive_tree(trees[draw(st.integers(0, len(trees) - 1))], universe, names, edits))
        init = draw(st.sampled_from(INITS)) + draw(st.sampled_from(INIT_OPTS))
        aops = draw(st.lists(st.tuples(st.sampled_from(OPS_WEIGHTED), sel, sel, sel), min_size=2, max_size=maxops))
        # a type-only change that keeps the bytes (link <-> file holding the link's target) is, half of the time, followed at
        # once by reset --hard: the one operation that has to look at the type of what is in its way, not only its bytes
        follow = []
        for a in aops:
            follow.append(a)
            if a[0] in ("to_file", "to_symlink") and a[2] % 3 == 0 and a[3] % 2 == 0:
                follow.append(("reset_hard", a[1], a[2], a[3]))
        aops = follow
        return dict(flavour=flavour, names=names, universe=universe, trees=trees, init=init, aops=aops)

    return scen()


# ---------------------------------------------------------------------------
# helpers


def _fi_quote(p: bytes) -> bytes:
    out = bytearray(b'"')
    for c in p:
        if c == 0x22:
            out += b'\\"'
        elif c == 0x5C:
            out += b"\\\\"
        elif c == 0x0A:
            out += b"\\n"
        elif c < 0x20 or c >= 0x7F:
            out += b"\\%03o" % c
        else:
            out.append(c)
    out += b'"'
    return bytes(out)


def _listing(tree) -> dict:
    return {p: (KIND_MODE[k], M.blob_sha(content(spec))) for p, (k, spec) in tree.items()}


def _dirs_of(listing) -> set:
    return {b"/".join(p.split(b"/")[:i]) for p in listing for i in range(1, p.count(b"/") + 1)}


def _is_utf8(p: bytes) -> bool:
    try:
        p.decode("utf-8")
        return True
    except UnicodeDecodeError:
        return False


def _path_class(p: bytes) -> str:
    if not _is_utf8(p):
        return "nonutf8"
    if any(c < 0x20 or c in b'"\\' or c >= 0x7F for c in p):
        return "quoted"
    return "plain"


def _innermost_dulwich_frame(exc) -> str:
    name = "?"
    for fs in traceback.extract_tb(exc.__traceback__):
        if "/dulwich/" in fs.filename.replace("\\", "/"):
            name = f"{os.path.basename(fs.filename)[:-3]}.{fs.name}"
    return name


class _Stop(Exception):
    """The scenario cannot continue (state unknown after a reported failure)."""


# exception types that are never a deliberate refusal of an operation
BUG_TYPES = (UnicodeError, TypeError, AttributeError, AssertionError, LookupError, RuntimeError, NameError, ArithmeticError)


# ---------------------------------------------------------------------------
# the runner


class Runner:
    def __init__(self, ctx, trees, init, only_bucket=None):
        self.ctx = ctx
        self.trees = trees  # three dicts path -> (kind, spec)
        self.init = init
        self.only_bucket = only_bucket  # replay: report this bucket only (a case may show several defects)
        self.ops = []  # concrete operations executed so far
        self.labels = set()
        self.shapes = []  # expected-status shape per observation
        self.opkinds = []
        self.base = ctx.scratch.new("s")
        self.d = os.path.join(self.base, "w")
        self.bd = os.fsencode(self.d)
        self.repo = None
        self.branch = 0
        self.branch_trees = [_listing(t) for t in trees]
        self.H = {}
        self.I = {}
        self.W = {}
        self.dirs = set()
        self.type_change = False
        self.switch_across_df = False

    # -- plumbing ---------------------------------------------------------------
    def case(self):
        return dict(
            trees=[[(p, k, spec) for p, (k, spec) in sorted(t.items())] for t in self.trees],
            init=self.init,
            ops=list(self.ops),
        )

    def fail(self, bucket, message):
        if self.only_bucket is not None and bucket != self.only_bucket:
            return
        # the sub-check name is the bucket itself: replay(check, case) re-runs the scenario and reports only that bucket
        self.ctx.fail(bucket, message, bucket, self.case())

    def close(self):
        if self.repo is not None:
            try:
                self.repo.close()
            except Exception:
                pass
            self.repo = None
        shutil.rmtree(self.base, ignore_errors=True)

    def crashed(self, where, exc):
        """An exception that is not a documented refusal: report, bucketed by type and raising function."""
        frame = _innermost_dulwich_frame(exc)
        self.fail(
            f"C18:exception:{type(exc).__name__}:{frame}",
            f"{where} raised {type(exc).__name__}: {exc} (in {frame}); last operation {self.ops[-1] if self.ops else None!r}",
        )

    def sync(self, head=True, index=True, wd=True):
        if head:
            self.H = M.read_tree(self.d)
        if index:
            self.I = M.read_index(self.d)
        if wd:
            self.W, self.dirs = M.scan_workdir(self.bd)

    def full(self, p: bytes) -> bytes:
        return os.path.join(self.bd, p)

    def stop_on_symlink_loop(self):
        """Symlink loops (a -> a, a -> b -> a, d/l -> ../d/l/x) are declared out of the domain: end the scenario."""
        for p, v in self.W.items():
            if v[0] == LNK:
                try:
                    os.stat(self.full(p))
                except OSError as e:
                    if e.errno == errno.ELOOP:
                        self.labels.add("stopped:symlink-loop")
                        raise _Stop()

    def tick(self):
        """Tick barrier: the file-system clock must be past every timestamp of the index file."""
        ip = os.path.join(self.d, ".git", "index")
        try:
            st = os.stat(ip)
        except FileNotFoundError:
            return
        floor = max(st.st_mtime_ns, st.st_ctime_ns)
        probe = os.path.join(self.base, "tick")
        for _ in range(2_000_000):
            with open(probe, "wb") as f:
                f.write(b"t")
            ps = os.stat(probe)
            if min(ps.st_mtime_ns, ps.st_ctime_ns) > floor:
                return
        raise HarnessError("tick barrier: the file-system clock does not advance")

    # -- repository construction ---------------------------------------------------
    def _set_head(self, k):
        with open(os.path.join(self.d, ".git", "HEAD"), "w") as f:
            f.write(f"ref: refs/heads/br{k}\n")

    def _head(self) -> bytes:
        with open(os.path.join(self.d, ".git", "HEAD"), "rb") as f:
            data = f.read().strip()
        return data[5:] if data.startswith(b"ref: ") else data

    def _fast_import(self, where):
        s = [b"commit refs/heads/brE\ncommitter C <c@example.com> 1000000000 +0000\ndata 1\ne\n"]
        for i, t in enumerate(self.trees):
            s.append(b"commit refs/heads/br%d\ncommitter C <c@example.com> 1000000000 +0000\ndata 2\nm%d\n" % (i, i))
            for p, (k, spec) in sorted(t.items()):
                data = content(spec)
                s.append(b"M %o inline %s\ndata %d\n" % (KIND_MODE[k], _fi_quote(p), len(data)))
                s.append(data + b"\n")
        cgit.git(["fast-import", "--quiet", "--date-format=raw"], cwd=where, input=b"".join(s))
        out = cgit.out(["rev-parse"] + [f"br{i}^{{tree}}" for i in range(3)], cwd=where).split()
        for i in range(3):
            if out[i] != M.tree_id(self.branch_trees[i]):
                raise HarnessError(f"fast-import tree {i} differs from the reference tree id (generator/model bug)")

    def setup(self):
        from dulwich import porcelain
        from dulwich.repo import Repo

        init, *opts = self.init.split("+")
        if init == "clone":
            src = os.path.join(self.base, "src")
            cgit.init(src, bare=True, branch="brE")
            self._fast_import(src)
            try:
                self.repo = porcelain.clone(src, target=self.d, branch=b"br0", errstream=io.BytesIO())
            except Exception as e:
                self.ops.append(("init", init))
                self.crashed("porcelain.clone", e)
                raise _Stop()
            refs = cgit.out(["for-each-ref", "--format=%(refname) %(objectname)", "refs/heads"], cwd=src).decode().split("\n")
            inp = "".join(f"update {n} {s}\n" for n, s in (l.split(" ") for l in refs if l) if not n.endswith("/br0"))
            cgit.git(["update-ref", "--stdin"], cwd=self.d, input=inp.encode())
        else:
            cgit.init(self.d, branch="brE")
            self._fast_import(self.d)
        with open(os.path.join(self.d, ".git", "config")) as f:
            cfg = f.read().lower()
        if "filemode = true" not in cfg or "symlinks = false" in cfg or "autocrlf" in cfg or "ignorecase" in cfg:
            raise HarnessError(f"unexpected repository configuration: {cfg!r}")
        for o in opts:
            cgit.git(["config", *_OPT_CONFIG[o]], cwd=self.d)
        if opts and self.repo is not None:  # cloned before the option was set: the handle has read its configuration already
            self.repo.close()
            self.repo = Repo(self.d)
        self.ops.append(("init", init))
        try:
            if init == "reset_index":
                self._set_head(0)
                self.repo = Repo(self.d)
                self.repo.get_worktree().reset_index()
            elif init == "reset_hard":
                self._set_head(0)
                self.repo = Repo(self.d)
                porcelain.reset(self.repo, "hard", "HEAD")
            elif init == "checkout":
                self.repo = Repo(self.d)
                porcelain.checkout(self.repo, "br0")
        except Exception as e:
            self.crashed(f"initial checkout ({init})", e)
            raise _Stop()
        self.branch = 0
        self.sync()
        self.stop_on_symlink_loop()
        head = self._head()
        if head != b"refs/heads/br0":
            self.fail("C18:init:head-not-on-branch", f"after {init} HEAD is {head!r}")
            raise _Stop()
        self.round_trip(self.branch_trees[0], f"init:{init}", extra={})
        self.observe()

    # -- oracle 1 -----------------------------------------------------------------
    def round_trip(self, T, where, extra):
        """State must be exactly tree T (+ ``extra`` untracked files that were there before)."""
        from dulwich import porcelain

        site = where.split(":")[0]
        if self.H != T:
            self.fail(f"C18:{site}:head-tree-differs", f"{where}: HEAD tree is not the target tree")
            raise _Stop()
        want = dict(T)
        want.update(extra)
        got = {p: v[:2] for p, v in self.W.items()}
        if got != want:
            kinds = set()
            det = []
            for p in sorted(set(got) | set(want)):
                if got.get(p) == want.get(p):
                    continue
                g, w = got.get(p), want.get(p)
                if g is None:
                    k = "missing-" + MODE_KIND[w[0]]
                elif w is None:
                    k = "leftover-" + MODE_KIND[g[0]]
                elif g[0] != w[0]:
                    k = f"mode-{MODE_KIND[w[0]]}-as-{MODE_KIND[g[0]]}"
                else:
                    k = "content-" + MODE_KIND[w[0]]
                kinds.add(k)
                det.append(f"{p!r}: want {w} got {g}")
            self.fail(f"C18:{site}:workdir-differs:{'+'.join(sorted(kinds)[:3])}",
                      f"{where}: directory content differs from the tree: " + "; ".join(det[:6]))
            raise _Stop()
        if self.I != T:
            diff = [p for p in sorted(set(self.I) | set(T)) if self.I.get(p) != T.get(p)]
            self.fail(f"C18:{site}:index-differs", f"{where}: index differs from the tree at {diff[:6]!r}")
            raise _Stop()
        if extra:
            self.labels.add("round-trip-with-untracked")
            return
        # status clean is asserted by the observation that follows; here: stage everything -> same tree id
        try:
            porcelain.add(self.repo)
            tid = self.repo.open_index().commit(self.repo.object_store)
        except Exception as e:
            self.ops.append(("roundtrip-add",))
            self.crashed(f"{where}: porcelain.add()/Index.commit()", e)
            raise _Stop()
        want_id = M.tree_id(want)
        if tid != want_id:
            self.sync(head=False, wd=False)
            diff = [p for p in sorted(set(self.I) | set(want)) if self.I.get(p) != want.get(p)]
            self.fail(f"C18:{site}:restage-tree-id-differs",
                      f"{where}: porcelain.add() + Index.commit() gave {tid!r}, the tree is {want_id!r}; index differs at {diff[:6]!r}")
            raise _Stop()
        gid = cgit.out(["write-tree"], cwd=self.d).strip()
        if gid != want_id:
            self.fail(f"C18:{site}:git-write-tree-differs", f"{where}: git write-tree gives {gid!r} on dulwich's index, expected {want_id!r}")
            raise _Stop()
        self.sync(head=False, wd=False)
        self.labels.add("round-trip")

    # -- oracle 2 -------------------------------------------------------------------
    def _wkind(self, p: bytes) -> str:
        """Kind of what is at path ``p`` in the directory (no trailing slash)."""
        parts = p.split(b"/")
        for i in range(1, len(parts)):
            try:
                if stat.S_ISLNK(os.lstat(self.full(b"/".join(parts[:i]))).st_mode):
                    return "beyond-symlink"  # a leading directory is a symlink: to git the path does not exist
            except OSError:
                break
        try:
            st = os.lstat(self.full(p))
        except FileNotFoundError:
            return "absent"
        except NotADirectoryError:
            return "below-nondir"
        if stat.S_ISDIR(st.st_mode):
            return "dir"
        if stat.S_ISLNK(st.st_mode):
            try:
                t = os.stat(self.full(p))
            except OSError:
                return "link-dangling"
            return "link-to-dir" if stat.S_ISDIR(t.st_mode) else "link-to-file" if stat.S_ISREG(t.st_mode) else "link-to-other"
        return "exec" if st.st_mode & 0o100 else "file"

    def _rel_iw(self, p: bytes) -> str:
        """Relation between the index entry and the directory at path p."""
        i = self.I.get(p)
        w = self.W.get(p)
        if i is None:
            return "not-in-index"
        if w is None:
            k = self._wkind(p)
            return {"absent": "deleted", "dir": "dir-in-place", "below-nondir": "parent-not-dir"}.get(k, k)
        if i == w[:2]:
            return "same-" + MODE_KIND[w[0]]
        if i[1] == w[1]:
            if LNK in (i[0], w[0]):
                return "type-only"
            return "mode-only"
        if i[0] == w[0]:
            return "content"
        if LNK in (i[0], w[0]):
            return "type+content"
        return "mode+content"

    def _tracked_kind(self, p: bytes) -> str:
        if p in self.I:
            return "tracked"
        if p in self.dirs and M.has_prefix(sorted(self.I), p + b"/"):
            return "has-tracked-below"
        return "untracked"

    def observe(self):
        from dulwich import porcelain

        exp = M.expected_status(self.H, self.I, self.W)
        shape = tuple(len(exp[k]) for k in ("add", "delete", "modify", "unstaged", "untracked_all", "untracked_normal"))
        self.shapes.append(shape)
        for mode in ("all", "normal"):
            g = M.git_status(self.d, mode)
            try:
                s = porcelain.status(self.repo, untracked_files=mode)
            except Exception as e:
                self.crashed(f"porcelain.status(untracked_files={mode!r})", e)
                continue
            dul = dict(
                add=set(s.staged["add"]), delete=set(s.staged["delete"]), modify=set(s.staged["modify"]),
                unstaged=set(s.unstaged), untracked=set(s.untracked),
            )
            if sum(len(v) for v in dul.values()) != len(s.staged["add"]) + len(s.staged["delete"]) + len(s.staged["modify"]) + len(s.unstaged) + len(s.untracked):
                self.labels.add("status-duplicate-entries")
            eu = exp["untracked_all"] if mode == "all" else exp["untracked_normal"]
            model = dict(add=exp["add"], delete=exp["delete"], modify=exp["modify"], unstaged=exp["unstaged"], untracked=eu)
            for field in ("add", "delete", "modify", "unstaged", "untracked"):
                tolerant = model[field] ^ g[field]
                if tolerant:
                    known = field == "untracked" and mode == "normal" and tolerant <= exp["normal_suppressed"]
                    self.labels.add("model-git-differ:known-quirk" if known else f"model-git-differ:{field}")
                    if not known:
                        self.ctx.notes.append(f"model/git differ ({mode},{field}): {sorted(tolerant)[:3]!r}")
                for p in sorted((dul[field] ^ model[field]) - tolerant):
                    direction = "missing" if p in model[field] else "extra"
                    q = p[:-1] if p.endswith(b"/") else p
                    if field == "unstaged":
                        key = f"unstaged:{direction}:{self._rel_iw(q)}"
                    elif field == "untracked":
                        wk = {"exec": "file", "link-dangling": "symlink", "link-to-file": "symlink", "link-to-other": "symlink",
                              "link-to-dir": "symlink-to-dir"}.get(self._wkind(q), self._wkind(q))
                        # the two modes share the code path for plain entries; directories are handled per mode
                        m = f"-{mode}" if wk in ("dir", "symlink-to-dir") or p.endswith(b"/") else ""
                        key = f"untracked{m}:{direction}:{wk}:{self._tracked_kind(q)}" + (":as-dir" if p.endswith(b"/") else "")
                    else:
                        h, i = self.H.get(q), self.I.get(q)
                        if h and i and h[1] == i[1]:
                            key = f"staged-{field}:{direction}:mode-only"  # same blob: x bit or file<->symlink
                        else:
                            key = f"staged-{field}:{direction}:H={MODE_KIND[h[0]] if h else '-'}:I={MODE_KIND[i[0]] if i else '-'}"
                    self.fail(
                        f"C18:status:{key}",
                        f"porcelain.status(untracked_files={mode!r}).{field}: {p!r} is {direction}; dulwich {sorted(dul[field])!r}, "
                        f"model {sorted(model[field])!r}, git {sorted(g[field])!r}; HEAD={self.H.get(q)} index={self.I.get(q)} "
                        f"dir={self.W.get(q, self._wkind(q))}",
                    )

    # -- working-directory edits ----------------------------------------------------
    def _remove_any(self, full: bytes):
        try:
            st = os.lstat(full)
        except FileNotFoundError:
            return
        if stat.S_ISDIR(st.st_mode):
            shutil.rmtree(full)
        else:
            os.unlink(full)

    def _write(self, p: bytes, data: bytes, exe: bool):
        full = self.full(p)
        os.makedirs(os.path.dirname(full), exist_ok=True)
        self._remove_any(full)
        with open(full, "wb") as f:
            f.write(data)
        os.chmod(full, 0o755 if exe else 0o644)

    def do_edit(self, op):
        name = op[0]
        self.tick()
        if name == "write":  # create or replace by a regular file
            _, p, spec, exe = op
            self._write(p, content(spec), exe)
        elif name == "rewrite":  # same bytes again: new timestamps, no change
            _, p = op
            full = self.full(p)
            with open(full, "rb") as f:
                data = f.read()
            with open(full, "wb") as f:
                f.write(data)
        elif name == "chmod":
            _, p, exe = op[:3]
            # optional 4th element: the exact permission bits (git looks at the owner's x bit only: 0o654 is not executable)
            os.chmod(self.full(p), op[3] if len(op) > 3 else (0o755 if exe else 0o644))
        elif name == "delete":
            self._remove_any(self.full(op[1]))
        elif name == "symlink":
            _, p, target = op
            full = self.full(p)
            os.makedirs(os.path.dirname(full), exist_ok=True)
            self._remove_any(full)
            os.symlink(target, full)
        elif name == "mkdir":
            _, p, children = op
            full = self.full(p)
            os.makedirs(os.path.dirname(full), exist_ok=True)
            self._remove_any(full)
            os.mkdir(full)
            for cname, spec, exe in children:
                self._write(p + b"/" + cname, content(spec), exe)
        elif name == "rename":
            _, src, dst = op
            os.makedirs(os.path.dirname(self.full(dst)), exist_ok=True)
            os.rename(self.full(src), self.full(dst))
        else:
            raise HarnessError(f"unknown edit {op!r}")
        self.sync(head=False, index=False)
        self.stop_on_symlink_loop()

    # -- index operations (differential against git on a copy of the index) ---------------
    def _git_on_copy(self, args):
        """Run the git equivalent on the saved pre-operation index; returns its listing or None if git refused."""
        copy = os.path.join(self.base, "index.copy")
        env = {"GIT_INDEX_FILE": copy}
        rc, _, err = cgit.git(["--literal-pathspecs"] + args, cwd=self.d, check=False, extra_env=env)
        if rc != 0 and (args[0] != "reset" or rc >= 128):
            return None
        out = cgit.out(["ls-files", "-s", "-z"], cwd=self.d, extra_env=env)
        res = {}
        for rec in out.split(b"\0"):
            if rec:
                meta, path = rec.split(b"\t", 1)
                mode, sha, _stage = meta.split(b" ")
                res[path] = (int(mode, 8), sha)
        return res

    def _save_index(self):
        copy = os.path.join(self.base, "index.copy")
        ip = os.path.join(self.d, ".git", "index")
        if os.path.exists(ip):
            shutil.copyfile(ip, copy)
        elif os.path.exists(copy):
            os.unlink(copy)

    def _compare_index(self, opname, named, want):
        """self.I (actual, read by git) against ``want`` (what git's equivalent produced)."""
        if want is None:
            self.labels.add(f"git-refused:{opname}")
            return
        bad = M.df_conflicts(self.I)
        if bad:
            self.fail(f"C18:{'stage' if opname == 'add-scan' else opname}:index-has-file-and-directory-at-one-path",
                      f"after {self.ops[-1]!r} the index holds {sorted(bad)[:3]!r} both as an entry and as a directory "
                      f"(git write-tree refuses such an index; git's own result: {sorted(want)[:8]!r})")
            raise _Stop()
        if self.I == want:
            return
        named = set(named)
        for p in sorted(set(self.I) | set(want)):
            a, w = self.I.get(p), want.get(p)
            if a == w:
                continue
            if p in named:
                rel = "named"
            elif any(p.startswith(n + b"/") or n.startswith(p + b"/") for n in named):
                rel = "df-related"
            else:
                rel = "other"
            if rel == "df-related" and opname == "unstage":
                # `git reset -- d` also restores what HEAD has below d/; WorkTree.unstage is documented per file
                self.labels.add("unstage-differs-from-git-below-named-path")
                continue
            wk = self._wkind(p)
            wkc = ":dir=" + {"exec": "file", "link-dangling": "symlink", "link-to-file": "symlink", "link-to-other": "symlink",
                             "link-to-dir": "symlink-to-dir"}.get(wk, wk)
            if a is None:
                what = "entry-missing"
            elif w is None:
                what = "entry-left" if p in self._pre_I else "entry-added"
            elif a[1] == w[1]:
                what, wkc = "mode-not-updated", ""  # same blob, stale mode (x bit or file<->symlink)
            elif a[0] != w[0]:
                what = f"mode-{MODE_KIND.get(w[0], '?')}-as-{MODE_KIND.get(a[0], '?')}"
            else:
                what = "wrong-blob"
            if opname == "rm_cached":
                wkc = ""  # what the directory holds at the path is irrelevant for removing an index entry
            self.fail(f"C18:{opname}:{rel}:{what}{wkc}",
                      f"after {self.ops[-1]!r}: index entry {p!r} is {a}, git's equivalent leaves {w}; before: {self._pre_I.get(p)}, "
                      f"directory: {self.W.get(p, wk)}")
        # continue from the actual index

    def do_index(self, op):
        from dulwich import porcelain

        name = op[0]
        self._save_index()
        self._pre_I = dict(self.I)
        wt = self.repo.get_worktree()
        named = []
        gitargs = None
        try:
            if name == "add_all":
                gitargs = ["add", "-A"]
                named = list(set(self.I) | set(self.W))
                porcelain.add(self.repo)
            elif name == "add":
                named = list(op[1])
                gitargs = ["add", "-A", "--"] + [os.fsdecode(p) for p in named]
                porcelain.add(self.repo, paths=[os.fsdecode(self.full(p)) for p in named])
            elif name == "stage":
                named = list(op[1])
                gitargs = ["add", "-A", "--"] + [os.fsdecode(p) for p in named]
                wt.stage(named)
            elif name == "unstage":
                named = list(op[1])
                gitargs = ["reset", "-q", "--"] + [os.fsdecode(p) for p in named]
                wt.unstage([os.fsdecode(p) for p in named])
            elif name == "rm_cached":
                named = list(op[1])
                gitargs = ["rm", "-q", "-f", "--cached", "--"] + [os.fsdecode(p) for p in named]
                porcelain.remove(self.repo, paths=list(named), cached=True)
            elif name == "reset_mixed":
                gitargs = ["reset", "-q"]
                named = list(set(self.I) | set(self.H))
                porcelain.reset(self.repo, "mixed", "HEAD")
            else:
                raise HarnessError(f"unknown index op {op!r}")
        except Exception as e:
            if isinstance(e, HarnessError):
                raise
            self.sync(head=False, wd=False)
            if not isinstance(e, BUG_TYPES) and self._git_on_copy(gitargs) is None:
                self.labels.add(f"refused-like-git:{name}")  # e.g. a path that is neither in the index nor in the directory
                return
            self.crashed(f"{name}", e)
            return
        self.sync(head=False, wd=False)
        family = name
        if name == "add" and any(p in self.dirs for p in named):
            named = list(set(self.I) | set(self.W))  # a directory argument names everything below it
            family = "add-scan"
        elif name == "add_all":
            family = "add-scan"  # both find their paths by scanning (get_unstaged_changes + get_untracked_paths)
        elif name == "add":
            family = "stage"  # porcelain.add(file paths) hands the paths to WorkTree.stage
        self._compare_index(family, named, self._git_on_copy(gitargs))

    def do_commit(self):
        from dulwich import porcelain

        if M.df_conflicts(self.I):
            raise _Stop()
        want = M.tree_id(self.I)
        try:
            porcelain.commit(self.repo, message=b"c", author=b"A <a@example.com>", committer=b"C <c@example.com>",
                             commit_timestamp=1000000001, commit_timezone=0, author_timestamp=1000000001, author_timezone=0)
        except Exception as e:
            self.crashed("porcelain.commit", e)
            self.sync()
            return
        got = cgit.out(["rev-parse", "HEAD^{tree}"], cwd=self.d).strip()
        self.sync()
        if got != want:
            diff = [p for p in sorted(set(self.I) | set(self.H)) if self.I.get(p) != self.H.get(p)]
            self.fail("C18:commit:tree-differs-from-index", f"porcelain.commit: HEAD^{{tree}} is {got!r}, the index is tree {want!r}; differs at {diff[:6]!r}")
        self.branch_trees[self.branch] = dict(self.H)

    def do_reset_hard(self):
        from dulwich import porcelain

        pre_I, pre_W = dict(self.I), {p: v[:2] for p, v in self.W.items()}
        try:
            porcelain.reset(self.repo, "hard", "HEAD")
        except Exception as e:
            self.sync()
            if not isinstance(e, BUG_TYPES):
                # git reset --hard deletes whatever is in the way; dulwich refuses in several file<->directory situations
                # (untracked or modified content where HEAD needs a directory, ...).  The statement does not speak about
                # reset, so a refusal is only counted; a reset that *returns* is held to "state == HEAD" below.
                self.labels.add(f"reset-hard-refused:{type(e).__name__}")
                return
            self.crashed("porcelain.reset(hard)", e)
            return
        self.sync()
        if self.I != self.H:
            diff = [p for p in sorted(set(self.I) | set(self.H)) if self.I.get(p) != self.H.get(p)]
            self.fail("C18:reset-hard:index-not-head", f"after reset --hard the index differs from HEAD at {diff[:6]!r}")
            return
        for p in sorted(self.H):
            w = self.W.get(p)
            if w is None or w[:2] != self.H[p]:
                self.fail(f"C18:reset-hard:workdir-not-head:{self._rel_iw(p)}:was={self._was(pre_W, p)}",
                          f"after reset --hard {p!r} is {w if w else self._wkind(p)} in the directory, HEAD has {self.H[p]}")
                return
        for p in sorted(pre_I):
            if p not in self.H and p in self.W and fits(self.H, p):
                self.fail("C18:reset-hard:staged-addition-left-in-directory",
                          f"after reset --hard {p!r} (in the index before, not in HEAD) is still in the directory")
                return

    @staticmethod
    def _was(pre_W, p):
        w = pre_W.get(p)
        if w is not None:
            return MODE_KIND[w[0]]
        if any(q.startswith(p + b"/") for q in pre_W):
            return "dir"
        return "absent"

    # -- branch switch ----------------------------------------------------------------
    def do_checkout(self, k):
        from dulwich import porcelain

        A = dict(self.H)
        B = dict(self.branch_trees[k])
        pre_I = dict(self.I)
        pre_W = {p: v[:2] for p, v in self.W.items()}
        exp = M.expected_status(A, pre_I, self.W)
        dirty = bool(exp["add"] or exp["delete"] or exp["modify"] or exp["unstaged"])
        untracked = {p: pre_W[p] for p in exp["untracked_all"]}
        union_ok = all(fits(B, p) for p in untracked) and not M.df_conflicts({**B, **untracked})
        dirs_a, dirs_b = _dirs_of(A), _dirs_of(B)
        across_df = (any(p in dirs_b for p in A) or any(p in dirs_a for p in B)
                     or any(p in B and (A[p][0] == LNK) != (B[p][0] == LNK) for p in A))
        # directories without any file in them (invisible to status) at or below the place of a file of B: whether a
        # switch has to clear them away is declared out of scope, a refusal is accepted
        wsorted = sorted(self.W)
        for e in self.dirs:
            if not M.has_prefix(wsorted, e + b"/"):
                parts = e.split(b"/")
                if any(b"/".join(parts[:i]) in B for i in range(1, len(parts) + 1)):
                    union_ok = False
        try:
            porcelain.checkout(self.repo, f"br{k}")
        except Exception as e:
            self.sync()
            changed = self.H != A or self.I != pre_I or {p: v[:2] for p, v in self.W.items()} != pre_W
            if (not dirty and union_ok) or isinstance(e, BUG_TYPES):
                # from a clean state there is nothing to refuse; a TypeError & co. is never a refusal
                self.crashed(f"porcelain.checkout(br{k}) from a {'dirty' if dirty else 'clean'} state", e)
                raise _Stop()
            self.labels.add(f"switch-refused:{type(e).__name__}")
            if changed:
                self.labels.add("switch-refused-but-state-changed")
            head = self._head()
            if head != b"refs/heads/br%d" % self.branch:
                self.fail("C18:checkout:refused-but-head-moved", f"porcelain.checkout(br{k}) raised {type(e).__name__} but HEAD is now {head!r}")
                raise _Stop()
            return
        self.branch = k
        self.sync()
        self.stop_on_symlink_loop()
        head = self._head()
        if head != b"refs/heads/br%d" % k:
            self.fail("C18:checkout:head-not-on-branch", f"after porcelain.checkout(br{k}) HEAD is {head!r}")
            raise _Stop()
        if self.H != B:
            raise HarnessError("branch tree bookkeeping is wrong")
        if across_df:
            self.switch_across_df = True
            self.labels.add("switch-across-type-change")
        if not dirty and union_ok:
            self.labels.add("switch-clean" + ("+untracked" if untracked else ""))
            self.round_trip(B, f"checkout:br{k}", extra=untracked)
            return
        self.labels.add("switch-dirty-ok" if dirty else "switch-untracked-collision-ok")
        if any(p in B and self.W.get(p, (None,))[:2] != pre_W[p] for p in untracked) or any(
                p not in self.W for p in untracked):
            self.labels.add("switch-overwrote-untracked")
        # local modifications to tracked paths identical in A and B are preserved
        for p in sorted(A):
            if B.get(p) != A[p]:
                continue
            if self.I.get(p) != pre_I.get(p):
                self.fail(f"C18:checkout:dirty:index-entry-of-unchanged-path-lost:{'staged-delete' if p not in pre_I else 'staged-change'}",
                          f"porcelain.checkout(br{k}): {p!r} is identical in both trees, its index entry was {pre_I.get(p)} and is now {self.I.get(p)}")
                return
            if self.W.get(p, (None,))[:2] != pre_W.get(p, (None,))[:2] and not any(q.startswith(p + b"/") for q in B):
                self.fail("C18:checkout:dirty:local-modification-of-unchanged-path-lost",
                          f"porcelain.checkout(br{k}): {p!r} is identical in both trees, the directory had {pre_W.get(p)} and now has {self.W.get(p)}")
                return

    # -- dispatch -------------------------------------------------------------------------
    def in_domain(self, op) -> bool:
        """Is the concrete operation meaningful in the current state?  (Generated operations always are; a minimised or
        replayed sequence may not be.)"""
        name = op[0]
        W, I, H, dirs = self.W, self.I, self.H, self.dirs

        def parent_ok(p):
            parts = p.split(b"/")
            return not any(b"/".join(parts[:i]) in W for i in range(1, len(parts)))

        if name == "write":
            return parent_ok(op[1])
        if name in ("rewrite", "chmod"):
            return op[1] in W and W[op[1]][0] != LNK
        if name == "delete":
            return op[1] in W or op[1] in dirs
        if name in ("symlink", "mkdir"):
            return parent_ok(op[1])
        if name == "rename":
            return (op[1] in W or op[1] in dirs) and op[2] not in W and op[2] not in dirs and parent_ok(op[2]) \
                and not op[2].startswith(op[1] + b"/")
        if name == "stage":
            return all((p in I or p in W) and p not in dirs for p in op[1])
        if name == "add":
            # porcelain.add(paths=[link]) deliberately scans a symlink that points to a directory (pinned by dulwich's own
            # tests test_add_symlink_to_directory_inside_repo / _absolute_to_system): not git's behaviour, out of the domain
            return all((p in I or p in W or p in dirs) and self._wkind(p) != "link-to-dir" for p in op[1])
        if name == "unstage":
            return all(p in I or p in H for p in op[1])
        if name == "rm_cached":
            return all(p in I for p in op[1])
        if name == "checkout":
            return op[1] in (0, 1, 2) and op[1] != self.branch
        return True

    def step(self, op):
        op = tuple(op)
        if M.df_conflicts(self.I):
            # an earlier operation (already reported) left an index that holds a path both as file and as directory;
            # nothing that follows can be judged, and the next operation must not be blamed for it
            self.labels.add("stopped:invalid-index")
            raise _Stop()
        if not self.in_domain(op):
            self.labels.add("op-out-of-domain-skipped")
            return
        self.ops.append(op)
        name = op[0]
        if name in ("write", "rewrite", "chmod", "delete", "symlink", "mkdir", "rename"):
            self.do_edit(op)
        elif name in ("add_all", "add", "stage", "unstage", "rm_cached", "reset_mixed"):
            self.do_index(op)
        elif name == "commit":
            self.do_commit()
        elif name == "reset_hard":
            self.do_reset_hard()
        elif name == "checkout":
            self.do_checkout(op[1])
        else:
            raise HarnessError(f"unknown operation {op!r}")
        self.observe()


# ---------------------------------------------------------------------------
# abstract operation -> concrete operation, by the current state


def resolve(run: Runner, aop, universe, names):
    name, s1, s2, s3 = aop
    W, I, H = run.W, run.I, run.H
    files = sorted(W)
    regs = [p for p in files if W[p][0] != LNK]
    links = [p for p in files if W[p][0] == LNK]
    dirs = sorted(run.dirs)

    def free_paths():
        out = []
        for p in universe:
            if p in W or p in run.dirs:
                continue
            parts = p.split(b"/")
            if any(b"/".join(parts[:i]) in W for i in range(1, len(parts))):
                continue
            out.append(p)
        return out

    def pick(lst, s):
        return lst[s % len(lst)] if lst else None

    def kind_of(p):
        if p in W:
            return MODE_KIND[W[p][0]] + ("T" if p in I else "U")
        if p in run.dirs:
            return "d"
        return "-" + ("T" if p in I else "")

    cop = None
    hit = None
    if name == "modify_same":
        cands = [p for p in regs if W[p][2] >= 1]
        p = pick(cands, s1)
        if p is not None:
            with open(run.full(p), "rb") as f:
                data = f.read()
            if len(data) > 4096:
                spec = ("big", 1000 + s2, len(data))
                if content(spec) == data:
                    spec = ("big", 2000 + s2, len(data))
            else:
                i = s2 % len(data)
                spec = ("raw", data[:i] + bytes([data[i] ^ (1 + s3 % 255)]) + data[i + 1:])
            cop, hit = ("write", p, spec, W[p][0] == EXE), p
    elif name == "modify_size":
        p = pick(regs, s1)
        if p is not None:
            spec = CONTENTS[s2 % len(CONTENTS)]
            if len(content(spec)) == W[p][2]:
                spec = ("raw", content(spec)[:4000] + b"+")
            cop, hit = ("write", p, spec, W[p][0] == EXE), p
    elif name == "touch":
        p = pick(regs, s1)
        if p is not None:
            cop, hit = ("rewrite", p), p
    elif name == "chmod":
        p = pick(regs, s1)
        if p is not None:
            exe = W[p][0] != EXE
            if s2 % 2 == 0:
                # same executable state for git, other permission bits (group/other x set while the owner's is clear, ...)
                exe = not exe
            perm = ([0o755, 0o700, 0o744, 0o751, 0o711] if exe else [0o644, 0o654, 0o655, 0o611, 0o645, 0o600, 0o666])[(s2 // 2) % (5 if exe else 7)]
            cop, hit = ("chmod", p, exe, perm), p
    elif name == "delete":
        p = pick(files, s1)
        if p is not None:
            cop, hit = ("delete", p), p
    elif name == "delete_dir":
        p = pick(dirs, s1)
        if p is not None:
            cop, hit = ("delete", p), p
    elif name == "add_file":
        p = pick(free_paths(), s1)
        if p is not None:
            cop, hit = ("write", p, CONTENTS[s2 % len(CONTENTS)], s3 % 4 == 0), p
    elif name == "add_link":
        p = pick(free_paths(), s1)
        if p is not None:
            t = pick([TARGETS[s2 % len(TARGETS)], pick(files, s2) or b"a", pick(dirs, s2) or b"d"], s3)
            if loops(p, t):
                t = b"elsewhere"
            cop, hit = ("symlink", p, t), p
    elif name == "add_dir":
        p = pick(free_paths(), s1)
        if p is not None:
            n = s2 % 3
            children = [(names[(s3 + i) % len(names)], CONTENTS[(s2 + i) % len(CONTENTS)], False) for i in range(n)]
            children = list({c[0]: c for c in children}.values())
            cop, hit = ("mkdir", p, children), p
    elif name == "to_symlink":
        p = pick(regs + dirs if s3 % 3 == 0 else regs or dirs, s1)
        if p is not None:
            t = None
            if p in W and s2 % 3 == 0:
                with open(run.full(p), "rb") as f:
                    data = f.read(300)
                if valid_target(data):
                    t = data  # type-only change: same bytes
            if t is None:
                others = [q for q in files + dirs if q != p]
                t = pick([TARGETS[s2 % len(TARGETS)], pick(others, s2) or b"nowhere", pick(dirs, s2) or b"b"], s3)
            if loops(p, t):
                t = b"elsewhere"
            cop, hit = ("symlink", p, t), p
    elif name == "to_file":
        p = pick(links + dirs if s3 % 3 == 0 else links or dirs, s1)
        if p is not None:
            if p in W and s2 % 3 == 0:
                spec = ("raw", os.readlink(run.full(p)))
            else:
                spec = CONTENTS[s2 % len(CONTENTS)]
            cop, hit = ("write", p, spec, s3 % 5 == 0), p
    elif name == "to_dir":
        p = pick(files, s1)
        if p is not None:
            n = s2 % 3
            children = [(names[(s3 + i) % len(names)], CONTENTS[(s2 + i) % len(CONTENTS)], False) for i in range(n)]
            children = list({c[0]: c for c in children}.values())
            cop, hit = ("mkdir", p, children), p
    elif name == "rename":
        src = pick(files + dirs, s1)
        dst = pick([q for q in free_paths() if src is None or not q.startswith(src + b"/")], s2)
        if src is not None and dst is not None:
            cop, hit = ("rename", src, dst), src
    elif name == "add_all":
        cop = ("add_all",)
    elif name in ("add", "stage"):
        exp = M.expected_status(H, I, W)
        changed = sorted(exp["unstaged"] | exp["untracked_all"])
        cands = changed if (changed and s3 % 5) else sorted(set(I) | set(W))
        if name == "stage":
            cands = [p for p in cands if p not in run.dirs]  # WorkTree.stage is given file-level paths only
        if name == "add" and dirs and s3 % 4 == 0:
            cands = dirs
        if name == "add":
            cands = [p for p in cands if run._wkind(p) != "link-to-dir"]  # see Runner.in_domain
        p = pick(cands, s1)
        if p is not None:
            ps = [p]
            q = pick(cands, s2)
            if q is not None and q != p and s3 % 2 and not (q.startswith(p + b"/") or p.startswith(q + b"/")):
                ps.append(q)
            cop, hit = (name, ps), p
    elif name == "unstage":
        exp = M.expected_status(H, I, W)
        staged = sorted(exp["add"] | exp["delete"] | exp["modify"])
        cands = staged if (staged and s3 % 5) else sorted(set(I) | set(H))
        p = pick(cands, s1)
        if p is not None:
            cop, hit = ("unstage", [p]), p
    elif name == "rm_cached":
        p = pick(sorted(I), s1)
        if p is not None:
            cop, hit = ("rm_cached", [p]), p
    elif name == "commit":
        if I != H and I:
            cop = ("commit",)
    elif name == "reset_mixed":
        cop = ("reset_mixed",)
    elif name == "reset_hard":
        cop = ("reset_hard",)
    elif name == "checkout":
        k = s1 % 3
        if k == run.branch:
            k = (k + 1 + s2 % 2) % 3
        cop = ("checkout", k)
    else:
        raise HarnessError(f"unknown abstract op {name}")
    if cop is None:
        return None, None
    return cop, (name, kind_of(hit) if hit is not None else "", _path_class(hit) if hit is not None else "")


# ---------------------------------------------------------------------------
# execution of one scenario


def _finish(ctx, run: Runner, flavour, sample):
    distinct_results = len(set(run.shapes))
    nontrivial = (run.type_change or run.switch_across_df) and distinct_results >= 2
    labels = set(run.labels)
    labels.add(f"flavour:{flavour}")
    labels.add(f"init:{run.init}")
    for k in run.opkinds:
        labels.add("op:" + k[0])
    if run.type_change:
        labels.add("type-change-edit")
    if distinct_results >= 2:
        labels.add("status-results-differ>=2")
    if distinct_results >= 4:
        labels.add("status-results-differ>=4")
    if any(k[2] == "nonutf8" for k in run.opkinds):
        labels.add("op-on-non-utf8-path")
    if any(k[2] == "quoted" for k in run.opkinds):
        labels.add("op-on-path-needing-quoting")
    if any(spec == BIG for t in run.trees for _, spec in t.values()):
        labels.add("big-file")
    if any(k == "l" for t in run.trees for k, _ in t.values()):
        labels.add("tree-has-symlink")
    if any(k == "x" for t in run.trees for k, _ in t.values()):
        labels.add("tree-has-executable")
    if any(b"/" in p for t in run.trees for p in t):
        labels.add("tree-has-directory")
    key = (run.init, tuple(run.opkinds), tuple(run.shapes))
    ctx.case(key, nontrivial=nontrivial, labels=sorted(labels), sample=sample if nontrivial else None)
    ctx.label("status-observations", n=len(run.shapes))


def run_scenario(ctx, scen):
    trees = scen["trees"]
    run = Runner(ctx, trees, scen["init"])
    try:
        try:
            run.setup()
            for aop in scen["aops"]:
                cop, kind = resolve(run, aop, scen["universe"], scen["names"])
                if cop is None:
                    continue
                run.opkinds.append(kind)
                if aop[0] in TYPE_CHANGE_OPS:
                    run.type_change = True
                run.step(cop)
        except _Stop:
            run.labels.add("stopped-after-failure")
        except Violation as v:
            if not ctx.thorough:
                # quick tier runs without Hypothesis' shrink phase: bounded minimisation of our own
                run.close()
                case, message = minimise(ctx, v.bucket, v.case, v.message)
                raise Violation(v.bucket, message, v.check, case) from None
            raise
        _finish(ctx, run, scen["flavour"], dict(init=run.init, trees=[sorted(t) for t in trees], ops=[o[:2] for o in run.ops]))
    finally:
        run.close()


class _Probe:
    """Stand-in context for re-executions during minimisation: records buckets, never raises."""

    def __init__(self, ctx):
        self.scratch = ctx.scratch
        self.notes = []
        self.found = {}

    def fail(self, bucket, message, check, case):
        self.found.setdefault(bucket, (message, case))
        return True


def execute_case(ctx, case, only_bucket=None):
    trees = [{p: (k, tuple(spec)) for p, k, spec in t} for t in case["trees"]]
    run = Runner(ctx, trees, case["init"], only_bucket=only_bucket)
    try:
        try:
            run.setup()
            for op in case["ops"]:
                op = tuple(op)
                if op[0] in ("init", "roundtrip-add"):
                    continue
                run.step(op)
        except _Stop:
            pass
    finally:
        run.close()


_min_cache = {}


def minimise(ctx, bucket, case, message, budget=40):
    """Greedy one-at-a-time removal of operations, tree entries and of differences between the trees."""
    if bucket in _min_cache:
        return _min_cache[bucket]
    best = dict(trees=[list(t) for t in case["trees"]], init=case["init"], ops=list(case["ops"]))
    best_msg = message
    runs = 0

    def attempt(cand):
        nonlocal best, best_msg, runs
        if runs >= budget:
            return False
        runs += 1
        probe = _Probe(ctx)
        try:
            execute_case(probe, cand, only_bucket=bucket)
        except HarnessError:
            raise
        except Exception:
            return False  # a candidate that cannot be executed (e.g. an edit of a path that no longer exists)
        if bucket in probe.found:
            best_msg, got = probe.found[bucket]
            best = dict(trees=[list(t) for t in got["trees"]], init=got["init"], ops=list(got["ops"]))
            return True
        return False

    real = [i for i, o in enumerate(best["ops"]) if o[0] not in ("init", "roundtrip-add")]
    for i in reversed(real):
        ops = best["ops"]
        if i < len(ops):
            attempt(dict(best, ops=ops[:i] + ops[i + 1:]))
    for ti in range(3):
        for entry in list(best["trees"][ti]):
            if len(best["trees"][ti]) > 1 and entry in best["trees"][ti]:
                trees = [list(t) for t in best["trees"]]
                trees[ti].remove(entry)
                attempt(dict(best, trees=trees))
    for ti in (1, 2):
        if best["trees"][ti] != best["trees"][0]:
            trees = [list(t) for t in best["trees"]]
            trees[ti] = list(trees[0])
            attempt(dict(best, trees=trees))
    if "+" in best["init"]:
        attempt(dict(best, init=best["init"].split("+")[0]))
    if best["init"].split("+")[0] != "reset_index":
        attempt(dict(best, init="reset_index" + best["init"][len(best["init"].split("+")[0]):]))
    _min_cache[bucket] = (best, best_msg)
    return best, best_msg


def replay(ctx, check, case):
    if not check.startswith("C18:"):
        raise HarnessError(f"unknown check {check!r}")
    _hermetic()
    execute_case(ctx, case, only_bucket=check)


# ---------------------------------------------------------------------------


def _hermetic():
    os.environ["GIT_CONFIG_GLOBAL"] = "/dev/null"
    os.environ["GIT_CONFIG_NOSYSTEM"] = "1"
    os.environ["HOME"] = "/nonexistent"
    os.environ.pop("XDG_CONFIG_HOME", None)
    for k in list(os.environ):
        if k.startswith("GIT_") and k not in ("GIT_CONFIG_GLOBAL", "GIT_CONFIG_NOSYSTEM"):
            del os.environ[k]


def _violations_in(exc, seen=None):
    seen = set() if seen is None else seen
    if exc is None or id(exc) in seen:
        return []
    seen.add(id(exc))
    out = [exc] if isinstance(exc, Violation) else []
    for sub in getattr(exc, "exceptions", ()) or ():
        out += _violations_in(sub, seen)
    out += _violations_in(exc.__cause__, seen) + _violations_in(exc.__context__, seen)
    return out


def _part(ctx, item):
    n, maxops = item
    try:
        run_hypothesis(ctx, _scenarios(maxops), run_scenario, max_examples=n, shrink=ctx.thorough, max_rounds=4 if ctx.thorough else 2)
    except Exception as e:
        # Hypothesis re-executes a failing example; if dulwich's answer depends on timing (stat data) the second
        # execution may pass and Hypothesis raises FlakyFailure.  The violation was observed all the same: report it.
        if type(e).__name__ not in ("FlakyFailure", "Flaky", "FlakyReplay"):
            raise
        vs = _violations_in(e)
        if not vs:
            raise
        for v in vs:
            ctx.record_violation(v.bucket, "[timing-dependent: not reproduced when re-executed at once] " + v.message, v.check, v.case)
        ctx.label("flaky-failure")


def run(ctx):
    _hermetic()
    cgit.selfcheck()
    M.selftest(ctx.scratch.path)
    ctx.note("git_version", cgit.version())
    st = os.stat(ctx.scratch.path)
    ctx.note("scratch_fs_has_subsecond_timestamps", bool(st.st_mtime_ns % 1_000_000_000))
    per = ctx.scale(100, 2500)
    maxops = ctx.scale(12, 16)
    ctx.parallel(_part, [(per, maxops)] * 16)
