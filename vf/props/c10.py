"""C10 — maintenance never loses reachable objects; readers survive concurrent repacks."""

from __future__ import annotations

import gc as _gc
import hashlib
import io
import os
import shutil
import time
import warnings

from .. import cgit
from ..core import HarnessError, h64, run_hypothesis
from ..gen import repos
from ..interpose import DFSExplorer, FixedSchedule, Interposer, PreemptAt, Scheduler
from ..model import packfmt

PROPERTY = "C10"
LEVEL = "exploration"
RULE = (
    "(a) op-list machine over a disk repository: build ops {new commit (loose or in a pack, on a branch / detached / "
    "dangling), lightweight and annotated tags of commits/trees/blobs/tags, delete or move refs, detach HEAD / point it "
    "at an unborn branch, duplicate objects into a second pack, thin pack, objects living in an alternate, backdate "
    "mtimes} interleaved with maintenance ops {pack_loose_objects, repack, repack(exclude=unreachable), "
    "prune_unreachable_objects and garbage_collect with grace in {0, None, 3600, default}, object_store.prune, "
    "pack_refs, write_midx, write_commit_graph, generate_pack_bitmaps, porcelain gc/repack/prune, `git repack -ad`, "
    "`git gc --prune=now`, re-open}; before every maintenance op the closure of refs+HEAD is computed by an independent "
    "walker, after it every such object must be readable with identical bytes through a long-lived handle and a fresh "
    "one, fresh unreachable objects must survive unless the op was asked to drop them without grace, and git fsck "
    "--connectivity-only must pass.  (b) a reader actor (lookups, membership, iteration over ids that exist throughout) "
    "interleaved at file-system-call granularity with a repacking actor (repack / pack_loose_objects / "
    "garbage_collect / scripted `git repack -ad` rename sequence).  Non-trivial: (a) a maintenance op executed with "
    ">=1 pack, >=1 loose object and >=1 unreachable object present; (b) a reader event between the repacker's first "
    "and last directory change; distinct by op list / (scenario, schedule)."
)
ASSUMPTIONS = [
    "grace periods are judged with mtimes set to now-20 weeks (old) or left at now (fresh), never near the boundary",
    "reachability = refs and HEAD (the statement's definition); index- and reflog-only objects are not demanded",
    "reader/repacker interleavings at Python-level file-system-call granularity; the git repacker is modelled by the rename/unlink order of git repack -ad",
]

ID = b"A U Thor <author@example.com>"
OLD = 20 * 7 * 86400
BRANCHES = [b"refs/heads/b0", b"refs/heads/b1", b"refs/heads/b2"]
TAGS = [b"refs/tags/t0", b"refs/tags/t1", b"refs/tags/t2"]

CONFIGS = [
    [(b"core", b"looseCompression", b"0"), (b"pack", b"compression", b"9")],
    [(b"core", b"compression", b"0")],
    [(b"pack", b"indexVersion", b"1")],
    [(b"pack", b"deltaWindowSize", b"0"), (b"pack", b"depth", b"1")],
    [(b"core", b"fsyncObjectFiles", b"true")],
    [(b"pack", b"writeBitmaps", b"true"), (b"repack", b"writeBitmaps", b"true"), (b"pack", b"writeBitmapHashCache", b"true")],
    [(b"core", b"multiPackIndex", b"true"), (b"core", b"commitGraph", b"true")],
    [(b"core", b"multiPackIndex", b"false"), (b"core", b"commitGraph", b"false")],
    [(b"core", b"bigFileThreshold", b"1048576"), (b"pack", b"bigFileThreshold", b"64"), (b"pack", b"threads", b"2")],  # core.* is dulwich's documented size cap for reading loose objects: kept above every generated object
    [(b"core", b"packedGitLimit", b"1"), (b"core", b"deltaBaseCacheLimit", b"1")],
]

MAINT = {"pack_loose", "repack", "repack_excl", "prune_unreach", "gc", "prune_tmp", "pack_refs", "midx", "commit_graph", "bitmaps",
         "porcelain_gc", "porcelain_repack", "git_repack", "git_gc", "reopen"}


# ---------------------------------------------------------------------------
# (a) op-list machine


def op_strategy():
    from hypothesis import strategies as st

    grace = st.sampled_from([0, None, 3600, "default"])
    build = st.one_of(
        st.tuples(st.just("commit"), st.integers(-1, 6), st.integers(0, 5), st.sampled_from(["loose", "loose", "pack"]),
                  st.sampled_from(["b0", "b0", "b1", "b2", "dangling", "dangling", "detach"]),
                  # gitlink in the tree: none / a foreign commit id / a commit of this repository's own history
                  st.sampled_from([-2, -2, -2, -1, 0, 1, 2, 3])),
        st.tuples(st.just("tag"), st.sampled_from(["commit", "tree", "blob", "tag"]), st.integers(0, 6), st.sampled_from(["light", "annot"]), st.integers(0, 2),
                  st.sampled_from(["loose", "pack"])),
        st.tuples(st.just("del_ref"), st.integers(0, 5)),
        st.tuples(st.just("head"), st.sampled_from(["b0", "b1", "unborn", "detach"]), st.integers(0, 6)),
        st.tuples(st.just("dup_pack"), st.integers(0, 6)),
        st.tuples(st.just("readd"), st.integers(0, 6)),
        st.tuples(st.just("thin_pack"), st.integers(0, 3)),
        st.tuples(st.just("alternate"), st.integers(0, 3)),
        st.tuples(st.just("age"), st.sampled_from(["loose", "packs", "all"])),
        st.tuples(st.just("config"), st.integers(0, len(CONFIGS) - 1)),
    )
    maint = st.one_of(
        st.tuples(st.just("pack_loose")), st.tuples(st.just("repack")), st.tuples(st.just("repack_excl")),
        st.tuples(st.just("prune_unreach"), grace), st.tuples(st.just("gc"), st.booleans(), grace), st.tuples(st.just("prune_tmp"), grace),
        st.tuples(st.just("pack_refs"), st.booleans()), st.tuples(st.just("midx")), st.tuples(st.just("commit_graph")), st.tuples(st.just("bitmaps")),
        st.tuples(st.just("porcelain_gc"), grace), st.tuples(st.just("porcelain_repack")), st.tuples(st.just("git_repack")), st.tuples(st.just("git_gc")),
        st.tuples(st.just("reopen")),
    )
    # most runs start from a repository that already has a pack, loose objects and an unreachable object, so that the
    # maintenance operations have something of every storage class to act on
    preamble = st.sampled_from([
        [],
        [("commit", -1, 0, "pack", "b0"), ("commit", 0, 1, "loose", "b1"), ("commit", 0, 2, "loose", "dangling")],
        [("commit", -1, 0, "loose", "b0"), ("commit", 0, 1, "pack", "dangling"), ("commit", 1, 2, "loose", "b0"), ("tag", "commit", 0, "annot", 0, "loose")],
        [("commit", -1, 0, "pack", "b0"), ("commit", 0, 0, "pack", "b1"), ("commit", 1, 1, "loose", "dangling"), ("tag", "tree", 0, "annot", 1, "pack"), ("age", "all"),
         ("commit", 2, 3, "loose", "dangling")],
        [("commit", -1, 0, "pack", "b0"), ("commit", 0, 1, "pack", "dangling"), ("commit", 0, 2, "loose", "b1"), ("pack_loose",), ("age", "all"), ("readd", 0), ("readd", 1), ("readd", 2)],
        [("commit", -1, 0, "loose", "b0", -2), ("commit", 0, 1, "loose", "b0", -2), ("commit", 1, 2, "loose", "b0", -2), ("commit", 2, 3, "loose", "b0", 0),
         ("commit", 3, 4, "pack", "b0", 1), ("age", "all")],
    ])
    return st.tuples(preamble, st.lists(st.one_of(build, maint, maint), min_size=2, max_size=18)).map(lambda t: list(t[0]) + t[1])


class Machine:
    def __init__(self, ctx, root):
        from dulwich.repo import Repo

        self.ctx = ctx
        self.root = root
        self.path = os.path.join(root, "repo")
        os.makedirs(self.path)
        self.repo = Repo.init(self.path)
        c = self.repo.get_config()
        c.set((b"gc",), b"auto", b"0")
        c.write_to_path()
        self.commits = []
        self.trees = []
        self.blobs = []
        self.tags = []
        self.n = 0
        self.alt_n = 0

    def close(self):
        self.repo.close()

    # -- helpers ---------------------------------------------------------------
    def store(self):
        return self.repo.object_store

    def add(self, objs, how):
        s = self.store()
        if how == "pack":
            s.add_objects([(o, None) for o in objs])
        else:
            for o in objs:
                s.add_object(o)

    def sel(self, lst, i):
        # only objects that still exist (unreachable ones may legitimately have been pruned meanwhile)
        # judged through a *fresh* handle: the long-lived one can still read objects from packs that another process
        # has deleted (they stay mapped), and `x in store` can be True for a vanished object when a stale
        # multi-pack-index is around (C14) - building on such an object would make the machine corrupt the repository
        from dulwich.repo import Repo

        with warnings.catch_warnings():
            warnings.simplefilter("ignore")
            fresh = Repo(self.path)
            try:
                get = repos.dulwich_getter(fresh.object_store)

                def readable(x):
                    # the whole closure: an unreachable object can survive a prune that took its (equally
                    # unreachable) parents or trees, and must not be built upon either
                    try:
                        repos.closure(get, [x])
                        return True
                    except KeyError:
                        return False

                lst[:] = [x for x in lst if readable(x)]
            finally:
                fresh.close()
        return lst[i % len(lst)] if lst else None

    # -- build ops ---------------------------------------------------------------
    def do_build(self, op):
        from dulwich.objects import Blob, Tag, Tree

        k = op[0]
        r = self.repo
        if k == "commit":
            _, p, variant, how, where = op[:5]
            gl = op[5] if len(op) > 5 else -2
            self.n += 1
            shared = Blob.from_string(b"shared %d\n" % (variant % 3))
            unique = Blob.from_string(b"unique %d\n" % self.n)
            sub = Tree()
            sub.add(b"s", 0o100644, shared.id)
            t = Tree()
            t.add(b"shared", 0o100644, shared.id)
            t.add(b"u", 0o100644, unique.id)
            if gl != -2:
                # a submodule entry names a commit; it is not part of this repository's closure even when the id
                # happens to be one of its own commits (a project vendoring an older revision of itself)
                target = (b"%040x" % (0xABCDEF00 + self.n)) if gl == -1 else self.sel(self.commits, gl)
                if target:
                    (sub if variant % 2 else t).add(b"gitlink", 0o160000, target)
            t.add(b"dir", 0o040000, sub.id)
            par = self.sel(self.commits, p) if p >= 0 else None
            parents = [par] if par else []
            c = repos.mk_commit(t.id, parents, self.n)
            self.add([shared, unique, sub, t, c], how)
            self.commits.append(c.id)
            self.trees.append(t.id)
            self.blobs.append(unique.id)
            if where in ("b0", "b1", "b2"):
                r.refs[b"refs/heads/" + where.encode()] = c.id
            elif where == "detach":
                # a detached HEAD is a direct ref
                with open(os.path.join(r.controldir(), "HEAD"), "wb") as f:
                    f.write(c.id + b"\n")
        elif k == "tag":
            _, kind, i, style, name, how = op
            pool = {"commit": self.commits, "tree": self.trees, "blob": self.blobs, "tag": self.tags}[kind]
            target = self.sel(pool, i)
            if target is None:
                return
            if style == "light":
                if kind != "commit":
                    return
                r.refs[TAGS[name]] = target
            else:
                self.n += 1
                obj = r[target]
                tag = Tag()
                tag.name = b"tag%d" % self.n
                tag.object = (type(obj), target)
                tag.tagger = ID
                tag.tag_time = 1_000_000_000 + self.n
                tag.tag_timezone = 0
                tag.message = b"annotated %d\n" % self.n
                self.add([tag], how)
                self.tags.append(tag.id)
                r.refs[TAGS[name]] = tag.id
        elif k == "del_ref":
            names = BRANCHES + TAGS
            name = names[op[1] % len(names)]
            if name in r.refs:
                del r.refs[name]
        elif k == "head":
            _, mode, i = op
            if mode in ("b0", "b1"):
                r.refs.set_symbolic_ref(b"HEAD", b"refs/heads/" + mode.encode())
            elif mode == "unborn":
                r.refs.set_symbolic_ref(b"HEAD", b"refs/heads/unborn")
            elif self.sel(self.commits, i):
                with open(os.path.join(r.controldir(), "HEAD"), "wb") as f:
                    f.write(self.sel(self.commits, i) + b"\n")
        elif k == "readd":
            # add_object of something the repository already has (what a writer does before it references an object):
            # unreachable objects first
            from dulwich.objects import ShaFile

            reach, _tips = self.snapshot()
            have = sorted(self.locations())
            cands = [i for i in have if i not in reach] or have
            if cands:
                i = cands[op[1] % len(cands)]
                o = r[i]
                self.store().add_object(ShaFile.from_raw_string(o.type_num, o.as_raw_string()))
        elif k == "dup_pack":
            cid = self.sel(self.commits, op[1])
            if cid:
                c = r[cid]
                objs = [c, r[c.tree]]
                # same objects again, in a pack of their own (duplicates across storage)
                data = packfmt.build_pack([(o.type_num, o.as_raw_string(), None) for o in objs])
                self.store().add_thin_pack(io.BytesIO(data).read, None)
        elif k == "thin_pack":
            bid = self.sel(self.blobs, op[1])
            if bid:
                base = r[bid].as_raw_string()
                self.n += 1
                target = base + b"thin %d\n" % self.n
                delta = packfmt.enc_varint(len(base)) + packfmt.enc_varint(len(target)) + bytes([0x90, len(base)]) + bytes([len(target) - len(base)]) + target[len(base):]
                data = packfmt.build_pack([(packfmt.OBJ_REF_DELTA, delta, packfmt.obj_id(b"blob", base))])
                self.store().add_thin_pack(io.BytesIO(data).read, None)
                self.blobs.append(packfmt.obj_id(b"blob", target).hex().encode())
        elif k == "alternate":
            from dulwich.object_store import DiskObjectStore

            self.alt_n += 1
            if self.alt_n > 2:
                return
            adir = os.path.join(self.root, "alt%d" % self.alt_n, "objects")
            os.makedirs(adir)
            alt = DiskObjectStore.init(adir)
            self.n += 1
            b = Blob.from_string(b"in alternate %d\n" % self.n)
            t = Tree()
            t.add(b"alt", 0o100644, b.id)
            par = self.sel(self.commits, op[1]) if op[1] % 2 else None
            parents = [par] if par else []
            c = repos.mk_commit(t.id, parents, self.n)
            for o in (b, t, c):
                alt.add_object(o)
            alt.close()
            self.store().add_alternate_path(adir)
            self.commits.append(c.id)
            r.refs[BRANCHES[2]] = c.id
        elif k == "config":
            # storage options that must not change what is kept or what any object contains; the handle is reopened so
            # that they apply (the object store reads them when it is created)
            from dulwich.repo import Repo

            c = r.get_config()
            self.ctx.label("config:" + "+".join(k.decode() for _, k, _ in CONFIGS[op[1] % len(CONFIGS)]))
            for sec, key, val in CONFIGS[op[1] % len(CONFIGS)]:
                c.set((sec,), key, val)
            c.write_to_path()
            r.close()
            self.repo = Repo(self.path)
        elif k == "age":
            t = time.time() - OLD
            od = self.store().path
            for d, _, files in os.walk(od):
                for f in files:
                    is_pack = f.endswith((".pack", ".idx"))
                    if (op[1] in ("packs", "all") and is_pack) or (op[1] in ("loose", "all") and len(f) == 38):
                        os.utime(os.path.join(d, f), (t, t))

    # -- observing ----------------------------------------------------------------
    def locations(self):
        """{id: [mtime of every storage location in the repository's own object dir]} (read from the directory
        layout and through the public Pack API, not through store internals)"""
        from dulwich.object_format import DEFAULT_OBJECT_FORMAT
        from dulwich.pack import Pack

        out = {}
        od = os.path.join(self.path, ".git", "objects")
        for d in os.listdir(od):
            if len(d) == 2 and all(c in "0123456789abcdef" for c in d):
                for f in os.listdir(os.path.join(od, d)):
                    if len(f) == 38 and all(c in "0123456789abcdef" for c in f):
                        out.setdefault((d + f).encode(), []).append(os.path.getmtime(os.path.join(od, d, f)))
        pd = os.path.join(od, "pack")
        if os.path.isdir(pd):
            with warnings.catch_warnings():
                warnings.simplefilter("ignore")
                for f in sorted(os.listdir(pd)):
                    if f.endswith(".pack") and os.path.exists(os.path.join(pd, f[:-5] + ".idx")):
                        m = os.path.getmtime(os.path.join(pd, f))
                        p = Pack(os.path.join(pd, f[:-5]), object_format=DEFAULT_OBJECT_FORMAT)
                        try:
                            for sha in p:
                                out.setdefault(sha, []).append(m)
                        finally:
                            p.close()
        return out

    def snapshot(self):
        """(reachable {id: (type, sha1)}, tips) through a fresh Repo and the independent walker."""
        from dulwich.repo import Repo

        with warnings.catch_warnings():
            warnings.simplefilter("ignore")
            r = Repo(self.path)
            try:
                tips = set()
                for name, v in r.refs.as_dict().items():
                    tips.add(v)
                try:
                    tips.add(r.refs[b"HEAD"])
                except KeyError:
                    pass
                reach = repos.closure(repos.dulwich_getter(r.object_store), sorted(tips))
            finally:
                r.close()
        return reach, tips

    # -- maintenance ops -----------------------------------------------------------
    def do_maint(self, op):
        from dulwich import gc as dgc
        from dulwich import porcelain
        from dulwich.repo import Repo

        k = op[0]
        r = self.repo
        s = r.object_store

        def g(v):
            return {} if v == "default" else {"grace_period": v}

        if k == "pack_loose":
            s.pack_loose_objects()
        elif k == "repack":
            s.repack()
        elif k == "repack_excl":
            un = dgc.find_unreachable_objects(s, r.refs)
            s.repack(exclude=un)
        elif k == "prune_unreach":
            dgc.prune_unreachable_objects(s, r.refs, **g(op[1]))
        elif k == "gc":
            dgc.garbage_collect(r, prune=op[1], **g(op[2]))
        elif k == "prune_tmp":
            s.prune(**({} if op[1] == "default" else {"grace_period": op[1]}))
        elif k == "pack_refs":
            r.refs.pack_refs(all=op[1])
        elif k == "midx":
            if list(s.packs):
                s.write_midx()
        elif k == "commit_graph":
            tips = [v for v in r.refs.as_dict().values()]
            if tips:
                s.write_commit_graph(tips)
        elif k == "bitmaps":
            if list(s.packs):
                s.generate_pack_bitmaps(r.refs.as_dict())
        elif k == "porcelain_gc":
            porcelain.gc(self.path, **g(op[1]))
        elif k == "porcelain_repack":
            porcelain.repack(self.path)
        elif k == "git_repack":
            cgit.git(["repack", "-a", "-d", "-q"], cwd=self.path)
        elif k == "git_gc":
            cgit.git(["-c", "gc.reflogExpire=now", "gc", "--prune=now", "-q"], cwd=self.path)
        elif k == "reopen":
            self.repo.close()
            self.repo = Repo(self.path)

    def may_drop_unreachable(self, op):
        """None: op must not drop anything; 'nograce': may drop any unreachable; 'grace': only old ones."""
        k = op[0]
        if k in ("repack_excl", "git_repack", "git_gc"):
            return "nograce"
        if k == "prune_unreach":
            return "nograce" if op[1] in (0, None, "default") else "grace"  # this function's default is "no grace period"
        if k == "gc":
            if not op[1]:
                return None
            return "nograce" if op[2] in (0, None) else "grace"
        if k == "porcelain_gc":
            return "nograce" if op[1] == 0 else "grace"  # None -> gc.pruneExpire default (2 weeks)
        return None


def run_case(ctx, ops, check="machine"):
    from dulwich.repo import Repo

    root = ctx.scratch.new("m")
    m = Machine(ctx, root)
    case = dict(ops=[tuple(o) for o in ops])
    nontrivial = False
    labels = set()
    try:
        for idx, op in enumerate(ops):
            if op[0] not in MAINT:
                with warnings.catch_warnings():
                    warnings.simplefilter("ignore")
                    try:
                        m.do_build(op)
                    except Exception as e:
                        # the statement is about maintenance and readers; a *write* through a handle whose packs an
                        # external repack removed may fail (observed: PackFileDisappeared in add_thin_pack after
                        # `git repack -ad`) - reported as a label, the handle is re-opened and the run goes on
                        labels.add(f"build-op-failed:{op[0]}:{type(e).__name__}")
                        m.repo.close()
                        m.repo = Repo(m.path)
                continue
            reach, tips = m.snapshot()
            locs = m.locations()
            now = time.time()
            fresh_unreach = {i for i, ms in locs.items() if i not in reach and all(now - t < 1800 for t in ms)}
            # an object that was (re-)added a moment ago has a fresh loose file, whatever older copies sit in packs: that
            # is how a writer protects an object it is about to reference from a concurrent gc
            od0 = os.path.join(m.path, ".git", "objects")
            for i in locs:
                if i not in reach:
                    lp = os.path.join(od0, i[:2].decode(), i[2:].decode())
                    if os.path.exists(lp) and now - os.path.getmtime(lp) < 1800:
                        if i not in fresh_unreach:
                            labels.add("fresh-loose-copy-of-old-packed-unreachable")
                        fresh_unreach.add(i)
            n_packs = len([f for f in os.listdir(os.path.join(m.store().path, "pack")) if f.endswith(".pack")]) if os.path.isdir(os.path.join(m.store().path, "pack")) else 0
            n_loose = sum(1 for i, ms in locs.items())
            od = os.path.join(m.path, ".git", "objects")
            has_loose = any(len(d) == 2 and os.listdir(os.path.join(od, d)) for d in os.listdir(od) if len(d) == 2)
            if n_packs and has_loose and any(i not in reach for i in locs):
                nontrivial = True
            labels.add("maint:" + op[0])
            failed = None
            with warnings.catch_warnings():
                warnings.simplefilter("ignore")
                try:
                    m.do_maint(op)
                except Exception as e:
                    failed = e
            opname = op[0] + ("" if len(op) == 1 else ":" + ",".join(str(x) for x in op[1:]))
            if failed is not None:
                # a maintenance operation that fails is not a violation by itself (observed: PackFileDisappeared when
                # the long-lived handle's packs were replaced by `git repack`); whatever it did must still be harmless
                labels.add(f"maint-op-failed:{op[0]}:{type(failed).__name__}")
                m.repo.close()
                m.repo = Repo(m.path)
            # -- reachable objects: identical through the long-lived handle and a fresh one
            ok = True
            with warnings.catch_warnings():
                warnings.simplefilter("ignore")
                fresh = Repo(m.path)
                try:
                    for handle_name, handle in (("long-lived", m.repo), ("fresh", fresh)):
                        for i, (t, h) in reach.items():
                            try:
                                o = handle.object_store[i]
                                if (o.type_name, hashlib.sha1(o.as_raw_string()).hexdigest()) != (t, h):
                                    ctx.fail(f"C10:{op[0]}:reachable-object-changed", f"step {idx} {opname}: object {i!r} changed content ({handle_name} handle)", check, case)
                                    ok = False
                                    break
                                if i not in handle.object_store:
                                    ctx.fail(f"C10:{op[0]}:reachable-object-not-contained:{handle_name}", f"step {idx} {opname}: `{i!r} in store` is False although store[id] works", check, case)
                                    ok = False
                                    break
                            except KeyError:
                                ctx.fail(f"C10:{op[0]}:reachable-object-lost:{handle_name}",
                                         f"step {idx} {opname}: object {i!r} ({t!r}) reachable from refs/HEAD before the step is not readable through the {handle_name} handle", check, case)
                                ok = False
                                break
                            except Exception as e:
                                ctx.fail(f"C10:{op[0]}:reachable-object-unreadable:{type(e).__name__}", f"step {idx} {opname}: reading {i!r} ({handle_name}) raised {type(e).__name__}: {e}", check, case)
                                ok = False
                                break
                        if not ok:
                            break
                    # -- refs unchanged by object maintenance
                    if ok:
                        tips2 = set(fresh.refs.as_dict().values())
                        try:
                            tips2.add(fresh.refs[b"HEAD"])
                        except KeyError:
                            pass
                        if tips2 != tips:
                            ctx.fail(f"C10:{op[0]}:refs-changed", f"step {idx} {opname}: ref values changed from {sorted(tips)} to {sorted(tips2)}", check, case)
                            ok = False
                    # -- fresh unreachable objects survive unless explicitly dropped without grace
                    mode = m.may_drop_unreachable(op)
                    if ok and mode != "nograce":
                        for i in sorted(fresh_unreach):
                            try:
                                fresh.object_store[i]
                            except KeyError:
                                ctx.fail(f"C10:{op[0]}:fresh-unreachable-object-dropped", f"step {idx} {opname}: unreachable object {i!r} younger than the grace period disappeared", check, case)
                                ok = False
                                break
                        if fresh_unreach:
                            labels.add("fresh-unreachable-present")
                finally:
                    fresh.close()
            if ok:
                rc, out, err = cgit.git(["-c", "core.commitGraph=false", "-c", "core.multiPackIndex=false", "fsck", "--connectivity-only", "--no-dangling", "--no-progress"], cwd=m.path, check=False)
                if rc != 0:
                    ctx.fail(f"C10:{op[0]}:git-fsck", f"step {idx} {opname}: git fsck --connectivity-only exits {rc}: {(out + err)[:300]!r}", check, case)
                    ok = False
            if not ok:
                break
    finally:
        m.close()
        shutil.rmtree(root, ignore_errors=True)
    if m.alt_n:
        labels.add("alternate")
    ctx.case(h64("m", repr(ops)), nontrivial=nontrivial, labels=sorted(labels) + ["machine"],
             sample=dict(ops=[list(map(str, o)) for o in ops]) if nontrivial and len(ops) < 12 else None)


def _part_machine(ctx, n):
    run_hypothesis(ctx, op_strategy(), lambda c, ops: run_case(c, ops), max_examples=n, shrink=True)


# ---------------------------------------------------------------------------
# (b) reader vs repacker schedules


def build_sched_repo(path, midx=False):
    """Two packs + loose objects + an unreachable object (+ a multi-pack-index over the packs); returns ids that exist
    throughout."""
    from dulwich.objects import Blob
    from dulwich.repo import Repo

    info = repos.init_repo(path, "mixed", "loose")
    r = Repo(path)
    try:
        r.object_store.add_objects([(Blob.from_string(b"second pack %d\n" % i), None) for i in range(3)])
        r.object_store.add_object(Blob.from_string(b"dangling\n"))
        c = r.get_config()
        c.set((b"gc",), b"auto", b"0")
        c.write_to_path()
        reach = repos.closure(repos.dulwich_getter(r.object_store), sorted(set(r.refs.as_dict().values())))
        if midx:
            r.object_store.write_midx()
            if not os.path.exists(os.path.join(path, ".git", "objects", "pack", "multi-pack-index")):
                raise HarnessError("write_midx left no multi-pack-index")
    finally:
        r.close()
    return sorted(reach)


def reader_prog(path, ids, mode, out):
    precache = mode.endswith("+midx")
    mode = mode.split("+")[0]

    def prog():
        from dulwich.repo import Repo

        with warnings.catch_warnings():
            warnings.simplefilter("ignore")
            r = Repo(path)
            try:
                s = r.object_store
                if precache:
                    len(s.packs)  # the handle knows its packs (as after should_run_gc / count_pack_files) before they are replaced
                for i in ids:
                    try:
                        if mode == "getitem":
                            s[i]
                        elif mode == "contains":
                            if i not in s:
                                out.append(("missing", i, "contains"))
                        elif mode == "get_raw":
                            s.get_raw(i)
                        elif mode == "contains_packed_or_loose":
                            if not (s.contains_packed(i) or s.contains_loose(i)):
                                # one more look: the object may have moved between the two probes
                                if i not in s:
                                    out.append(("missing", i, "contains_packed/loose"))
                        elif mode == "contains_packed":
                            # ids that sit in a pack before, during and after the maintenance run (which only ever
                            # moves them from one pack to another): a single probe must find them
                            if not s.contains_packed(i):
                                out.append(("missing", i, "contains_packed"))
                        elif mode == "get_unpacked_object":
                            s.get_unpacked_object(i)
                        elif mode == "iter":
                            pass
                    except KeyError:
                        out.append(("missing", i, mode))
                if mode == "iter":
                    # a full listing is not a lookup: objects that move between storage classes while the listing
                    # is being produced may be missed (git's own --batch-all-objects has the same property);
                    # counted, not alarmed
                    seen = set(s)
                    for i in ids:
                        if i not in seen:
                            out.append(("listing-incomplete", i, "iter"))
                if mode == "subset":
                    got = {o.id for o in s.iterobjects_subset(ids)}
                    for i in ids:
                        if i not in got:
                            out.append(("missing", i, "iterobjects_subset"))
            finally:
                r.close()

    return prog


def repacker_prog(path, kind):
    def prog():
        from dulwich import gc as dgc
        from dulwich.repo import Repo

        with warnings.catch_warnings():
            warnings.simplefilter("ignore")
            if kind == "git-script":
                # the directory-level effect of `git repack -ad`, in git's order: new pack+idx appear, old packs go
                objdir = os.path.join(path, ".git", "objects")
                staged = os.path.join(path, ".git", "vf-staged")
                packdir = os.path.join(objdir, "pack")
                old = sorted(os.listdir(packdir))
                new = sorted(os.listdir(staged))
                for f in new:
                    if f.endswith(".pack"):
                        os.rename(os.path.join(staged, f), os.path.join(packdir, f))
                for f in new:
                    if not f.endswith(".pack"):
                        os.rename(os.path.join(staged, f), os.path.join(packdir, f))
                for f in old:
                    if f not in new:
                        os.remove(os.path.join(packdir, f))
                return
            r = Repo(path)
            try:
                if kind == "repack":
                    r.object_store.repack()
                elif kind == "pack_loose":
                    r.object_store.pack_loose_objects()
                elif kind == "gc":
                    dgc.garbage_collect(r, prune=True, grace_period=0)
            finally:
                r.close()

    return prog


def stage_git_repack(path):
    """Run the real `git repack -ad` on a copy and stage its new pack files for the scripted actor."""
    tmp = path + ".gitcopy"
    shutil.copytree(path, tmp, symlinks=True)
    cgit.git(["repack", "-a", "-d", "-q"], cwd=tmp)
    staged = os.path.join(path, ".git", "vf-staged")
    os.makedirs(staged)
    src = os.path.join(tmp, ".git", "objects", "pack")
    for f in os.listdir(src):
        shutil.copy(os.path.join(src, f), os.path.join(staged, f))
    # git repack -ad leaves loose objects alone; it also prunes packed unreachable objects, which the reader never asks for
    shutil.rmtree(tmp)


def execute_sched(ctx, template, ids, mode, kind, strategy, case, check="sched"):
    work = ctx.scratch.new("s")
    path = os.path.join(work, "repo")
    shutil.copytree(template, path, symlinks=True)
    objdir = os.path.join(path, ".git", "objects")

    def visible(ev):
        if ev.op == "start":
            return True
        if ev.op in ("write", "flush", "fsync", "chmod", "utime"):
            return False
        return bool(ev.path and ev.path.startswith(objdir)) or bool(ev.path2 and ev.path2.startswith(objdir))

    sched = Scheduler(strategy, visible=visible)
    ip = Interposer(work, sched)
    out = []
    ip.install()
    try:
        results = sched.run(ip, [("R", reader_prog(path, ids, mode, out)), ("M", repacker_prog(path, kind))])
    finally:
        ip.uninstall()
    _gc.collect()
    for n, r in results.items():
        if r[0] != "ok":
            if n == "R":
                ctx.fail(f"C10:reader:{mode}:raised:{r[1]}:during-{kind}", f"reader ({mode}) raised {r[1]}: {r[2]} while {kind} was running", check, case)
            else:
                ctx.fail(f"C10:repacker:{kind}:raised:{r[1]}", f"repacker {kind} raised {r[1]}: {r[2]} with a concurrent reader ({mode})", check, case)
    if any(o[0] == "listing-incomplete" for o in out):
        ctx.label("listing-missed-a-moving-object(report-only)")
    out = [o for o in out if o[0] == "missing"]
    if out:
        what, i, how = out[0]
        ctx.fail(f"C10:reader:{mode}:spurious-missing:during-{kind}", f"reader got 'missing' for {i!r} via {how} although it exists throughout ({len(out)} lookups) while {kind} was running", check, case)
    # interleaved?
    first = last = None
    for k, ev in enumerate(ip.trace):
        if ev.actor == "M" and ev.mutating and ev.op not in ("write", "flush", "fsync"):
            first = k if first is None else first
            last = k
    inter = first is not None and any(ev.actor == "R" and first < k < last for k, ev in enumerate(ip.trace))
    schedule = [c for _, c in sched.decisions]
    shutil.rmtree(work, ignore_errors=True)
    return inter, schedule


def _probe_ids(template, ids, mode):
    mode = mode.split("+")[0]
    if mode in ("contains_packed", "get_unpacked_object"):
        from dulwich.repo import Repo

        r = Repo(template)
        try:
            packed = [i for i in ids if r.object_store.contains_packed(i)]
        finally:
            r.close()
        if len(packed) < 3:
            raise HarnessError("sched template has too few packed objects")
        return packed[:: max(1, len(packed) // 5)][:5]
    return ids[:: max(1, len(ids) // 6)][:6] if mode in ("getitem", "contains", "get_raw", "contains_packed_or_loose") else ids


def _part_sched(ctx, item):
    import random

    mode, kind, bound, cap = item
    tdir = ctx.scratch.new("t")
    template = os.path.join(tdir, "repo")
    # "<mode>+midx": the same reader on a repository whose packs are also listed in a multi-pack-index (lookups then go
    # through the index's own fast path, which has to cope with a pack that vanishes just the same)
    with_midx = mode.endswith("+midx")
    ids = build_sched_repo(template, midx=with_midx)
    if kind == "git-script":
        stage_git_repack(template)
    probe = _probe_ids(template, ids, mode)
    n = 0
    steps = 1

    def one(strategy):
        nonlocal n, steps
        case = dict(mode=mode, kind=kind)
        inter, schedule = execute_sched(ctx, template, probe, mode, kind, strategy, case)
        case["schedule"] = schedule
        steps = max(steps, len(schedule))
        n += 1
        ctx.case(h64("s", mode, kind, tuple(schedule)), nontrivial=inter, labels=("sched", "reader:" + mode, "repacker:" + kind) + (("interleaved",) if inter else ()),
                 sample=dict(reader=mode, repacker=kind, schedule="".join(schedule)) if inter and n % 25 == 5 else None)

    ex = DFSExplorer(1, max_runs=cap)
    while ex.more():
        one(ex.next_run())
        ex.done_run()
    ctx.label("sched-bound1-exhaustive" if ex.exhausted else "sched-bound1-capped")
    rnd = random.Random(h64(ctx.seed, mode, kind))
    for _ in range(ctx.scale(25, 600)):
        one(PreemptAt({rnd.randrange(steps): 0 for _ in range(rnd.choice([2, 3, 4]))}))
    shutil.rmtree(tdir, ignore_errors=True)


# ---------------------------------------------------------------------------


def run(ctx):
    cgit.selfcheck()
    ctx.note("git_version", cgit.version())
    ctx.parallel(_part_machine, [ctx.scale(45, 1200)] * 16)
    modes = ["getitem", "contains", "get_raw", "contains_packed_or_loose", "contains_packed", "get_unpacked_object", "iter", "subset"]
    kinds = ["repack", "pack_loose", "gc", "git-script"]
    items = [(m, k, 1, ctx.scale(120, 5000)) for m in modes for k in kinds]
    items += [(m + "+midx", k, 1, ctx.scale(120, 5000)) for m in ("getitem", "get_raw", "contains", "subset") for k in ("repack", "gc", "git-script")]
    ctx.parallel(_part_sched, items)


def replay(ctx, check, case):
    if check == "machine":
        run_case(ctx, [tuple(o) for o in case["ops"]])
    elif check == "sched":
        tdir = ctx.scratch.new("t")
        template = os.path.join(tdir, "repo")
        ids = build_sched_repo(template, midx=case["mode"].endswith("+midx"))
        if case["kind"] == "git-script":
            stage_git_repack(template)
        mode = case["mode"]
        probe = _probe_ids(template, ids, mode)
        execute_sched(ctx, template, probe, mode, case["kind"], FixedSchedule(case.get("schedule", [])), case)
        if not ctx.violations:
            # a pinned schedule goes stale whenever the code gains or loses a file-system call: explore the pair
            _part_sched(ctx, (mode, case["kind"], 1, 200))
    else:
        raise HarnessError(f"unknown check {check!r}")
