"""C05 — fetch, clone and push transfer a complete, byte-identical object closure.

Two families of cases over generated commit DAGs (vf/gen/c05_gen.py):

``raw``   a hand-written git:// upload-pack conversation (own pkt-line framer) against dulwich's TCPGitServer:
          wants (advertised, peeled, reachable-but-unadvertised, dangling, absent) x haves (any ancestor-closed
          sub-history in any order, plus absent ids) x capability set.  The receiver is *virtual*: closure(haves).
``xfer``  real transfers into / out of on-disk repositories: fetch / clone / push x {LocalGitClient, dulwich
          TCPGitClient <-> dulwich TCPGitServer, Urllib3HttpGitClient <-> dulwich WSGI smart HTTP, SubprocessGitClient
          <-> C git upload-pack/receive-pack, dulwich TCPGitClient <-> C `git daemon` (protocol v0 / v2), C git client
          <-> dulwich TCPGitServer (git://) and dulwich WSGI (smart HTTP)}, one or two transfers in sequence into the
          same receiver.

Oracle (all of it computed on a model that never calls dulwich: objects are serialised and hashed by the
generator, the closure is an own BFS, repositories are read back with `git cat-file --batch-all-objects`, packs
on the wire are parsed by vf/model/packfmt.py):
  1. completeness: after a successful transfer closure(transferred tips) is in the receiver, byte-identical,
     readable both by C git and by a freshly opened dulwich Repo; nothing the receiver had is lost;
     `git fsck --connectivity-only` passes once the transferred refs are set;
  2. nothing extra on the wire (dulwich as the sender): ids(pack) is a subset of closure(wants) [+ annotated tags
     whose peeled target is in it when include-tag was negotiated] and of closure(advertised refs); every object in
     the pack is an object of the sender (no alien bytes); every REF-delta base outside the pack is an object the
     receiver has.  The pack is what the dulwich client's fetch_pack hands to its pack_data callback, what
     GIT_TRACE_PACKFILE records for a C git client, what generate_pack_data yields for a push.
Hypothesis is the generator only (cases are collected, not shrunk: see _collecting).
"""

from __future__ import annotations

import io
import logging
import os
import shutil
import signal
import socket
import subprocess
import threading
import time

from .. import cgit
from ..core import HarnessError, Violation, h64, run_hypothesis
from ..gen import c05_gen as G
from ..model import c05_wire as W
from ..model import packfmt

PROPERTY = "C05"
LEVEL = "exploration"
NEEDS_RUST = True
RULE = (
    "Hypothesis-generated commit DAGs (1-9 commits: linear, merges, criss-cross, octopus, disjoint roots, clock skew; trees "
    "edited from the first parent so blobs/subtrees are shared, files reverted to old blobs, identical subtrees, gitlinks, "
    "symlinks; 0-4 annotated tags of commits/trees/blobs/tags incl. chains; refs to commits, tags, trees, blobs; dangling "
    "commits/tags) stored loose / in C-git packs with deltas (optionally bitmap, commit-graph) / two packs / a dulwich pack. "
    "raw: one upload-pack conversation (wants x ancestor-closed haves in drawn order x capability set x done/flush pattern) "
    "against dulwich's TCP server.  xfer: receiver = closure of a drawn ancestor-closed commit set (+tags, + unrelated own "
    "history) in a drawn layout, then 1-2 transfers (fetch/clone/push x {local, dulwich tcp, dulwich http, C git subprocess, C git "
    "daemon v0/v2, C git client over git:// and http against dulwich} x multi_ack none/plain/detailed, thin, ofs-delta, side-band, "
    "include-tag, duplicate wants, default-all wants x depth 1-3).  "
    "Non-trivial = the receiver (real or virtual) lacks part of closure(wants) and is non-empty (an empty receiver counts only "
    "for depth-limited fetches), and at least one of: a non-commit object shared between what it has and the trees of the "
    "commits it lacks, a merge among the missing commits, a tag chain or a tag whose target the receiver has among the wants, "
    "depth-limited, thin pack seen on the wire; or the conversation names a hostile want (an existing but unadvertised id).  "
    "Distinct by (history, sender layout, receiver, step/conversation)."
)
ASSUMPTIONS = [
    "git 2.39.5 is the reference peer and the reference reader of repositories (cat-file --batch-all-objects, fsck --connectivity-only)",
    "object ids/bytes come from the generator's own serialisers (self-tested against git fsck / cat-file / rev-list / pack-objects)",
    "SHA-1 repositories only; receivers are complete (closed under reachability) before the first transfer",
    "a transfer that raises / exits non-zero is not judged (counted under xfer-failed:*); hangs are cut by a 15 s watchdog and counted",
    "dulwich clients' capability sets are reduced through GitClient._fetch_capabilities (the only knob) to emulate older servers",
    "oracle 2 judges dulwich as the sender only; packs sent by C git are parsed for thin-pack detection and any oddity is counted (cgit-sender:*)",
    "depth-limited fetches over stateful transports run under a fixed schedule: the client's first can_read() poll waits for the server's "
    "answer to 'deepen' (both orders are legal; the other order is a race the check does not sample)",
    "tags C git decides to auto-follow (annotated or lightweight, target present or being fetched) count as wants of that fetch",
]

_log = logging.getLogger("dulwich")
ZERO = b"0" * 40
CGIT = ("cgit", "cgith")  # transports whose client is C git (over git:// resp. smart HTTP against dulwich's servers)


# ---------------------------------------------------------------------------
# git subprocess helper with timeout


def _git(args, cwd=None, extra_env=None, input=None, timeout=120):
    cmd = [cgit.GIT] + cgit._COMMON + list(args)
    try:
        p = subprocess.run(cmd, cwd=cwd, input=input, capture_output=True, env=cgit.env(extra_env), timeout=timeout)
    except subprocess.TimeoutExpired:
        return 124, b"", b"timeout"
    return p.returncode, p.stdout, p.stderr


class _Timeout(Exception):
    pass


class _watchdog:
    """SIGALRM-based watchdog for calls into dulwich that talk to a peer (main thread only)."""

    def __init__(self, seconds=30):
        self.seconds = seconds

    def __enter__(self):
        if threading.current_thread() is threading.main_thread():
            self.old = signal.signal(signal.SIGALRM, self._fire)
            signal.setitimer(signal.ITIMER_REAL, self.seconds)
        else:
            self.old = None
        return self

    @staticmethod
    def _fire(signum, frame):
        raise _Timeout()

    def __exit__(self, *exc):
        if self.old is not None:
            signal.setitimer(signal.ITIMER_REAL, 0)
            signal.signal(signal.SIGALRM, self.old)
        return False


# ---------------------------------------------------------------------------
# per-process servers


def _die_with_parent():
    """preexec_fn: the daemon must not outlive a worker that is killed (PR_SET_PDEATHSIG = 1)."""
    import ctypes

    ctypes.CDLL("libc.so.6", use_errno=True).prctl(1, signal.SIGKILL)


class Env:
    def __init__(self, root):
        self.pid = os.getpid()
        self.root = root
        self.srv = None
        self.thread = None
        self.daemon = None
        self.daemon_port = None
        self.http = None
        self.http_thread = None
        os.environ.update(cgit.env())
        _log.setLevel(logging.CRITICAL)
        logging.getLogger("dulwich").propagate = False
        socket.setdefaulttimeout(12)

    def dulwich_port(self):
        if self.srv is None:
            from dulwich.server import FileSystemBackend, TCPGitServer

            self.srv = TCPGitServer(FileSystemBackend(self.root), "127.0.0.1", 0)
            self.thread = threading.Thread(target=self.srv.serve_forever, kwargs={"poll_interval": 0.02}, daemon=True)
            self.thread.start()
        return self.srv.server_address[1]

    def http_port(self):
        if self.http is None:
            from dulwich.server import FileSystemBackend
            from dulwich.web import WSGIRequestHandlerLogger, WSGIServerLogger, make_server, make_wsgi_chain

            app = make_wsgi_chain(FileSystemBackend(self.root))
            self.http = make_server("127.0.0.1", 0, app, handler_class=WSGIRequestHandlerLogger, server_class=WSGIServerLogger)
            self.http_thread = threading.Thread(target=self.http.serve_forever, kwargs={"poll_interval": 0.02}, daemon=True)
            self.http_thread.start()
        return self.http.server_address[1]

    def gitd_port(self):
        if self.daemon is None:
            for attempt in range(5):
                s = socket.socket()
                s.bind(("127.0.0.1", 0))
                port = s.getsockname()[1]
                s.close()
                # the daemon binary itself (not the `git` wrapper, which would fork it): one process that PDEATHSIG can reach;
                # the -c options of cgit._COMMON travel in GIT_CONFIG_PARAMETERS instead
                exe = os.path.join(cgit.out(["--exec-path"]).decode().strip(), "git-daemon")
                params = " ".join("'%s'" % v for k, v in zip(cgit._COMMON[::2], cgit._COMMON[1::2]) if k == "-c")
                p = subprocess.Popen(
                    [exe, "--reuseaddr", "--export-all", "--listen=127.0.0.1", f"--port={port}", "--enable=receive-pack", self.root],
                    env=cgit.env({"GIT_CONFIG_PARAMETERS": params}), stdout=subprocess.DEVNULL, stderr=subprocess.DEVNULL,
                    start_new_session=True, preexec_fn=_die_with_parent)
                t0 = time.time()
                ok = False
                while time.time() - t0 < 10 and p.poll() is None:
                    try:
                        c = socket.create_connection(("127.0.0.1", port), timeout=0.5)
                        c.close()
                        ok = True
                        break
                    except OSError:
                        time.sleep(0.01)
                if ok:
                    self.daemon, self.daemon_port = p, port
                    break
                try:
                    os.killpg(p.pid, signal.SIGKILL)
                except OSError:
                    pass
                p.wait()
            else:
                raise HarnessError("could not start git daemon")
        return self.daemon_port

    def close(self):
        if self.http is not None:
            self.http.shutdown()
            self.http.server_close()
            self.http_thread.join(5)
            self.http = None
        if self.srv is not None:
            self.srv.shutdown()
            self.srv.server_close()
            self.thread.join(5)
            self.srv = None
        if self.daemon is not None:
            try:
                os.killpg(self.daemon.pid, signal.SIGTERM)
            except OSError:
                pass
            try:
                self.daemon.wait(5)
            except subprocess.TimeoutExpired:
                os.killpg(self.daemon.pid, signal.SIGKILL)
                self.daemon.wait()
            self.daemon = None


_env = None


def get_env(ctx):
    global _env
    if _env is None or _env.pid != os.getpid():
        _env = Env(ctx.scratch.path)
    return _env


def close_env():
    global _env
    if _env is not None and _env.pid == os.getpid():
        _env.close()
    _env = None


# ---------------------------------------------------------------------------
# building repositories

OWN_SPECS = {
    1: {"commits": [{"parents": [], "ops": [("set", 9, 2, 3, True), ("set", 8, 3, 2, False)], "t": 900}], "tags": [], "refs": [], "head": None},
    2: {"commits": [{"parents": [], "ops": [("set", 9, 2, 3, True), ("set", 0, 0, 0, False)], "t": 901},
                    {"parents": [0], "ops": [("set", 2, 1, 1, False), ("set", 8, 3, 3, False)], "t": 902},
                    {"parents": [1], "ops": [("set", 0, 0, 2, False)], "t": 903}], "tags": [], "refs": [], "head": None},
}
_own_cache = {}


def own_history(k):
    if k not in _own_cache:
        _own_cache[k] = G.History(OWN_SPECS[k])
    return _own_cache[k]


TRANSPARENT_CONFIGS = [
    b"[core]\n\tlooseCompression = 0\n[pack]\n\tcompression = 9\n",
    b"[core]\n\tcompression = 0\n",
    b"[pack]\n\tindexVersion = 1\n",
    b"[pack]\n\tdeltaWindowSize = 0\n\tdepth = 1\n",
    b"[pack]\n\tdepth = 50\n\tdeltaWindowSize = 50\n\tthreads = 2\n",
    b"[core]\n\tfsyncObjectFiles = true\n",
    b"[core]\n\tmultiPackIndex = false\n\tcommitGraph = false\n",
    b"[core]\n\tpackedGitLimit = 1\n\tdeltaBaseCacheLimit = 1\n",
    b"[core]\n\tbigFileThreshold = 1048576\n[pack]\n\tbigFileThreshold = 64\n",
]


def build_repo(path, objs, ids, refs, head, peel, layout, packed_refs, cgraph=False, first=None):
    """Materialise a bare repository.

    layout: loose | gitpack (one C-git pack with deltas) | gitbitmap (same + .bitmap, what `git gc` leaves in a bare
    repository) | gitpack2 (two C-git packs) | gitbitmap2 (older pack with bitmap + newer pack without: a bare
    repository after `git gc` and one more push) | dulpack (dulwich's pack_loose_objects).
    """
    G.init_bare(path)
    # storage/packing options that must not change what a transfer delivers; chosen as a pure function of the case (half of
    # the repositories keep the default configuration)
    k = (len(ids) * 7 + len(refs) * 3 + len(layout)) % (2 * len(TRANSPARENT_CONFIGS))
    if k < len(TRANSPARENT_CONFIGS):
        with open(os.path.join(path, "config"), "ab") as f:
            f.write(TRANSPARENT_CONFIGS[k])
    nobm = ["-c", "repack.writeBitmaps=false"]
    if layout in ("gitpack2", "gitbitmap2") and first:
        G.write_loose(path, objs, first[0])
        G.write_refs(path, {b"refs/tmp/x%d" % n: t for n, t in enumerate(first[1])}, ("sym", b"refs/heads/unborn"))
        rc, _, err = _git((nobm if layout == "gitpack2" else []) + ["repack", "-a", "-d", "-q", "-f", "--window=10", "--depth=10"]
                          + (["-b"] if layout == "gitbitmap2" else []), cwd=path)
        if rc:
            raise HarnessError(f"git repack failed: {err!r}")
        shutil.rmtree(os.path.join(path, "refs", "tmp"))
    G.write_loose(path, objs, ids)
    G.write_refs(path, refs, head, peel=peel, packed=packed_refs)
    if layout in ("gitpack", "gitbitmap"):
        args = (nobm if layout == "gitpack" else []) + ["repack", "-a", "-d", "-q", "-f", "--window=10", "--depth=10"]
        if layout == "gitbitmap":
            args.append("-b")
        rc, _, err = _git(args, cwd=path)
        if rc:
            raise HarnessError(f"git repack failed: {err!r}")
    elif layout in ("gitpack2", "gitbitmap2"):
        rc, _, err = _git(nobm + ["repack", "-q", "--window=10", "--depth=10"], cwd=path)
        if rc:
            raise HarnessError(f"git repack failed: {err!r}")
    elif layout == "dulpack":
        from dulwich.repo import Repo

        with Repo(path) as r:
            r.object_store.pack_loose_objects()
    if cgraph and refs:
        rc, _, err = _git(["commit-graph", "write", "--reachable"], cwd=path)
        if rc:
            raise HarnessError(f"git commit-graph write failed: {err!r}")


def build_sender(path, h, s):
    first = None
    if s["layout"] in ("gitpack2", "gitbitmap2"):
        n = len(h.commit_ids)
        tips = [h.commit_ids[i] for i in range(max(1, n // 2))]
        first = (h.closure(tips), tips)
    head = ("sym", h.head) if h.head else ("id", h.head_id)
    build_repo(path, h.objs, h.objs.keys(), h.refs, head, h.peel, s["layout"], s.get("packed_refs", False), s.get("cgraph", False), first)


class Universe:
    """Everything the model knows about object contents of one case (sender + receiver's own history)."""

    def __init__(self, h, own=None):
        self.h = h
        self.objs = dict(h.objs)
        if own is not None:
            self.objs.update(own.objs)

    def get(self, i):
        return self.objs.get(i)

    def closure(self, tips):
        from ..gen.repos import closure

        return set(closure(self.objs.__getitem__, list(tips)))


def receiver_model(h, r):
    """-> (ids the receiver holds, its refs, own History|None)."""
    n = len(h.commit_ids)
    tips = sorted({t % max(1, n - 1) for t in r["tips"]})  # never the newest commit (unless it is the only one)
    tag_idx = [k for k in r.get("tags", []) if k < len(h.tag_ids)]
    ids = set(h.closure([h.commit_ids[t] for t in tips] + [h.tag_ids[k] for k in tag_idx]))
    refs = {}
    branch_names = [name for name, _ in h.spec["refs"] if name.startswith(b"refs/heads/")]
    for j, t in enumerate(tips):
        how = r["how"][j % len(r["how"])]
        if how == "heads":
            refs[b"refs/heads/r%d" % j] = h.commit_ids[t]
        elif how == "same" and branch_names and branch_names[j % len(branch_names)] not in refs:
            refs[branch_names[j % len(branch_names)]] = h.commit_ids[t]
        elif how == "same":
            refs[b"refs/heads/r%d" % j] = h.commit_ids[t]
        elif how == "tags":
            refs[b"refs/tags/rl%d" % j] = h.commit_ids[t]
        else:
            refs[b"refs/remotes/origin/r%d" % j] = h.commit_ids[t]
    for k in tag_idx:
        refs[b"refs/tags/rt%d" % k] = h.tag_ids[k]
    own = None
    if r.get("own"):
        own = own_history(r["own"])
        ids |= set(own.objs)
        refs[b"refs/heads/own"] = own.commit_ids[-1]
    return ids, refs, own


def build_receiver(path, h, r):
    ids, refs, own = receiver_model(h, r)
    u = Universe(h, own)
    head = ("sym", b"refs/heads/r0")
    build_repo(path, u.objs, ids, refs, head, lambda i: _peel(u, i), r["layout"], r.get("packed_refs", False), r.get("cgraph", False))
    return ids, refs, u


def _peel(u, i):
    while u.objs[i][0] == b"tag":
        i = u.objs[i][1].split(b"\n", 1)[0].split(b" ")[1]
    return i


# ---------------------------------------------------------------------------
# model-side judgement helpers


def features(h, u, have_ids, want_tips, thin=False, depth=None):
    """Non-triviality features of (what the receiver has, what is wanted) — computed on the model."""
    want_tips = [w for w in want_tips if w in u.objs]
    want = u.closure(want_tips)
    missing = want - have_ids
    f = set()
    if not have_ids:
        f.add("recv-empty")
    if not missing:
        f.add("nothing-missing")
    if have_ids and missing:
        miss_commits = [i for i in missing if u.objs[i][0] == b"commit"]
        miss_tree_side = set()
        for c in miss_commits:
            tree = u.objs[c][1].split(b"\n", 1)[0].split(b" ")[1]
            miss_tree_side |= u.closure([tree])
        if any(i in have_ids for i in miss_tree_side):
            f.add("shared-blob-or-subtree")
        if any(u.objs[c][1].count(b"\nparent ") >= 2 for c in miss_commits):
            f.add("merge-among-missing")
        if any(u.objs[c][1].count(b"\nparent ") >= 1 and all(p in have_ids for p in _parents(u, c)) for c in miss_commits) and \
                any(u.objs[c][1].count(b"\nparent ") >= 1 and not all(p in have_ids for p in _parents(u, c)) for c in miss_commits):
            f.add("deep-missing-chain")
        for w in want_tips:
            if u.objs[w][0] == b"tag" and w in missing:
                tgt = u.objs[w][1].split(b"\n", 1)[0].split(b" ")[1]
                if u.objs[tgt][0] == b"tag":
                    f.add("tag-chain-wanted")
                if tgt in have_ids:
                    f.add("tag-target-present")
        if thin:
            f.add("thin-on-wire")
    if depth:
        f.add("depth-limited")
    return f


def _parents(u, c):
    return [l.split(b" ")[1] for l in u.objs[c][1].split(b"\n\n", 1)[0].split(b"\n") if l.startswith(b"parent ")]


NONTRIVIAL_FEATURES = {"shared-blob-or-subtree", "merge-among-missing", "tag-chain-wanted", "tag-target-present", "thin-on-wire",
                       "depth-limited", "hostile-want"}


def types_of(u, ids):
    return "+".join(sorted({u.objs[i][0].decode() if i in u.objs else "alien" for i in ids}))


def tag_follow_allowance(h, want_closure, adv_values):
    """Annotated tag objects the server may add under include-tag: tags (reachable from advertised tag refs through
    tag chains) whose fully peeled target is in closure(wants)."""
    out = set()
    for v in adv_values:
        if v in h.objs and h.objs[v][0] == b"tag" and h.peel(v) in want_closure:
            out.update(h.tag_chain(v))
    return out


def closure_cut_at(u, tips, shallow):
    """closure(tips) in a shallow repository: the parents of the commits listed in its shallow file are not part of it."""
    from ..gen.repos import parse_object_refs

    seen = set()
    todo = list(tips)
    while todo:
        i = todo.pop()
        if i in seen:
            continue
        seen.add(i)
        t, data = u.objs[i]
        refs = parse_object_refs(t, data)
        if t == b"commit" and i in shallow:
            refs = refs[:1]  # the tree only
        todo.extend(refs)
    return seen


def _read_shallow(rpath):
    try:
        with open(os.path.join(rpath, "shallow"), "rb") as f:
            return set(f.read().split())
    except FileNotFoundError:
        return set()


def required_with_depth(u, tips, depth):
    """Objects a depth-limited fetch of tips must deliver: tag chains, commits within `depth` of a tip, their trees."""
    req = set()
    for w in tips:
        i = w
        while u.objs[i][0] == b"tag":
            req.add(i)
            i = u.objs[i][1].split(b"\n", 1)[0].split(b" ")[1]
        if u.objs[i][0] != b"commit":
            req |= u.closure([i])
            continue
        level = [i]
        seen = set()
        for d in range(depth):
            nxt = []
            for c in level:
                if c in seen:
                    continue
                seen.add(c)
                req.add(c)
                tree = u.objs[c][1].split(b"\n", 1)[0].split(b" ")[1]
                req |= u.closure([tree])
                nxt.extend(_parents(u, c))
            level = nxt
    return req


class _Muted:
    """ctx stand-in used when the *sender* is C git (the reference, not the code under test): oracle-2 findings about
    its packs are counted, never reported."""

    def __init__(self, ctx):
        self.ctx = ctx

    def fail(self, bucket, message, check, case):
        self.ctx.label("cgit-sender:" + bucket.split(":", 3)[3])
        return False

    def label(self, *a, **k):
        self.ctx.label(*a, **k)


def judge_pack(ctx, where, pack, u, h, want_tips, adv_values, include_tag, check, case, have_ids=None, follow_present=False, sender_is_dulwich=True):
    """Oracle 2 on a captured pack (or several back to back).  Returns (ids set | None, thin bool)."""
    if not pack:
        return set(), False
    if not sender_is_dulwich:
        ctx = _Muted(ctx)
    try:
        res = {"objs": {}, "thin_bases": set()}
        for one in W.split_packs(pack):
            r1 = W.resolve_pack(one, u.get)
            res["objs"].update(r1["objs"])
            res["thin_bases"] |= r1["thin_bases"]
    except (ValueError, packfmt.DeltaError, IndexError, KeyError) as e:
        ctx.fail(f"C05:{where}:pack-unparseable:{type(e).__name__}", f"{where}: pack on the wire cannot be parsed/resolved by the reference reader: {e}",
                 check, case)
        return None, False
    ids = set(res["objs"])
    alien = [i for i in ids if i not in u.objs]
    if alien:
        ctx.fail(f"C05:{where}:alien-object-in-pack", f"{where}: pack contains object(s) that are not objects of either repository: {alien[:3]!r} "
                 f"({[res['objs'][i][0] for i in alien[:3]]})", check, case)
        return ids, bool(res["thin_bases"])
    want_closure = u.closure([w for w in want_tips if w in u.objs])
    allowed = set(want_closure)
    if include_tag:
        followed = tag_follow_allowance(h, want_closure | (have_ids if follow_present and have_ids else set()), adv_values)
        allowed |= followed
        if follow_present:
            # C git turns every tag (annotated or lightweight) whose target it has or is getting into an ordinary want,
            # in the same or in a second connection
            present = want_closure | (have_ids or set())
            followed |= {v for v in adv_values if v in h.objs and h.peel(v) in present}
            allowed |= u.closure(followed)
    # (a) nothing unreachable from the refs the sender advertises -- whatever the client asked for
    adv_closure = u.closure([v for v in adv_values if v in u.objs])
    outside = ids - adv_closure
    if outside:
        ctx.fail(f"C05:{where}:sent-object-unreachable-from-advertised-refs:{types_of(u, outside)}",
                 f"{where}: pack contains {len(outside)} object(s) not reachable from any advertised ref: {sorted(outside)[:3]!r} "
                 f"({types_of(u, outside)})", check, case)
    # (b) nothing outside the closure of what was asked for (+ tags followed at the client's request)
    extra = ids - allowed - outside
    if extra:
        ctx.fail(f"C05:{where}:sent-object-outside-closure-of-wants:{types_of(u, extra)}",
                 f"{where}: pack contains {len(extra)} object(s) outside closure(wants){' + followed tags' if include_tag else ''}: "
                 f"{sorted(extra)[:3]!r} types {types_of(u, extra)}", check, case)
    thin = res["thin_bases"] - ids
    if have_ids is not None:
        ctx.label("oversend" if ids & have_ids else "no-oversend")
        nobase = thin - have_ids
        if nobase:
            ctx.fail(f"C05:{where}:thin-base-not-in-receiver:{types_of(u, nobase)}",
                     f"{where}: the pack holds REF delta(s) against {sorted(nobase)[:3]!r}, which are neither in the pack nor among the objects the "
                     f"receiver has: the receiver cannot reconstruct the delivered objects", check, case)
    return ids, bool(thin)


# ---------------------------------------------------------------------------
# raw conversations


def exec_raw(ctx, case, check="raw"):
    env = get_env(ctx)
    h = G.History(case["hist"])
    u = Universe(h)
    root = ctx.scratch.new("raw")
    try:
        spath = os.path.join(root, "sender")
        build_sender(spath, h, case["sender"])
        port = env.dulwich_port()
        for conv in case["convs"]:
            _one_conv(ctx, env, h, u, spath, port, case, conv, check)
    finally:
        shutil.rmtree(root, ignore_errors=True)


def _resolve_id(h, u, ref):
    """('adv', k) advertised value | ('peeled', k) | ('c', i) any commit | ('obj', k) any object | ('absent', k)."""
    kind, k = ref
    adv = sorted(set(h.refs.values()))
    if kind == "adv":
        return adv[k % len(adv)]
    if kind == "peeled":
        tags = [v for v in adv if h.objs[v][0] == b"tag"]
        return h.peel(tags[k % len(tags)]) if tags else adv[k % len(adv)]
    if kind == "c":
        return h.commit_ids[k % len(h.commit_ids)]
    if kind == "tag":
        return h.tag_ids[k % len(h.tag_ids)] if h.tag_ids else h.commit_ids[k % len(h.commit_ids)]
    if kind == "obj":
        ids = sorted(h.objs)
        return ids[k % len(ids)]
    if kind == "absent":
        return G.hexid(b"blob", b"absent %d" % k)
    raise HarnessError(f"bad id ref {ref!r}")


def _one_conv(ctx, env, h, u, spath, port, case, conv, check):
    adv_values = set(h.refs.values()) | ({h.head_id} if h.head_id else set())
    wants = [_resolve_id(h, u, w) for w in conv["wants"]]
    n = len(h.commit_ids)
    have_commits = sorted(h.ancestors([t % max(1, n - 1) for t in conv["have_tips"]]))
    have_ids_list = [h.commit_ids[i] for i in have_commits]
    # order: drawn permutation key
    order = conv.get("order", 0)
    if order == 1:
        have_ids_list.reverse()
    elif order >= 2:
        have_ids_list.sort(key=lambda i: h64(order, i))
    sent_haves = list(have_ids_list)
    for pos, k in conv.get("absent_haves", []):
        sent_haves.insert(pos % (len(sent_haves) + 1), G.hexid(b"commit", b"nope %d" % k))
    virtual = h.closure(have_ids_list)
    # honest non-commit haves: trees / blobs / tags the virtual receiver really holds (a peer may name any object it has)
    if virtual:
        vs = sorted(virtual)
        for pos, k in conv.get("object_haves", []):
            sent_haves.insert(pos % (len(sent_haves) + 1), vs[k % len(vs)])
    caps = list(conv["caps"])
    hostile = [w for w in wants if w not in adv_values]
    one = dict(hist=case["hist"], sender=case["sender"], convs=[conv])
    try:
        r = W.raw_upload_pack("127.0.0.1", port, spath.encode(), wants, sent_haves, caps, done=conv.get("done", True),
                              flush_every=conv.get("flush_every", 0), timeout=10.0)
    except (socket.timeout, TimeoutError):
        ctx.label("raw:timeout")
        ctx.case(("raw", h64(repr(one))), nontrivial=False, labels=("raw",))
        return
    except (W.WireError, OSError) as e:
        if os.environ.get("VF_C05_DEBUG"):
            print("RAWFAIL", repr(e), conv, case["sender"], flush=True)
        ctx.label(f"raw:wire-error:{type(e).__name__}")
        ctx.case(("raw", h64(repr(one))), nontrivial=False, labels=("raw",))
        return
    # the advertisement itself: every ref of the model, with the model's value
    adv = {k: v for k, v in r["advertised"].items() if not k.endswith(b"^{}") and k != b"capabilities^{}"}
    expect_adv = dict(h.refs)
    if h.head_id:
        expect_adv[b"HEAD"] = h.head_id
    if adv != expect_adv and r["error"] is None:
        ctx.fail("C05:raw:advertisement-differs-from-refs", f"advertised {adv!r}, repository refs are {expect_adv!r}", check, one)
    labels = {"raw", "raw:mack=" + ("detailed" if b"multi_ack_detailed" in caps else "plain" if b"multi_ack" in caps else "none")}
    if b"no-done" in caps:
        labels.add("raw:no-done")
    if b"include-tag" in caps:
        labels.add("raw:include-tag")
    if not conv.get("done", True):
        labels.add("raw:no-done-line")
    if conv.get("absent_haves"):
        labels.add("raw:absent-haves")
    if conv.get("object_haves") and virtual:
        labels.add("raw:non-commit-haves")
    feats = features(h, u, virtual, [w for w in wants if w in adv_values])
    if hostile:
        kinds = set()
        for w in hostile:
            if w not in h.objs:
                kinds.add("absent")
            elif w in h.closure(adv_values):
                kinds.add("reachable-unadvertised")
            else:
                kinds.add("unreachable")
        labels |= {"raw:hostile-want:" + k for k in kinds}
        if kinds & {"unreachable", "reachable-unadvertised"}:
            feats.add("hostile-want")
    pack = r["pack"]
    served = bool(pack)
    if os.environ.get("VF_C05_DEBUG") and hostile:
        print("HOSTILE", labels, served, r["error"], r["acks"][:3], conv["wants"], case["sender"], flush=True)
    labels.add("raw:served" if served else "raw:not-served")
    if served:
        ids, thin = judge_pack(ctx, "raw", pack, u, h, wants, adv_values, b"include-tag" in caps, check, one, have_ids=virtual)
        if thin:
            feats.add("thin-on-wire")
        if ids is not None and not hostile and r["error"] is None:
            # completeness against the virtual receiver
            need = u.closure(wants) - virtual
            miss = need - ids
            if miss:
                ctx.fail(f"C05:raw:missing-objects:{types_of(u, miss)}",
                         f"raw upload-pack: wants {wants!r} haves {sent_haves!r} caps {caps!r}: pack lacks {len(miss)} object(s) that are neither "
                         f"in it nor in closure(haves): {sorted(miss)[:4]!r} ({types_of(u, miss)})", check, one)
    else:
        if not hostile and wants and conv.get("done", True) and r["error"] is None:
            labels.add("raw:valid-request-not-served")
            if os.environ.get("VF_C05_DEBUG"):
                print("NOTSERVED", r["acks"], r["error"], conv, case["sender"], flush=True)
    nt = bool(feats & NONTRIVIAL_FEATURES) and ("recv-empty" not in feats or "hostile-want" in feats) and \
        ("nothing-missing" not in feats or "hostile-want" in feats)
    ctx.case(("raw", h64(repr(one))), nontrivial=nt, labels=sorted(labels | {"f:" + f for f in feats} | h.shape_labels()),
             sample=dict(check="raw", ncommits=n, refs=[k.decode() for k in h.refs], wants=conv["wants"], have_tips=conv["have_tips"], caps=[c.decode() for c in caps])
             if nt else None)


# ---------------------------------------------------------------------------
# real transfers


def _mk_client(kind, env, o):
    from dulwich import client as dc

    thin = o.get("thin", True)
    inctag = o.get("inctag", False)
    if kind == "local":
        return dc.LocalGitClient(thin_packs=thin, include_tags=inctag)
    if kind in ("tcp", "gitd"):
        base = dc.TCPGitClient
    elif kind == "http":
        base = dc.Urllib3HttpGitClient
    else:
        base = dc.SubprocessGitClient

    class Tee(base):
        captured = None
        vf_wait_first = False

        def _connect(self, cmd, path, protocol_version=None):
            # Scheduling only: for depth-limited fetches let the first can_read() poll wait until the server's answer to
            # "deepen N" + flush has arrived (a server is free to answer immediately and a client's graph walker is free to
            # be slow), so that the outcome does not depend on thread timing.  _connect is the documented extension point
            # of TraditionalGitClient.
            proto, can_read, stderr = super()._connect(cmd, path, protocol_version)
            if not (self.vf_wait_first and cmd == b"upload-pack" and can_read is not None and protocol_version != 2):
                return proto, can_read, stderr
            state = {"first": True}

            def can_read_wait():
                if state["first"]:
                    state["first"] = False
                    t0 = time.monotonic()
                    while time.monotonic() - t0 < 3.0:
                        if can_read():
                            return True
                        time.sleep(0.002)
                    return False
                return can_read()

            return proto, can_read_wait, stderr

        def fetch_pack(self, path, determine_wants, graph_walker, pack_data, *a, **kw):
            self.captured = []
            self.wants_seen = None

            def dw(refs, depth=None):
                w = determine_wants(refs, depth)
                self.wants_seen = list(w) if w is not None else None
                self.refs_seen = dict(refs)
                return w

            def tee(data):
                self.captured.append(bytes(data))
                return pack_data(data)

            return super().fetch_pack(path, dw, graph_walker, tee, *a, **kw)

    if kind == "tcp":
        c = Tee("127.0.0.1", port=env.dulwich_port(), thin_packs=thin, include_tags=inctag)
    elif kind == "gitd":
        c = Tee("127.0.0.1", port=env.gitd_port(), thin_packs=thin, include_tags=inctag)
    elif kind == "http":
        c = Tee(f"http://127.0.0.1:{env.http_port()}/", thin_packs=thin, include_tags=inctag)
    else:
        c = Tee(thin_packs=thin, include_tags=inctag)
        c.git_command = [cgit.GIT] + cgit._COMMON
    caps = c._fetch_capabilities
    mack = o.get("mack", 2)
    if mack < 2:
        caps.discard(b"multi_ack_detailed")
    if mack < 1:
        caps.discard(b"multi_ack")
    if kind not in ("tcp", "http"):  # dulwich's server refuses clients without these
        if not o.get("ofs", True):
            caps.discard(b"ofs-delta")
        if not o.get("sideband", True):
            caps.discard(b"side-band-64k")
    return c


def _select(names, idxs):
    out = []
    for i in idxs:
        n = names[i % len(names)]
        if n not in out:
            out.append(n)
    return out


class XferState:
    pass


def exec_xfer(ctx, case, check="xfer"):
    env = get_env(ctx)
    h = G.History(case["hist"])
    root = ctx.scratch.new("x")
    try:
        spath = os.path.join(root, "sender")
        build_sender(spath, h, case["sender"])
        rpath = os.path.join(root, "recv")
        have_ids, recv_refs, u = build_receiver(rpath, h, case["recv"])
        st = XferState()
        st.h, st.u, st.spath, st.rpath, st.root = h, u, spath, rpath, root
        before, err = G.read_all_objects(cgit, rpath)
        if before is None or set(before) != have_ids:
            raise HarnessError(f"receiver was not materialised as modelled: {err!r} {len(before or ())} vs {len(have_ids)}")
        st.objs = before
        st.refs = dict(recv_refs)
        for n, step in enumerate(case["steps"]):
            ok = _one_step(ctx, env, st, case, n, step, check)
            if not ok:
                break
    finally:
        shutil.rmtree(root, ignore_errors=True)


def _fail_label(e):
    name = type(e).__name__
    return name


def _one_step(ctx, env, st, case, n, step, check):
    """Execute step n; returns False when the sequence cannot continue (failed / terminal transfer)."""
    h, u = st.h, st.u
    op, tr, o = step["op"], step["tr"], step.get("o", {})
    sub = dict(hist=case["hist"], sender=case["sender"], recv=case["recv"], steps=case["steps"][: n + 1])
    where = f"{op}:{tr}"
    sender_refs = dict(h.refs)
    names = sorted(sender_refs)
    adv_values = set(sender_refs.values()) | ({h.head_id} if h.head_id else set())
    depth = o.get("depth") if op in ("fetch", "clone") else None
    include_tag = (bool(o.get("inctag")) and tr != "local") or (tr in CGIT and op in ("fetch", "clone") and o.get("tagmode", 0) != 1)
    labels = {"xfer", "op:" + op, "tr:" + tr, "step%d" % n}
    rpath = st.rpath
    captured = None
    new_refs = {}
    tips = []
    t_err = None
    try:
        if case["sender"]["layout"] == "gitbitmap2" and tr == "cgith" and op != "push":
            # every transfer out of this layout fails inside dulwich's server (notes/C05-findings.md, failure 1); over smart
            # HTTP the C git client then waits for its own timeout instead of seeing an error: not worth 15 s per case
            raise _XferFailed("skipped-known-server-error-makes-git-hang")
        with _watchdog(15):
            if op == "clone":
                rpath = os.path.join(st.root, "clone%d" % n)
                tips = sorted(adv_values)
                st.objs, st.refs = {}, {}
                captured, new_refs = _do_clone(env, st, tr, o, rpath, depth)
                if tr in CGIT:  # git chooses what a clone takes (e.g. tags it can follow): judge the refs it created
                    tips = sorted(set(new_refs.values()))
            elif op == "fetch":
                sel = None if step.get("wants") is None else _select(names, step["wants"])
                captured, tips, new_refs = _do_fetch(env, st, tr, o, sel, sender_refs, adv_values, depth, n, labels)
            elif op == "push":
                sel = _select(names, step["wants"] or [0])
                tips = [sender_refs[k] for k in sel]
                captured, new_refs = _do_push(env, st, tr, o, sel, sender_refs, labels)
            else:
                raise HarnessError(f"unknown op {op!r}")
    except _Timeout:
        t_err = "timeout"
        if os.environ.get("VF_C05_DEBUG"):
            import traceback

            traceback.print_exc()
            print("TIMEOUT-CASE", repr(sub), flush=True)
    except _XferFailed as e:
        t_err = e.args[0]
    except HarnessError:
        raise
    except Exception as e:  # a failing transfer is not judged by this property; it is counted
        t_err = _fail_label(e)
        if os.environ.get("VF_C05_DEBUG"):
            import traceback

            traceback.print_exc()
            print("CASE", case["sender"], case["recv"], case["steps"], os.listdir(os.path.join(st.spath, "objects", "pack")), flush=True)
    key = ("xfer", h64(repr(sub)))
    if t_err is not None:
        ctx.case(key, nontrivial=False, labels=sorted(labels | {f"xfer-failed:{where}:{t_err}"}))
        return False
    st.rpath = rpath
    # ---- oracle 1: completeness ---------------------------------------------------------
    after, err = G.read_all_objects(cgit, rpath)
    if after is None:
        ctx.fail(f"C05:{where}:receiver-unreadable-by-git", f"{where}: git cat-file --batch-all-objects fails on the receiver: {err[:300]!r}", check, sub)
        return False
    tips = [t for t in tips if t in u.objs]
    was_shallow = getattr(st, "shallow", False)
    if was_shallow and not depth:
        # an ordinary transfer into a receiver that is shallow already: complete up to its (possibly updated) boundary
        labels.add("into-shallow-receiver")
        required = closure_cut_at(u, tips, _read_shallow(rpath))
    else:
        required = required_with_depth(u, tips, depth) if depth else u.closure(tips)
    miss = required - set(after)
    if miss:
        ctx.fail(f"C05:{where}:missing-objects:{types_of(u, miss)}",
                 f"{where} succeeded but the receiver lacks {len(miss)} object(s) of closure(transferred tips): {sorted(miss)[:4]!r} "
                 f"({types_of(u, miss)}); tips {tips!r}", check, sub)
    bad = [i for i in required if i in after and after[i] != u.objs[i]]
    if bad:
        ctx.fail(f"C05:{where}:object-bytes-differ", f"{where}: object(s) {bad[:3]!r} differ from the sender's bytes", check, sub)
    lost = [i for i in st.objs if i not in after or after[i] != st.objs[i]]
    if lost:
        ctx.fail(f"C05:{where}:receiver-lost-objects", f"{where}: {len(lost)} object(s) readable before the transfer are gone/changed: {lost[:3]!r}", check, sub)
    # the same through a fresh dulwich Repo
    if not miss:
        _dulwich_reads(ctx, where, rpath, required, u, check, sub)
    # ---- oracle 2: the wire ---------------------------------------------------------------
    feats = features(h, u, set(st.objs), tips, depth=depth)
    if captured is not None:
        ids, thin = judge_pack(ctx, where, captured, u, h, tips, adv_values if op != "push" else set(u.objs), include_tag, check, sub,
                               have_ids=set(st.objs), follow_present=(tr in CGIT),
                               sender_is_dulwich=not (op in ("fetch", "clone") and tr in ("sub", "gitd")))
        if thin:
            feats.add("thin-on-wire")
            labels.add(f"thin:{where}")
            feats |= features(h, u, set(st.objs), tips, thin=True, depth=depth)
        labels.add("wire-captured")
    # ---- refs + connectivity ----------------------------------------------------------------
    if op == "fetch" and tr not in CGIT and new_refs:
        G.write_refs(rpath, new_refs, ("sym", b"refs/heads/r0"))
    shallow_bad = False
    if depth and not miss:
        try:
            with open(os.path.join(rpath, "shallow"), "rb") as f:
                shallow = set(f.read().split())
        except FileNotFoundError:
            shallow = set()
        undeclared = sorted(c for c in required if u.objs[c][0] == b"commit" and c not in shallow and any(p not in after for p in _parents(u, c)))
        if undeclared:
            shallow_bad = True
            ctx.fail(f"C05:{op}:{'net' if tr in ('tcp', 'sub', 'gitd') else tr}:shallow-file-lacks-boundary",
                     f"{where} depth={depth} succeeded; commit(s) {undeclared[:3]!r} were delivered without (all of) their parents but the receiver's "
                     f"shallow file lists only {sorted(shallow)!r}: the repository is not complete (git fsck reports broken links)", check, sub)
    if not miss and not shallow_bad and (new_refs or op != "fetch"):
        rc, out, err = _git(["fsck", "--connectivity-only"], cwd=rpath)
        if rc == 124:
            ctx.label("fsck-timeout")
        elif rc != 0 and (b"missing " in out + err or b"broken link" in out + err):
            ctx.fail(f"C05:{where}:fsck-connectivity", f"{where}: git fsck --connectivity-only exits {rc} on the receiver after the transferred refs "
                     f"were set: {(out + err)[:400]!r}", check, sub)
    st.objs = after
    st.refs.update(new_refs)
    if depth:
        st.shallow = True
    nt = bool(feats & NONTRIVIAL_FEATURES) and "nothing-missing" not in feats and ("recv-empty" not in feats or depth)
    ctx.case(key, nontrivial=nt, labels=sorted(labels | {"f:" + f for f in feats} | (h.shape_labels() if n == 0 else set())
                                               | {"sender:" + case["sender"]["layout"], "recv:" + case["recv"]["layout"]}),
             sample=dict(check="xfer", op=op, tr=tr, opts=o, ncommits=len(h.commit_ids), refs=[k.decode() for k in names], wants=step.get("wants"),
                         recv_tips=case["recv"]["tips"], feats=sorted(feats)) if nt else None)
    return True


class _XferFailed(Exception):
    pass


def _dulwich_reads(ctx, where, rpath, required, u, check, sub):
    from dulwich.repo import Repo

    tn = {1: b"commit", 2: b"tree", 3: b"blob", 4: b"tag"}
    with Repo(rpath) as r:
        for i in sorted(required):
            try:
                t, data = r.object_store.get_raw(i)
            except KeyError:
                ctx.fail(f"C05:{where}:object-unreadable-by-dulwich", f"{where}: object {i!r} is in the receiver according to C git but a fresh "
                         f"dulwich Repo cannot find it", check, sub)
                return
            if (tn.get(t), data) != u.objs[i]:
                ctx.fail(f"C05:{where}:object-bytes-differ-dulwich", f"{where}: dulwich reads object {i!r} with different type/bytes", check, sub)
                return


def _ref_for(u, i, n, k):
    t = u.objs[i][0]
    if t == b"commit":
        return b"refs/heads/got%d_%d" % (n, k)
    if t == b"tag":
        return b"refs/tags/got%d_%d" % (n, k)
    return b"refs/misc/got%d_%d" % (n, k)


def _do_fetch(env, st, tr, o, sel, sender_refs, adv_values, depth, n, labels):
    """-> (captured pack | None, transferred tips, refs to set afterwards)."""
    from dulwich.repo import Repo

    h, u = st.h, st.u
    if tr in ("cgit", "cgith"):
        return _cgit_fetch(env, st, tr, o, sel, sender_refs, depth, n, labels)
    if sel is None:
        tips = sorted(adv_values)
        dw = None
        labels.add("wants:default-all")
    else:
        tips = [sender_refs[k] for k in sel]
        dup = o.get("dup", False)

        def dw(refs, depth=None):
            w = [refs[k] for k in sel if k in refs]
            if dup and w:
                w = w + [w[0]]
            return w

    client = _mk_client(tr, env, o)
    path = st.spath
    kw = {}
    if depth:
        kw["depth"] = depth
        if tr != "local":
            client.vf_wait_first = True
    if tr == "gitd" and o.get("proto") is not None:
        kw["protocol_version"] = o["proto"]
    elif tr == "gitd" and depth:
        kw["protocol_version"] = 0
    captured = None
    with Repo(st.rpath) as target:
        if tr == "local":
            # LocalGitClient.fetch hands objects over in-process; its fetch_pack is the entry that produces a pack stream.
            # Capture it first (read-only for both repositories unless depth is set), then run the real fetch.
            if not depth:
                chunks = []
                dwl = dw if dw is not None else target.object_store.determine_wants_all
                client.fetch_pack(path, dwl, target.get_graph_walker(), chunks.append)
                captured = b"".join(chunks)
            res = client.fetch(path, target, determine_wants=dw, **kw)
        else:
            res = client.fetch(path if tr == "http" else path.encode(), target, determine_wants=dw, **kw)
            captured = b"".join(client.captured or [])
            labels.add("proto:v%d" % client.protocol_version)
    got = {k: v for k, v in res.refs.items() if not k.endswith(b"^{}")}
    for k in (sel if sel is not None else sender_refs):
        if got.get(k) != sender_refs[k]:
            raise _XferFailed(f"returned-refs-differ")
    new_refs = {}
    for k, t in enumerate(tips):
        if t in u.objs:
            new_refs[_ref_for(u, t, n, k)] = t
    if depth:
        new_refs = {k: v for k, v in new_refs.items()}
    return captured, tips, new_refs


def _cgit_url(env, tr, path):
    if tr == "cgith":
        return f"http://127.0.0.1:{env.http_port()}{path}"
    return f"git://127.0.0.1:{env.dulwich_port()}{path}"


def _cgit_fetch(env, st, tr, o, sel, sender_refs, depth, n, labels):
    url = _cgit_url(env, tr, st.spath)
    trace = os.path.join(st.root, "trace%d.pack" % n)
    args = ["-c", "protocol.version=%d" % o.get("proto", 0)]
    args += ["fetch", "-q"]
    tagmode = o.get("tagmode", 0)
    if tagmode == 1:
        args.append("--no-tags")
    elif tagmode == 2:
        args.append("--tags")
    if depth:
        args.append("--depth=%d" % depth)
    args.append(url)
    if sel is None:
        sel = sorted(sender_refs)
    new_refs = {}
    tips = []
    for k, name in enumerate(sel):
        t = sender_refs[name]
        dst = _ref_for(st.u, t, n, k)
        args.append(b"+" + name + b":" + dst)
        new_refs[dst] = t
        tips.append(t)
    if tagmode == 2:
        for name, t in sorted(sender_refs.items()):
            if name.startswith(b"refs/tags/") and t not in tips:
                tips.append(t)
    rc, out, err = _git(args, cwd=st.rpath, extra_env={"GIT_TRACE_PACKFILE": trace}, timeout=20)
    if rc != 0:
        if os.environ.get("VF_C05_DEBUG"):
            print("GITFAIL", args, err, flush=True)
        raise _XferFailed("git-exit-%d" % rc)
    captured = None
    if os.path.exists(trace):
        # auto-followed tags may make git open a second connection: the trace then holds two packs back to back
        with open(trace, "rb") as f:
            captured = f.read()
        os.unlink(trace)
    labels.add("cgit-tagmode:%d" % tagmode)
    actual = G.read_refs_git(cgit, st.rpath)
    for k, v in new_refs.items():
        if actual.get(k) != v:
            raise _XferFailed("git-did-not-set-ref")
    return captured, tips, new_refs


def _do_clone(env, st, tr, o, rpath, depth):
    h = st.h
    if tr in ("cgit", "cgith"):
        url = _cgit_url(env, tr, st.spath)
        args = ["-c", "protocol.version=%d" % o.get("proto", 0), "clone", "-q", "--mirror"]
        if depth:
            args += ["--depth=%d" % depth, "--no-single-branch"]
        trace = os.path.join(st.root, "trace-clone.pack")
        rc, out, err = _git(args + [url, rpath], extra_env={"GIT_TRACE_PACKFILE": trace}, timeout=20)
        if rc != 0:
            raise _XferFailed("git-exit-%d" % rc)
        captured = None
        if os.path.exists(trace):
            with open(trace, "rb") as f:
                captured = f.read()
            os.unlink(trace)
        actual = G.read_refs_git(cgit, rpath)
        if not actual or any(h.refs.get(k) != v for k, v in actual.items()):
            raise _XferFailed("git-clone-refs-unexpected")
        return captured, actual
    client = _mk_client(tr, env, o)
    kw = {}
    if depth:
        kw["depth"] = depth
    if tr == "gitd" and o.get("proto") is not None:
        kw["protocol_version"] = o["proto"]
    repo = client.clone(st.spath, rpath, mkdir=True, bare=True, **kw)
    repo.close()
    captured = None if tr == "local" else b"".join(client.captured or [])
    return captured, dict(h.refs)


def _do_push(env, st, tr, o, sel, sender_refs, labels):
    from dulwich.repo import Repo

    h, u = st.h, st.u
    new = {k: sender_refs[k] for k in sel}
    if tr in ("cgit", "cgith"):
        url = _cgit_url(env, tr, st.rpath)
        args = ["push", "-q"]
        if not o.get("thin", True):
            args.append("--no-thin")
        args.append(url)
        for k in sel:
            args.append(b"+" + k + b":" + k)
        rc, out, err = _git(args, cwd=st.spath, timeout=20)
        if rc != 0:
            raise _XferFailed("git-exit-%d" % rc)
        captured = None
    else:
        client = _mk_client(tr, env, o)
        records = {}

        with Repo(st.spath) as src:
            def gen(have, want, **kw):
                count, it = src.generate_pack_data(have, want, **kw)
                lst = list(it)
                records["count"], records["list"] = count, lst
                return count, iter(lst)

            def update(old):
                out = dict(old)
                out.update(new)
                return out

            path = st.rpath if tr in ("local", "http") else st.rpath.encode()
            res = client.send_pack(path, update, gen)
            status = getattr(res, "ref_status", None) or {}
            failed = {k: v for k, v in status.items() if v is not None}
            if failed:
                raise _XferFailed("ref-status-error")
            captured = None
            if "list" in records:
                from dulwich.object_format import DEFAULT_OBJECT_FORMAT
                from dulwich.pack import write_pack_data

                if records["count"] != len(records["list"]):
                    raise _XferFailed("generate_pack_data-count-mismatch")
                buf = io.BytesIO()
                if records["list"]:
                    write_pack_data(buf.write, iter(records["list"]), num_records=len(records["list"]), object_format=DEFAULT_OBJECT_FORMAT)
                captured = buf.getvalue()
    actual = G.read_refs_git(cgit, st.rpath)
    for k, v in new.items():
        if actual.get(k) != v:
            raise _XferFailed("ref-not-updated")
    return captured, new


# ---------------------------------------------------------------------------
# strategies


def _strategies():
    from hypothesis import strategies as st

    gs = G.strategies()
    history = gs["history"]
    sender = st.fixed_dictionaries({
        "layout": st.sampled_from(["gitpack", "loose", "gitpack2", "dulpack", "gitbitmap", "gitpack", "gitpack2", "gitpack", "loose", "dulpack",
                                   "gitbitmap2"]),
        "packed_refs": st.booleans(),
        "cgraph": st.booleans(),
    })
    idref = st.one_of(
        st.tuples(st.just("adv"), st.integers(0, 7)),
        st.tuples(st.just("adv"), st.integers(0, 7)),
        st.tuples(st.just("adv"), st.integers(0, 7)),
    )
    hostile_ref = st.one_of(
        st.tuples(st.just("peeled"), st.integers(0, 3)),
        st.tuples(st.just("c"), st.integers(0, 8)),
        st.tuples(st.just("c"), st.integers(0, 8)),
        st.tuples(st.just("tag"), st.integers(0, 3)),
        st.tuples(st.just("obj"), st.integers(0, 60)),
        st.tuples(st.just("absent"), st.integers(0, 3)),
    )
    base_caps = [b"side-band-64k", b"thin-pack", b"ofs-delta"]  # dulwich's server insists on these three

    @st.composite
    def conv(draw):
        hostile = draw(st.integers(0, 9)) < 3
        wants = draw(st.lists(idref, min_size=1, max_size=3))
        if hostile:
            wants = wants[:-1] + [draw(hostile_ref)] if draw(st.booleans()) else [draw(hostile_ref)]
        caps = list(base_caps)
        mack = draw(st.sampled_from([0, 1, 2, 2]))
        if mack == 1:
            caps.append(b"multi_ack")
        elif mack == 2:
            caps.append(b"multi_ack_detailed")
        for c, p in ((b"no-done", 3), (b"include-tag", 4), (b"no-progress", 3), (b"shallow", 2)):
            if draw(st.integers(0, 9)) < p:
                caps.append(c)
        return {
            "wants": wants,
            "have_tips": draw(st.lists(st.integers(0, 8), min_size=0 if draw(st.integers(0, 9)) < 2 else 1, max_size=3, unique=True)),
            "order": draw(st.sampled_from([0, 0, 1, 2, 3, 4])),
            "absent_haves": draw(st.lists(st.tuples(st.integers(0, 9), st.integers(0, 5)), max_size=2)),
            "object_haves": draw(st.lists(st.tuples(st.integers(0, 9), st.integers(0, 40)), max_size=2)) if draw(st.integers(0, 9)) < 3 else [],
            "caps": caps,
            "done": draw(st.integers(0, 19)) > 0,
            "flush_every": draw(st.sampled_from([0, 0, 1, 2, 3])),
        }

    raw_case = st.fixed_dictionaries({"hist": history(), "sender": sender, "convs": st.lists(conv(), min_size=1, max_size=4)})

    recv = st.fixed_dictionaries({
        "tips": st.one_of(st.lists(st.integers(0, 8), min_size=1, max_size=3, unique=True), st.lists(st.integers(0, 8), min_size=1, max_size=3, unique=True),
                          st.lists(st.integers(0, 8), min_size=1, max_size=3, unique=True), st.just([])),
        "how": st.lists(st.sampled_from(["heads", "heads", "heads", "same", "tags", "remotes"]), min_size=3, max_size=3),
        "tags": st.lists(st.integers(0, 3), max_size=2, unique=True),
        "own": st.sampled_from([0, 0, 0, 1, 2]),
        "layout": st.sampled_from(["loose", "gitpack", "dulpack", "gitpack"]),
        "packed_refs": st.booleans(),
        "cgraph": st.sampled_from([False, False, False, True]),
    })

    @st.composite
    def step(draw, first):
        op = draw(st.sampled_from(["fetch"] * 6 + ["push"] * 3 + (["clone"] * 2 if first else [])))
        if op == "push":
            tr = draw(st.sampled_from(["local", "local", "tcp", "tcp", "sub", "sub", "http", "cgit", "cgith"]))
        else:
            tr = draw(st.sampled_from(["local", "local", "tcp", "tcp", "tcp", "sub", "sub", "gitd", "gitd", "http", "http", "cgit", "cgith"]))
        o = {}
        if tr in ("tcp", "sub", "gitd", "http"):
            o["mack"] = draw(st.sampled_from([2, 1, 2, 2, 2, 0]))
            o["inctag"] = draw(st.integers(0, 9)) < 4
            if tr not in ("tcp", "http"):
                o["thin"] = draw(st.integers(0, 9)) < 7
                o["ofs"] = draw(st.integers(0, 9)) < 7
                o["sideband"] = draw(st.integers(0, 9)) < 8
            if tr == "gitd":
                o["proto"] = draw(st.sampled_from([None, 0, 2, 2]))
        elif tr in CGIT:
            o["proto"] = draw(st.sampled_from([0, 0, 2]))
            o["tagmode"] = draw(st.sampled_from([0, 0, 1, 2]))
            o["thin"] = draw(st.booleans())
        if op == "fetch":
            o["dup"] = draw(st.integers(0, 9)) < 2
        wants = draw(st.one_of(st.none(), st.lists(st.integers(0, 9), min_size=1, max_size=3))) if op == "fetch" and tr not in CGIT else \
            draw(st.lists(st.integers(0, 9), min_size=1, max_size=3))
        if first and op in ("fetch", "clone") and draw(st.integers(0, 9)) < 1:
            # depth only into receivers without any of the sender's history (xfer_case empties tips/tags): deepening or
            # re-shallowing existing history has semantics of its own that this property does not fix
            o["depth"] = draw(st.integers(1, 3))
        return {"op": op, "tr": tr, "wants": wants, "o": o}

    @st.composite
    def xfer_case(draw):
        steps = [draw(step(True))]
        if steps[0]["op"] != "clone" and not steps[0]["o"].get("depth") and draw(st.booleans()):
            steps.append(draw(step(False)))
        elif steps[0]["o"].get("depth") and draw(st.integers(0, 9)) < 7:
            # an ordinary fetch into the receiver the depth-limited transfer has just made shallow
            nxt = draw(step(False))
            if nxt["op"] == "fetch":
                steps.append(nxt)
        r = draw(recv)
        if steps[0]["o"].get("depth"):
            r = dict(r, tips=[], tags=[])
        return {"hist": draw(history()), "sender": draw(sender), "recv": r, "steps": steps}

    return raw_case, xfer_case()


# ---------------------------------------------------------------------------
# self-test of the model


def selftest(ctx):
    cgit.selfcheck()
    spec = {"commits": [{"parents": [], "ops": [("base", 0)], "t": 0},
                        {"parents": [0], "ops": [("set", 0, 0, 1, False)], "t": 10},
                        {"parents": [0], "ops": [("set", 2, 1, 1, False), ("cpdir",)], "t": 20},
                        {"parents": [1, 2], "ops": [("take", 1, 2), ("link", 0)], "t": 30},
                        {"parents": [3], "ops": [("set", 0, 0, 0, False), ("sym", 1)], "t": 40},
                        {"parents": [], "ops": [("base", 2)], "t": 50}],
            "tags": [{"target": ("c", 3), "signed": False}, {"target": ("tag", 0), "signed": True}, {"target": ("tree", 1)},
                     {"target": ("blob", 0, 0)}],
            "refs": [(b"refs/heads/b0", ("c", 4)), (b"refs/heads/b1", ("c", 2)), (b"refs/tags/t1", ("tag", 1)),
                     (b"refs/tags/t2", ("tag", 2)), (b"refs/tags/t3", ("tag", 3))],
            "head": b"refs/heads/b0"}
    h = G.History(spec)
    root = ctx.scratch.new("self")
    try:
        s = os.path.join(root, "s")
        build_sender(s, h, {"layout": "loose", "packed_refs": True})
        rc, out = cgit.fsck(s, "--full", "--strict")
        if rc != 0:
            raise HarnessError(f"selftest: git fsck rejects the generator's objects: {out!r}")
        objs, err = G.read_all_objects(cgit, s)
        if objs != h.objs:
            raise HarnessError("selftest: git cat-file reads different objects than the generator wrote")
        lines = cgit.out(["rev-list", "--objects", "--all"], cwd=s).splitlines()
        if {l.split(b" ")[0] for l in lines} != h.closure(h.refs.values()):
            raise HarnessError("selftest: closure() disagrees with git rev-list --objects --all")
        if G.read_refs_git(cgit, s) != h.refs:
            raise HarnessError("selftest: git reads other refs than written")
        # pack reader + delta resolver against git pack-objects --thin
        _git(["repack", "-a", "-d", "-q", "-f"], cwd=s)
        tip, have = h.commit_ids[4], h.commit_ids[1]
        rc, pack, err = _git(["pack-objects", "--revs", "--thin", "--stdout", "-q", "--delta-base-offset"], cwd=s, input=tip + b"\n^" + have + b"\n")
        if rc != 0:
            raise HarnessError(f"selftest: git pack-objects failed {err!r}")
        res = W.resolve_pack(pack, h.objs.get)
        ids = set(res["objs"])
        need = h.closure([tip]) - h.closure([have])
        if not (need <= ids <= h.closure([tip])) or any(res["objs"][i] != h.objs[i] for i in ids):
            raise HarnessError("selftest: resolve_pack disagrees with git pack-objects")
        if not res["ndeltas"]:
            raise HarnessError("selftest: expected deltas in git's pack (generator contents do not deltify)")
        # raw conversation client against C git (git daemon): complete answer expected
        env = get_env(ctx)
        # the scratch root of this process is the daemon's whitelist
        r = W.raw_upload_pack("127.0.0.1", env.gitd_port(), s.encode(), [tip], [have], [b"multi_ack_detailed", b"side-band-64k", b"thin-pack", b"ofs-delta"])
        if r["error"] or not r["pack"]:
            raise HarnessError(f"selftest: raw upload-pack conversation with git daemon failed: {r['error']!r}")
        ids = set(W.resolve_pack(r["pack"], h.objs.get)["objs"])
        if not (need <= ids <= h.closure([tip])):
            raise HarnessError("selftest: raw conversation with git daemon returned an unexpected object set")
    finally:
        shutil.rmtree(root, ignore_errors=True)


# ---------------------------------------------------------------------------
# run / replay


def _collecting(fn):
    """Run one generated case; oracle failures are recorded (smallest case per bucket wins) and the search goes on.

    Hypothesis is used as a generator only: transfers go through real sockets and subprocesses, so replaying an example
    inside Hypothesis (shrinking, flakiness detection) buys little and a single timing-dependent case would abort the
    whole shard as Flaky.  Every recorded case is re-executed by `replay` from the replay file.
    """

    def test(ctx, value):
        if time.monotonic() - _T0 > ctx.scale(50, 26 * 60):
            # wall-clock guard (machine overloaded / peers hanging): stops the *search* early, never decides a case
            ctx.inconclusive = True
            ctx.label("skipped-by-wall-clock-guard")
            return
        try:
            fn(ctx, value)
        except Violation as v:
            ctx.record_violation(v.bucket, v.message, v.check, v.case)

    return test


_T0 = time.monotonic()


def directed_cases():
    """A project that mounts one of its own branches as a submodule: the gitlink names a commit of the same repository
    that the receiver does not have yet although it has the commit whose tree holds the gitlink.  (Gitlinks are never
    followed, so having the linking commit says nothing about the linked one.)  Crossed with every sender role dulwich
    plays.  -> [("raw"|"xfer", case)]"""
    nl = len(G.GITLINKS)
    shapes = {
        # commit 0 = docs root X; 1 = main root, links X; 2 = docs tip (child of X)
        "link-root": ([{"parents": [], "ops": [("base", 0)], "t": 0}, {"parents": [], "ops": [("base", 1), ("link", nl + 0)], "t": 10},
                       {"parents": [0], "ops": [("bump", 0, 1)], "t": 20}], {b"refs/heads/main": 1, b"refs/heads/docs": 2}, 1),
        # 0 docs root; 1 = X (child of 0); 2 = main root, links X; 3 = docs tip (child of X)
        "link-inner": ([{"parents": [], "ops": [("base", 0)], "t": 0}, {"parents": [0], "ops": [("bump", 2, 1)], "t": 5},
                        {"parents": [], "ops": [("base", 2), ("link", nl + 1)], "t": 10}, {"parents": [1], "ops": [("bump", 0, 1)], "t": 20}],
                       {b"refs/heads/main": 2, b"refs/heads/docs": 3}, 2),
        # main has history of its own; the link appears in its second commit; docs tip is a merge of X and a side commit
        "link-merge": ([{"parents": [], "ops": [("base", 1)], "t": 0}, {"parents": [], "ops": [("base", 0)], "t": 2},
                        {"parents": [0], "ops": [("bump", 0, 1), ("link", nl + 1)], "t": 10}, {"parents": [1], "ops": [("bump", 2, 1)], "t": 12},
                        {"parents": [1, 3], "ops": [("bump", 4, 1)], "t": 20}], {b"refs/heads/main": 2, b"refs/heads/docs": 4}, 2),
    }
    out = []
    base_caps = [b"side-band-64k", b"thin-pack", b"ofs-delta"]
    for name, (commits, refs, have) in sorted(shapes.items()):
        hist = {"commits": commits, "tags": [], "refs": [(k, ("c", v)) for k, v in sorted(refs.items())], "head": b"refs/heads/main"}
        for layout in ("loose", "gitpack", "dulpack"):
            sender = {"layout": layout, "packed_refs": layout != "loose", "cgraph": False}
            convs = [{"wants": [("adv", k)], "have_tips": [have], "order": 0, "absent_haves": [], "object_haves": [],
                      "caps": base_caps + extra, "done": True, "flush_every": 0}
                     for k in (0, 1) for extra in ([], [b"multi_ack"], [b"multi_ack_detailed"], [b"multi_ack_detailed", b"no-done"])]
            out.append(("raw", {"hist": hist, "sender": sender, "convs": convs, "directed": name}))
            recv = {"tips": [have], "how": ["heads"] * 3, "tags": [], "own": 0, "layout": "loose" if layout != "loose" else "gitpack", "packed_refs": False, "cgraph": False}
            for op, trs in (("fetch", ["local", "tcp", "http", "cgit", "cgith"]), ("push", ["local", "tcp", "sub", "http"])):
                for tr in trs:
                    o = {"proto": 0, "tagmode": 0, "thin": True} if tr in CGIT else {}
                    out.append(("xfer", {"hist": hist, "sender": sender, "recv": recv, "steps": [{"op": op, "tr": tr, "wants": [0, 1], "o": o}], "directed": name}))
    # an ordinary fetch into a receiver that is shallow already, where the new history reaches below the boundary by a
    # side path: c1 <- c2 <- c3 (fetched at depth 1), x (parent c2), m = merge(c3, x) fetched without depth.  The sender
    # may assume nothing about the ancestors of the shallow have.
    commits = [{"parents": [], "ops": [("base", 0)], "t": 0}, {"parents": [0], "ops": [("bump", 0, 1)], "t": 10}, {"parents": [1], "ops": [("bump", 2, 1)], "t": 20},
               {"parents": [1], "ops": [("set", 5, 2, 1, False)], "t": 25}, {"parents": [2, 3], "ops": [("take", 1, 5)], "t": 30}]
    hist = {"commits": commits, "tags": [], "refs": [(b"refs/heads/merged", ("c", 4)), (b"refs/heads/old", ("c", 2))], "head": b"refs/heads/old"}
    recv = {"tips": [], "how": ["heads"] * 3, "tags": [], "own": 0, "layout": "loose", "packed_refs": False, "cgraph": False}
    for layout in ("loose", "gitpack"):
        sender = {"layout": layout, "packed_refs": False, "cgraph": False}
        for tr1 in ("local", "tcp"):
            for tr2 in ("local", "tcp", "sub", "gitd", "http", "cgit", "cgith"):
                o2 = {"proto": 0, "tagmode": 1, "thin": True} if tr2 in CGIT else {"proto": 2} if tr2 == "gitd" and layout == "gitpack" else {}
                out.append(("xfer", {"hist": hist, "sender": sender, "recv": recv, "directed": "shallow-then-side-path",
                                     "steps": [{"op": "fetch", "tr": tr1, "wants": [1], "o": {"depth": 1}}, {"op": "fetch", "tr": tr2, "wants": [0], "o": o2}]}))
    return out


def _part(ctx, item):
    n_xfer, n_raw = item
    raw_case, xfer_case = _strategies()
    try:
        for k, (kind, case) in enumerate(directed_cases()):
            if k % 16 == ctx.shard % 16:
                ctx.label("directed:" + case["directed"])
                _collecting(exec_raw if kind == "raw" else exec_xfer)(ctx, case)
        run_hypothesis(ctx, xfer_case, _collecting(exec_xfer), max_examples=n_xfer, shrink=False)
        run_hypothesis(ctx, raw_case, _collecting(exec_raw), max_examples=n_raw, shrink=False)
    finally:
        close_env()


# ---------------------------------------------------------------------------
# bounded greedy minimisation of recorded failures (plain re-execution, no Hypothesis)


def _candidates(check, case):
    """Simpler variants of a case, most aggressive first.  All variants stay inside the generators' domain."""
    import copy

    def variant(path, value):
        c = copy.deepcopy(case)
        d = c
        for k in path[:-1]:
            d = d[k]
        d[path[-1]] = value
        return c

    hist = case["hist"]
    commits = hist["commits"]
    if len(commits) > 1:
        used = len(commits) - 1
        if not any(used in c["parents"] for c in commits):
            yield variant(("hist", "commits"), commits[:-1])
    tags = hist["tags"]
    if tags:
        last = len(tags) - 1
        if not any(t["target"] == ("tag", last) for t in tags):
            c = variant(("hist", "tags"), tags[:-1])
            c["hist"]["refs"] = [r for r in c["hist"]["refs"] if tuple(r[1]) != ("tag", last)]
            if c["hist"]["refs"]:
                yield c
    refs = hist["refs"]
    for i in range(len(refs) - 1, 0, -1):
        yield variant(("hist", "refs"), refs[:i] + refs[i + 1:])
    for side in ("sender",) + (("recv",) if check == "xfer" else ()):
        for key, val in (("layout", "loose"), ("cgraph", False), ("packed_refs", False)):
            if case[side].get(key, val) != val:
                yield variant((side, key), val)
    if check == "xfer":
        if len(case["steps"]) > 1:
            yield variant(("steps",), case["steps"][1:])
        if case["recv"].get("own"):
            yield variant(("recv", "own"), 0)
        if case["recv"].get("tags"):
            yield variant(("recv", "tags"), [])
        if len(case["recv"]["tips"]) > 1:
            for i in range(len(case["recv"]["tips"])):
                yield variant(("recv", "tips"), case["recv"]["tips"][:i] + case["recv"]["tips"][i + 1:])
        last = case["steps"][-1]
        if isinstance(last.get("wants"), list) and len(last["wants"]) > 1:
            for i in range(len(last["wants"])):
                yield variant(("steps", len(case["steps"]) - 1, "wants"), last["wants"][:i] + last["wants"][i + 1:])
        for k, v in list(last.get("o", {}).items()):
            if k != "depth" and v not in (None, False, 2) :
                o2 = {kk: vv for kk, vv in last["o"].items() if kk != k}
                yield variant(("steps", len(case["steps"]) - 1, "o"), o2)
    else:
        conv = case["convs"][0]
        for key, val in (("absent_haves", []), ("object_haves", []), ("flush_every", 0), ("order", 0)):
            if conv.get(key, val) != val:
                yield variant(("convs", 0, key), val)
        for key in ("wants", "have_tips"):
            if len(conv[key]) > 1:
                for i in range(len(conv[key])):
                    yield variant(("convs", 0, key), conv[key][:i] + conv[key][i + 1:])
        for cap in conv["caps"][3:]:
            yield variant(("convs", 0, "caps"), [c for c in conv["caps"] if c != cap])
    for i, c in enumerate(commits):
        keep = [op for op in c["ops"] if op[0] == "base"]
        if len(keep) != len(c["ops"]):
            yield variant(("hist", "commits", i, "ops"), keep)
    for i, c in enumerate(commits):
        if len(c["parents"]) > 1:
            yield variant(("hist", "commits", i, "parents"), c["parents"][:-1])
    if [c["t"] for c in commits] != [10 * i for i in range(len(commits))]:
        c = variant(("hist", "commits"), [dict(cm, t=10 * i) for i, cm in enumerate(commits)])
        yield c


def _minimise(ctx, bucket, budget):
    from ..core import Ctx

    v = ctx.violations[bucket]
    check, best = v["check"], v["case"]
    if check not in ("raw", "xfer"):
        return  # directed families are small by construction
    improved = True
    while improved and budget > 0:
        improved = False
        for cand in _candidates(check, best):
            if budget <= 0:
                break
            budget -= 1
            sub = Ctx(ctx.prop, ctx.tier, ctx.seed)
            sub._scratch, sub._scratch_pid = ctx.scratch, os.getpid()
            try:
                (exec_raw if check == "raw" else exec_xfer)(sub, cand)
            except Exception:
                continue  # a variant the harness cannot build is simply not a candidate
            if bucket in sub.violations:
                best = sub.violations[bucket]["case"]
                v.update(case=best, message=sub.violations[bucket]["message"])
                improved = True
                break
    ctx.label("minimised-buckets")


# ---------------------------------------------------------------------------
# senders that serve from the handle which generated their pack bitmaps
#
# dulwich consults reachability bitmaps only in the process that generated them (a long-running server that repacks itself):
# MissingObjectFinder then takes "what the receiver has" from the bitmaps.  XOR-compressed entries (and chains of them) only
# appear in packs of a few hundred objects with bitmapped tips on neighbouring commits, which the generated histories above
# never reach, so this family builds that shape directly: a long line of commits, a run of branch tips on its last commits and
# one or two further back; every branch in turn is what the receiver already has when it asks for everything.


def exec_bitmap_sender(ctx, case, check="bitmap-sender"):
    from dulwich import porcelain
    from dulwich.objects import Blob, Commit, Tree
    from dulwich.repo import Repo

    n, tips, salt = case["n"], case["tips"], case["salt"]
    root = ctx.scratch.new("bm")
    spath = os.path.join(root, "sender")
    os.makedirs(spath)
    r = Repo.init_bare(spath)
    commits = []
    try:
        files = {}
        parent = None
        for i in range(n):
            b = Blob.from_string(b"file %d revision %d of history %d\n" % (i % 8, i, salt))
            files[b"f%d.txt" % (i % 8)] = b.id
            t = Tree()
            for fn, sha in files.items():
                t.add(fn, 0o100644, sha)
            c = Commit()
            c.tree = t.id
            c.parents = [parent] if parent else []
            c.author = c.committer = b"B M <bm@example.com>"
            c.author_time = c.commit_time = 1_200_000_000 + 60 * i
            c.author_timezone = c.commit_timezone = 0
            c.message = b"commit %d salt %d\n" % (i, salt)
            for o in (b, t, c):
                r.object_store.add_object(o)
            commits.append(c.id)
            parent = c.id
        refs = {b"refs/heads/t%03d" % k: commits[k] for k in tips}
        for name, v in refs.items():
            r.refs[name] = v
        r.refs.set_symbolic_ref(b"HEAD", max(refs))
        porcelain.repack(r, write_bitmaps=True)
        if not any(f.endswith(".bitmap") for f in os.listdir(os.path.join(spath, "objects", "pack"))):
            raise HarnessError("porcelain.repack(write_bitmaps=True) wrote no .bitmap file")
        rc, out, err = _git(["rev-list", "--objects", "--all"], cwd=spath)
        if rc:
            raise HarnessError(f"git rev-list on the sender failed: {err!r}")
        want_all = {l.split(b" ")[0] for l in out.split(b"\n") if l}
        if len(want_all) != 3 * n:
            raise HarnessError(f"sender holds {len(want_all)} objects, expected {3 * n}")
        for hi, have in enumerate(sorted(refs)):
            rpath = os.path.join(root, "recv%d" % hi)
            os.makedirs(rpath)
            outcome = "ok"
            with Repo.init_bare(rpath) as recv:
                try:
                    # what the receiver already has: one branch (the sender's answer to this request is judged too)
                    got_refs = r.fetch(recv, determine_wants=lambda refs_, depth=None, h=refs[have]: [h])
                    recv.refs[have] = refs[have]
                    rc, out, err = _git(["rev-list", "--objects", "--all"], cwd=rpath)
                    pre = {l.split(b" ")[0] for l in out.split(b"\n") if l} if rc == 0 else None
                    k = tips[sorted(refs).index(have)]
                    if pre is None or len(pre) != 3 * (k + 1):
                        ctx.fail("C05:bitmap-sender:first-fetch-incomplete", f"fetch of {have!r} (commit {k} of {n}) into an empty receiver reported success but git finds "
                                 f"{'an unreadable history' if pre is None else '%d of %d objects' % (len(pre), 3 * (k + 1))}: {err[:160]!r}", check, case)
                        continue
                    r.fetch(recv)  # everything is wanted; the sender is the handle that generated the bitmaps
                    for name, v in refs.items():
                        recv.refs[name] = v
                except Violation:
                    raise
                except Exception as e:  # a failed transfer is an outcome, not a violation of C05
                    outcome = "failed:" + type(e).__name__
            if outcome == "ok":
                rc, out, err = _git(["rev-list", "--objects", "--all"], cwd=rpath)
                got = {l.split(b" ")[0] for l in out.split(b"\n") if l} if rc == 0 else set()
                if rc or got != want_all:
                    kinds = "+".join(sorted({("commit" if m in commits else "tree/blob") for m in want_all - got})) or "unreadable"
                    ctx.fail(f"C05:bitmap-sender:missing-objects:{kinds}",
                             f"fetch of every branch from the handle that generated the pack bitmaps into a receiver that had {have!r} (commit {k} of {n}) "
                             f"reported success, but {len(want_all - got)} of {len(want_all)} objects are missing (git rev-list rc {rc}: {err[:160]!r}); tips {tips}", check, case)
            ctx.case(h64("bm", n, tuple(tips), salt, have), nontrivial=outcome == "ok" and k + 1 < n,
                     labels=("bitmap-sender", "bitmap-sender:" + outcome.split(":")[0], "objects:%d+" % (100 * (3 * n // 100))),
                     sample=dict(n=n, tips=tips, have=have.decode(), outcome=outcome) if hi == 1 else None)
            shutil.rmtree(rpath, ignore_errors=True)
    finally:
        r.close()
        shutil.rmtree(root, ignore_errors=True)


def _part_bitmap_sender(ctx, k):
    import random

    rnd = random.Random(h64("bm", ctx.seed, k))
    n = rnd.choice([150, 190, 230, 260])
    run = rnd.choice([8, 10, 12])  # tips on the last `run` commits, one after the other
    far = sorted(rnd.sample(range(5, n - 20), rnd.choice([1, 2])))
    exec_bitmap_sender(ctx, dict(n=n, tips=far + list(range(n - run, n)), salt=h64("s", ctx.seed, k) % 1000))


def run(ctx):
    global _T0
    _T0 = time.monotonic()
    try:
        selftest(ctx)
    finally:
        close_env()
    ctx.note("git_version", cgit.version())
    n_raw = ctx.scale(50, 800)
    n_xfer = ctx.scale(100, 1800)
    ctx.parallel(_part, [(n_xfer, n_raw)] * 16)
    ctx.parallel(_part_bitmap_sender, list(range(ctx.scale(4, 64))))
    if ctx.violations:
        try:
            for n, bucket in enumerate(sorted(ctx.violations)):
                if n >= ctx.scale(3, 10) or time.monotonic() - _T0 > ctx.scale(45, 27 * 60):
                    break
                _minimise(ctx, bucket, ctx.scale(25, 200))
        finally:
            close_env()


def replay(ctx, check, case):
    try:
        if check == "raw":
            exec_raw(ctx, case)
        elif check == "xfer":
            exec_xfer(ctx, case)
        elif check == "bitmap-sender":
            exec_bitmap_sender(ctx, case)
        else:
            raise HarnessError(f"unknown check {check!r}")
    finally:
        close_env()
