"""C11 — index file round trip, ordering, checksum, agreement with C git.

Four sub-checks, all judged against the reference model in
``vf/model/c11_index.py`` (written from gitformat-index(5)) and against C git:

``dw``      dulwich writes.  A generated entry set is stored through the public
            ``Index`` API and written.  Oracles, in this order (the first
            failing one names the case): the write succeeds; the file is a
            well-formed index holding exactly the expected entries in git's
            order (reference parser); a fresh ``Index(path)`` returns the same
            entries; ``git ls-files --stage --debug -z`` lists the same entries.
``file``    dulwich reads.  Index bytes made by the reference writer (``dr``) or
            by C git itself (``gw``: update-index --index-info/--add/
            --skip-worktree/--assume-unchanged, add -N, write-tree, untracked
            cache, resolve-undo, sparse index) are read with ``Index(path)``,
            edited through the public API, written back, and the result is
            judged by the reference parser (entries, unknown extensions kept
            byte for byte and in order), by a fresh dulwich read and by C git.
``damage``  every single-byte change and every truncation of a hashed index must
            make ``Index(path)`` raise.

Buckets are ``C11:<stage>:<cause>`` (the same for every sub-check) where *cause* is found by ablation:
the first simplification of the failing input (shorten names >= 0x1000, turn
v4 into v3, mask sizes to 32 bit, ...) that makes this failure go away; if none
does, the behaviour kind (exception type / first differing field) is used.
"""

from __future__ import annotations

import hashlib
import math
import os
from fractions import Fraction

from .. import cgit
from ..core import HarnessError, h64, run_hypothesis
from ..model import c11_index as M
from ..model.c11_index import E

PROPERTY = "C11"
LEVEL = "exploration"
RULE = (
    "Hypothesis-generated index contents built by construction: 0..30 paths from a byte alphabet with non-UTF-8, "
    "control and '/'-neighbour bytes, plus families that force v4 strip lengths {0,1,..,127,128,129,..,16383,16384,"
    "16511,16512}, total name lengths {0xFFE,0xFFF,0x1000,0x1001,..} and sort collisions around '/'; per entry "
    "stat fields from boundary tables (2^31, 2^32-1, 2^32, 2^40, 2^63-1, 2^64-1), times as int / float / (sec,nsec), "
    "modes 100644/100755/120000/160000, assume-valid, skip-worktree, intent-to-add, conflict stages (all non-empty "
    "subsets of {1,2,3}); x version {None,2,3,4} x skip_hash x extensions {TREE,REUC,UNTR,unknown optional, unknown "
    "mandatory}.  Directions: dulwich writes -> reference parser / dulwich / C git read (dw); reference writer or C "
    "git writes (scripted update-index/add -N/write-tree/untracked cache/resolve-undo/sparse index) -> dulwich reads, "
    "edits, rewrites -> reference parser / dulwich / C git read (file); every single-byte flip and truncation of "
    "hashed indexes must be refused (damage).  Non-trivial = at least 2 entries and one of {v4 strip >= 128, name "
    ">= 0xFFF, conflict, extended flag, field >= 2^32, float time, extension present, non-UTF-8 path} (damage: "
    "every mutated file of an index with >= 2 entries); distinct by the hash of the full case."
)
ASSUMPTIONS = [
    "git 2.39.5 `ls-files --stage --debug -z` is the reference reader; the reference parser/writer (from "
    "gitformat-index(5)) is self-tested against it in every run (byte identity with git-written v2/v3/v4 files)",
    "paths are non-empty, NUL-free and never both a file and a directory prefix of another path; modes are the four "
    "git modes; extended flags only use the two defined bits (C git dies on others)",
    "stat fields are compared modulo the on-disk 32-bit widths git itself uses (dev, ino, size, time seconds); "
    "float times to +-1 ns of the exact value of the float",
    "only *unknown* extensions (4 upper-case letters that gitformat-index(5) does not define, non-empty payload) are "
    "required to survive a rewrite; TREE/REUC/UNTR/EOIE/IEOT may be dropped or kept; an unknown lower-case (mandatory) "
    "extension may be refused; split index (`link`) is not generated",
    "the format version is not required to be preserved by a read-modify-write (only honoured when given to Index())",
    "SHA-1 repositories only; git 2.39 cannot write index.skipHash, so null-trailer files come from dulwich and the "
    "reference writer only",
]

M32 = 0xFFFFFFFF
FLAG_VALID = 0x8000
FLAG_EXTENDED = 0x4000
EMPTY_BLOB = b"e69de29bb2d1d6434b8b29ae775ad8c2e48c5391"
SHAS = [hashlib.sha1(b"c11-%d" % i).hexdigest().encode("ascii") for i in range(7)] + [EMPTY_BLOB]
MODES = [0o100644, 0o100755, 0o120000, 0o160000]
# every signature gitformat-index(5) defines; "unknown" means none of these
KNOWN_SIGS = (b"TREE", b"REUC", b"UNTR", b"link", b"sdir", b"FSMN", b"EOIE", b"IEOT")

# a syntactically valid, fully invalidated cache-tree and one resolve-undo record (gitformat-index(5))
TREE_BLOB = b"\0-1 0\n"
REUC_BLOB = b"conf\0" + b"100644\0" + b"0\0" + b"100755\0" + bytes.fromhex(SHAS[0].decode()) + bytes.fromhex(SHAS[1].decode())

# F (fields of one entry as handed to dulwich):
#   (ctime, mtime, dev, ino, mode, uid, gid, size, sha, valid, ext, extbit)
# dw case: dict(version, skip_hash, pre, entries=[(path, (F0, F1, F2, F3))]) - slot index = stage


# ---------------------------------------------------------------------------
# expectation


def norm_time(t):
    """-> (sec mod 2^32, nsec, tolerance)."""
    if isinstance(t, tuple):
        return t[0] & M32, t[1], 0
    if isinstance(t, float):
        fl = math.floor(t)
        ns = int((Fraction(t) - fl) * 10**9)
        return fl & M32, ns, 1
    return t & M32, 0, 0


def expected_entries(case):
    """On-disk expectation of a dw case: (sorted [E], {(path, stage, field)} with +-1 tolerance)."""
    out = []
    tol = set()
    for path, slots in case["entries"]:
        for stage, F in enumerate(slots):
            if F is None:
                continue
            cs, cn, ct = norm_time(F[0])
            ms, mn, mt = norm_time(F[1])
            if ct:
                tol.add((path, stage, "ctime_ns"))
            if mt:
                tol.add((path, stage, "mtime_ns"))
            out.append(E(path, stage, cs, cn, ms, mn, F[2] & M32, F[3] & M32, F[4], F[5], F[6], F[7] & M32,
                         F[8], bool(F[9]), F[10]))
    out.sort(key=M.sort_key)
    return out, tol


def expected_version(case):
    v = case["version"] or 2
    if v < 3 and any(F is not None and F[10] for _, slots in case["entries"] for F in slots):
        v = 3
    return v


def compare(want, got, tol=()):
    """None or (kind, message).  kind: entry-set | field:<name>."""
    wk = {(e.path, e.stage): e for e in want}
    gk = {(e.path, e.stage): e for e in got}
    if len(gk) != len(got):
        return "entry-set", "reader returned the same (path, stage) twice"
    if wk.keys() != gk.keys():
        missing = sorted(wk.keys() - gk.keys())[:3]
        extra = sorted(gk.keys() - wk.keys())[:3]
        sh = lambda ks: [(p[:24] + b"..." + p[-8:] if len(p) > 40 else p, len(p), s) for p, s in ks]
        return "entry-set", f"missing (path, len, stage) {sh(missing)!r}, unexpected {sh(extra)!r} ({len(wk)} wanted, {len(gk)} read)"
    for k in sorted(wk):
        w, g = wk[k], gk[k]
        if w == g:
            continue
        for name in E._fields[2:]:
            a, b = getattr(w, name), getattr(g, name)
            if a == b:
                continue
            if (k[0], k[1], name) in tol and abs(a - b) <= 1:
                continue
            return f"field:{name}", f"{name} of {k[0][-40:]!r} stage {k[1]}: expected {a!r}, got {b!r}"
    return None


# ---------------------------------------------------------------------------
# dulwich side (public API only)


def mk_entry(F):
    from dulwich.index import IndexEntry

    flags = (FLAG_VALID if F[9] else 0) | (FLAG_EXTENDED if (F[10] and F[11]) else 0)
    return IndexEntry(ctime=F[0], mtime=F[1], dev=F[2], ino=F[3], mode=F[4], uid=F[5], gid=F[6], size=F[7],
                      sha=F[8], flags=flags, extended_flags=F[10])


def populate(idx, entries):
    from dulwich.index import ConflictedIndexEntry

    for path, slots in entries:
        if slots[0] is not None:
            idx[path] = mk_entry(slots[0])
        else:
            idx[path] = ConflictedIndexEntry(
                ancestor=mk_entry(slots[1]) if slots[1] is not None else None,
                this=mk_entry(slots[2]) if slots[2] is not None else None,
                other=mk_entry(slots[3]) if slots[3] is not None else None,
            )


def _to_E(path, stage, ent):
    def tm(t):
        if isinstance(t, tuple):
            return t
        s, ns, _ = norm_time(t)
        return s, ns

    cs, cn = tm(ent.ctime)
    ms, mn = tm(ent.mtime)
    if ent.stage().value != stage:
        # the stage bits dulwich reports must agree with the slot it filed the entry under
        stage = 100 + 10 * stage + ent.stage().value
    return E(path, stage, cs, cn, ms, mn, ent.dev, ent.ino, ent.mode, ent.uid, ent.gid, ent.size, bytes(ent.sha),
             bool(ent.flags & FLAG_VALID), ent.extended_flags)


def flatten(idx):
    from dulwich.index import ConflictedIndexEntry

    out = []
    for path, ent in idx.items():
        if isinstance(ent, ConflictedIndexEntry):
            for stage, sub in ((1, ent.ancestor), (2, ent.this), (3, ent.other)):
                if sub is not None:
                    out.append(_to_E(path, stage, sub))
        else:
            out.append(_to_E(path, 0, ent))
    return out


def dulwich_read(path, skip_hash=False):
    """("ok", [E], Index) or ("raise", "ExcType", message).  Any exception is an outcome of the code under test."""
    from dulwich.index import Index

    try:
        idx = Index(path, skip_hash=skip_hash)
        return ("ok", flatten(idx), idx)
    except Exception as e:  # noqa: BLE001 - outcome of the system under test
        return ("raise", type(e).__name__, f"{type(e).__name__}: {str(e)[:200]}")


# ---------------------------------------------------------------------------
# C git side


class _Git:
    """Per-process scratch repository used to run `git ls-files` on arbitrary index files."""

    def __init__(self, ctx):
        self.dir = ctx.scratch.new("repo")
        cgit.init(self.dir)
        self.real_ready = False

    def ls(self, index_path):
        """("ok", [E]) or ("error", first stderr line)."""
        rc, out, err = cgit.git(["ls-files", "--stage", "--debug", "-z"], cwd=self.dir, check=False,
                                extra_env={"GIT_INDEX_FILE": index_path})
        if rc != 0:
            return ("error", _git_err_class(err), err.decode("latin-1")[:300])
        return ("ok", M.parse_ls_files_debug(out))


def _git_err_class(err: bytes) -> str:
    for line in err.split(b"\n"):
        if line.startswith((b"fatal:", b"error:")):
            s = line.split(b":", 1)[1].strip()
            for cut in (b", near path", b" 0x", b" '"):
                if cut in s:
                    s = s.split(cut)[0]
            return "git-" + s.decode("latin-1")[:48].replace(" ", "-")
    return "git-failed"


_git_cache = {}


def _git(ctx) -> _Git:
    k = (os.getpid(), id(ctx))
    g = _git_cache.get(k)
    if g is None or not os.path.isdir(g.dir):
        _git_cache.clear()
        g = _git_cache[k] = _Git(ctx)
    return g


# ---------------------------------------------------------------------------
# check "dw": dulwich writes

PRE_BYTES = M.build_index(2, [E(b"pre-existing", 0, 1, 2, 3, 4, 5, 6, 0o100644, 7, 8, 9, EMPTY_BLOB, False, 0)])


def dw_outcome(ctx, case, with_git=True):
    """First failing oracle of a dw case as (stage, kind, message), or None."""
    from dulwich.index import Index

    path = os.path.join(ctx.scratch.path, "dw.idx")
    for p in (path, path + ".lock"):
        if os.path.exists(p):
            os.unlink(p)
    if case["pre"]:
        with open(path, "wb") as f:
            f.write(PRE_BYTES)
    want, tol = expected_entries(case)
    idx = Index(path, read=False, version=case["version"], skip_hash=case["skip_hash"])
    populate(idx, case["entries"])
    try:
        idx.write()
    except Exception as e:  # noqa: BLE001 - outcome of the system under test
        clobber = None
        if case["pre"]:
            with open(path, "rb") as f:
                now = f.read()
            if now != PRE_BYTES:
                clobber = (f"Index.write() raised {type(e).__name__}: {e} -- and the valid {len(PRE_BYTES)}-byte index that was "
                           f"on disk before the failed write has been replaced by a {len(now)}-byte "
                           f"{'unparseable' if _unparseable(now) else 'different'} file")
        return ("write-raises", type(e).__name__, f"Index.write() raised {type(e).__name__}: {e}", clobber)
    with open(path, "rb") as f:
        data = f.read()

    # 1. format (reference parser)
    bad = judge_bytes(data, want, tol, expected_version(case), "zero" if case["skip_hash"] else "sha1")
    if bad is not None:
        return ("written-format",) + bad
    # 2. dulwich reads its own file
    r = dulwich_read(path)
    if r[0] == "raise":
        return ("read", "raises-" + r[1], "fresh Index(path) of the written file: " + r[2])
    d = compare(want, r[1], tol)
    if d is not None:
        return ("read", d[0], "fresh Index(path) of the written file: " + d[1])
    # 3. C git reads it
    if with_git:
        g = _git(ctx).ls(path)
        if g[0] == "error":
            return ("written-git", g[1], "git ls-files on the file dulwich wrote: " + g[2])
        d = compare(want, g[1], tol)
        if d is not None:
            return ("written-git", d[0], "git ls-files --stage --debug on the file dulwich wrote: " + d[1])
    return None


def _unparseable(data):
    try:
        M.parse_index(data)
        return False
    except M.FormatError:
        return True


def judge_bytes(data, want, tol, version, trailer, exts=None):
    """Reference-parser verdict on index bytes: None or (kind, message)."""
    try:
        P = M.parse_index(data)
        d = compare(want, P.entries, tol)
        fe = None
    except M.FormatError as e:
        P, d, fe = None, None, e
    if fe is not None or d is not None:
        if data[4:8] == b"\0\0\0\4":
            # positive diagnosis: the strip lengths are little-endian base-128 instead of the offset encoding
            try:
                P2 = M.parse_index(data, varint="leb128")
                if compare(want, P2.entries, tol) is None and any(n >= 128 for n in P2.remove_lens):
                    return ("v4-varint-leb128",
                            "version 4 strip lengths >= 128 are written as little-endian base-128 (LEB128), not in the "
                            f"pack offset encoding gitformat-index(5) requires; strict parse: {fe or d[1]}")
            except M.FormatError:
                pass
        if fe is not None:
            return (fe.kind, f"written file is not a well-formed index: {fe}")
        return (d[0], "reference parser on the written file: " + d[1])
    if version is not None and P.version != version:
        return ("version", f"file has version {P.version}, expected {version}")
    if trailer is not None and P.trailer != trailer:
        return ("trailer-" + P.trailer, f"trailer is {P.trailer}, expected {trailer}")
    if exts is not None and P.extensions != exts:
        return ("extensions", f"extensions {[(s, len(x)) for s, x in P.extensions]!r}, expected {[(s, len(x)) for s, x in exts]!r}")
    return None


# -- ablations of a dw case (most specific first) ---------------------------------


def _map_F(case, fn, **over):
    c = dict(case)
    c.update(over)
    c["entries"] = [(p, tuple(None if F is None else fn(F) for F in slots)) for p, slots in case["entries"]]
    return c


def _rename(case, pred, target_len):
    c = dict(case)
    used = {p for p, _ in case["entries"]}
    out = []
    n = 0
    for p, slots in case["entries"]:
        if pred(p):
            while True:
                q = (p[: max(target_len - 8, 1)] + b"~%d" % n)
                n += 1
                if q not in used:
                    break
            used.add(q)
            p = q
        out.append((p, slots))
    c["entries"] = out
    return c


def _in32(t):
    s = t[0] if isinstance(t, tuple) else t
    return 0 <= s <= M32 if not isinstance(s, float) else 0 <= s < 2**32


def _fix_time(t):
    s, ns, _ = norm_time(t)
    return (s, ns)


def _collapse(case):
    c = dict(case)
    c["entries"] = [(p, slots if slots[0] is not None else (next(F for F in slots if F is not None), None, None, None))
                    for p, slots in case["entries"]]
    return c


def dw_ablations(case):
    Fs = [F for _, slots in case["entries"] for F in slots if F is not None]
    paths = sorted(p for p, _ in case["entries"])
    if any(F[7] > M32 for F in Fs):
        yield "size>=2^32", _map_F(case, lambda F: F[:7] + (F[7] & M32,) + F[8:])
    if any(not _in32(F[0]) or not _in32(F[1]) for F in Fs):
        yield "time-outside-32bit", _map_F(case, lambda F: (_fix_time(F[0]), _fix_time(F[1])) + F[2:])
    if any(len(p) >= 0x1000 for p in paths):
        yield "name>=0x1000", _rename(case, lambda p: len(p) >= 0x1000, 0xFFE)
    if case["version"] == 4 and any(n >= 128 for n in M.remove_lens_of(paths)):
        yield "v4-strip>=128", dict(case, version=3)
    if any(len(p) >= 0xFFF for p in paths):
        yield "name>=0xFFF", _rename(case, lambda p: len(p) >= 0xFFF, 0xFFE)
    if case["version"] == 4:
        yield "v4", dict(case, version=3)
    if case["skip_hash"]:
        yield "skip_hash", dict(case, skip_hash=False)
    if any(slots[0] is None for _, slots in case["entries"]):
        yield "conflict-stages", _collapse(case)
    if any(F[10] for F in Fs):
        yield "extended-flags", _map_F(case, lambda F: F[:10] + (0, False))
    if any(F[9] for F in Fs):
        yield "assume-valid", _map_F(case, lambda F: F[:9] + (False,) + F[10:])
    if any(isinstance(F[0], float) or isinstance(F[1], float) for F in Fs):
        yield "float-time", _map_F(case, lambda F: (_fix_time(F[0]), _fix_time(F[1])) + F[2:])
    if any(F[2] > M32 or F[3] > M32 for F in Fs):
        yield "dev-ino>=2^32", _map_F(case, lambda F: F[:2] + (F[2] & M32, F[3] & M32) + F[4:])
    if any(max(F[2], F[3], F[5], F[6], F[7]) >= 2**31 for F in Fs):
        yield "stat>=2^31", _map_F(case, lambda F: F[:2] + (F[2] % 2**31, F[3] % 2**31, F[4], F[5] % 2**31, F[6] % 2**31, F[7] % 2**31) + F[8:])
    if any(any(c >= 0x80 for c in p) for p in paths):
        yield "high-bytes-in-path", _rename(case, lambda p: any(c >= 0x80 for c in p), 40)
    if any(len(p) > 200 for p in paths):
        yield "name>200", _rename(case, lambda p: len(p) > 200, 40)


def _cause(outcome, subject, ablations, rerun):
    """Root-cause key of a failure at stage ``outcome[0]``.

    Simplifications are applied cumulatively in a fixed order (most specific / already known causes first);
    the one after which the oracle of that stage stops failing names the cause.  ``ablations(subject)`` yields
    the (name, simpler subject) pairs applicable to a subject.
    """
    applied = set()
    cur = subject
    for _ in range(40):
        step = next(((n, s2) for n, s2 in ablations(cur) if n not in applied), None)
        if step is None:
            return None
        applied.add(step[0])
        cur = step[1]
        o = rerun(cur)
        if o is None or o[0] != outcome[0]:
            return step[0]
    return None


# kinds that are diagnosed positively from the behaviour -> the cause they stand for
POSITIVE_KINDS = {"v4-varint-leb128": "v4-strip>=128"}


def run_dw(ctx, case, check="dw"):
    o = dw_outcome(ctx, case)
    if o is None:
        return True
    if o[0] == "write-raises" and o[3] is not None:
        # a second, independent defect on the same path: the failed write destroyed the previous index
        ctx.fail("C11:failed-write-replaces-index", o[3], "dw-clobber", case)
    if check == "dw-clobber":
        return False
    if o[1] in POSITIVE_KINDS:
        cause = POSITIVE_KINDS[o[1]]
    else:
        cause = _cause(o, case, dw_ablations, lambda c: dw_outcome(ctx, c, with_git=(o[0] == "written-git"))) or o[1]
    ctx.fail(f"C11:{o[0]}:{cause}", o[2], check, case)
    return False


# ---------------------------------------------------------------------------
# check "file": dulwich reads index bytes (reference-written or git-written), edits, rewrites

ADDED_PATH = b"zz-added-by-check"
ADDED_F = ((1700000001, 5), (1700000002, 6), 2049, 77, 0o100644, 1000, 1000, 12, SHAS[2], False, 0, False)


def _is_optional_unknown(sig):
    return sig not in KNOWN_SIGS and all(65 <= c <= 90 for c in sig)


def _is_mandatory_unknown(sig):
    return sig not in KNOWN_SIGS and not (65 <= sig[0] <= 90)


def apply_edit(idx, edit, entries):
    """Edit ``idx`` through the public API and return the expected entry list."""
    from dulwich.index import IndexEntry

    want = list(entries)
    if edit == "add":
        idx[ADDED_PATH] = mk_entry(ADDED_F)
        want = [e for e in want if e.path != ADDED_PATH]
        want.append(E(ADDED_PATH, 0, 1700000001, 5, 1700000002, 6, 2049, 77, 0o100644, 1000, 1000, 12, SHAS[2], False, 0))
    elif edit == "del" and want:
        victim = sorted(want, key=M.sort_key)[0].path
        del idx[victim]
        want = [e for e in want if e.path != victim]
    elif edit == "skip-worktree":
        for e in sorted(want, key=M.sort_key):
            if e.stage == 0:
                ent = idx[e.path]
                if isinstance(ent, IndexEntry):
                    ent.set_skip_worktree(True)
                    want = [x._replace(ext=x.ext | M.X_SKIP_WORKTREE) if x is e else x for x in want]
                break
    elif edit == "resolve":
        # resolve the first conflict in favour of its lowest stage
        for e in sorted(want, key=M.sort_key):
            if e.stage != 0:
                idx[e.path] = IndexEntry(ctime=(e.ctime_s, e.ctime_ns), mtime=(e.mtime_s, e.mtime_ns), dev=e.dev, ino=e.ino,
                                         mode=e.mode, uid=e.uid, gid=e.gid, size=e.size, sha=e.sha,
                                         flags=FLAG_VALID if e.valid else 0, extended_flags=e.ext)
                want = [x for x in want if x.path != e.path] + [e._replace(stage=0)]
                break
    elif edit in ("resolve-reuse", "restage-reuse"):
        # the same with the entry *objects* the reader produced (they still carry the stage they were read at in
        # .flags): resolve the first conflict in favour of one of its sides / move its sides to other stages
        from dulwich.index import ConflictedIndexEntry

        for e in sorted(want, key=M.sort_key):
            if e.stage == 0:
                continue
            ent = idx[e.path]
            if not isinstance(ent, ConflictedIndexEntry):
                break
            sides = {1: ent.ancestor, 2: ent.this, 3: ent.other}
            have = sorted(k for k, v in sides.items() if v is not None)
            olds = {x.stage: x for x in want if x.path == e.path}
            if edit == "resolve-reuse":
                pick = have[-1]
                idx[e.path] = sides[pick]
                want = [x for x in want if x.path != e.path] + [olds[pick]._replace(stage=0)]
            else:
                # rotate: what was read at the lowest stage goes to the next free higher one
                src = have[0]
                dst = 2 if src == 1 else 3 if src == 2 else 1
                new = {k: v for k, v in sides.items() if k != src}
                new[dst] = sides[src]
                idx[e.path] = ConflictedIndexEntry(ancestor=new.get(1), this=new.get(2), other=new.get(3))
                repl = {k: olds[k] for k in olds if k != src and k != dst}
                repl[dst] = olds[src]._replace(stage=dst)
                want = [x for x in want if x.path != e.path] + list(repl.values())
            break
    want.sort(key=M.sort_key)
    return want


def file_outcome(ctx, data, edit, git_check=True, trusted=None, wskip=False):
    """First failing oracle for index bytes ``data`` as (stage, kind, message), or None.

    ``trusted``: entries C git listed for these bytes (gw) - cross-checks the reference parser.
    ``wskip``: the Index object that reads and rewrites the file is created with skip_hash=True.
    """
    try:
        P = M.parse_index(data)
    except M.FormatError as e:
        raise HarnessError(f"reference parser rejects an index that should be valid: {e}")
    if trusted is not None and compare(trusted, P.entries) is not None:
        raise HarnessError(f"reference parser disagrees with git ls-files: {compare(trusted, P.entries)}")
    mandatory_unknown = any(_is_mandatory_unknown(s) for s, _ in P.extensions)
    path = os.path.join(ctx.scratch.path, "file.idx")
    for p in (path, path + ".lock"):
        if os.path.exists(p):
            os.unlink(p)
    with open(path, "wb") as f:
        f.write(data)
    if git_check and trusted is None:
        g = _git(ctx).ls(path)
        if mandatory_unknown:
            if g[0] != "error":
                raise HarnessError("git accepted an unknown mandatory extension")
        elif g[0] == "error" or compare(P.entries, g[1]) is not None:
            raise HarnessError(f"reference writer and git disagree: {g[1:]!r} / {compare(P.entries, g[1]) if g[0] == 'ok' else ''}")

    r = dulwich_read(path, skip_hash=wskip)
    if r[0] == "raise":
        if mandatory_unknown:
            ctx.label("file:unknown-mandatory-extension-refused")
            return None
        return ("read", "raises-" + r[1], f"Index(path) on a valid version {P.version} index: " + r[2])
    d = compare(P.entries, r[1])
    if d is not None:
        return ("read", d[0], f"Index(path) on a valid version {P.version} index: " + d[1])

    idx = r[2]
    want = apply_edit(idx, edit, P.entries)
    try:
        idx.write()
    except Exception as e:  # noqa: BLE001 - outcome of the system under test
        return ("write-raises", type(e).__name__, f"Index.write() after reading a valid index and edit {edit!r}: {type(e).__name__}: {e}")
    with open(path, "rb") as f:
        data2 = f.read()
    bad = judge_bytes(data2, want, (), None, "zero" if wskip else "sha1")
    if bad is not None:
        return ("written-format",) + bad
    P2 = M.parse_index(data2)
    need_v = 3 if any(e.ext for e in want) else 2
    if P2.version < need_v:
        return ("written-format", "version", f"rewritten file has version {P2.version} but carries extended flags")
    if P2.version != P.version and not (P.version == 2 and P2.version == 3 and need_v == 3):
        ctx.label("file:rewrite-changed-version")
    keep = [(s, x) for s, x in P.extensions if _is_optional_unknown(s) and x]
    have = [(s, x) for s, x in P2.extensions if any(s == k for k, _ in keep)]
    if have != keep:
        hs, ks = [s for s, _ in have], [s for s, _ in keep]
        kind = "unknown-extension-dropped" if len(hs) < len(ks) else "unknown-extension-reordered" if sorted(hs) == sorted(ks) and hs != ks else "unknown-extension-changed"
        return ("written-extensions", kind, f"unknown extensions before {[(s, len(x)) for s, x in keep]!r}, after rewrite {[(s, len(x)) for s, x in P2.extensions]!r}")
    r = dulwich_read(path)
    if r[0] == "raise":
        return ("read", "raises-" + r[1], "fresh Index(path) of the rewritten file: " + r[2])
    d = compare(want, r[1])
    if d is not None:
        return ("read", d[0], "fresh Index(path) of the rewritten file: " + d[1])
    if git_check and not any(_is_mandatory_unknown(s) for s, _ in P2.extensions):
        g = _git(ctx).ls(path)
        if g[0] == "error":
            return ("written-git", g[1], "git ls-files on the file dulwich rewrote: " + g[2])
        d = compare(want, g[1])
        if d is not None:
            return ("written-git", d[0], "git ls-files on the file dulwich rewrote: " + d[1])
    return None


def file_ablations(data, edit="none"):
    """Simpler valid index files derived from ``data`` (via the reference model), most specific first."""
    P = M.parse_index(data)
    zero = P.trailer == "zero"

    def build(version=None, entries=None, extensions=None, skip_hash=None):
        ents = P.entries if entries is None else entries
        v = P.version if version is None else version
        if v < 3 and any(e.ext for e in ents):
            v = 3
        return M.build_index(v, ents, P.extensions if extensions is None else extensions, zero if skip_hash is None else skip_hash)

    def renamed(pred, target):
        used = {e.path for e in P.entries}
        m = {}
        n = 0
        for p in sorted(used):
            if pred(p):
                while True:
                    q = p[: max(target - 8, 1)] + b"~%d" % n
                    n += 1
                    if q not in used:
                        break
                used.add(q)
                m[p] = q
        return [e._replace(path=m.get(e.path, e.path)) for e in P.entries]

    paths = sorted({e.path for e in P.entries})
    if any(not all(65 <= c <= 90 for c in s) for s, _ in P.extensions):
        yield "lowercase-extension-signature", build(extensions=[(s, x) for s, x in P.extensions if all(65 <= c <= 90 for c in s)])
    if any(not x for s, x in P.extensions):
        yield "empty-extension", build(extensions=[(s, x) for s, x in P.extensions if x])
    if P.extensions:
        yield "extensions", build(extensions=[])
    if any(len(p) >= 0x1000 for p in paths):
        yield "name>=0x1000", build(entries=renamed(lambda p: len(p) >= 0x1000, 0xFFE))
    after = sorted(set(paths) | {ADDED_PATH}) if edit == "add" else paths  # the rewrite may create new neighbours
    if P.version == 4 and any(n >= 128 for n in P.remove_lens + M.remove_lens_of(after)):
        yield "v4-strip>=128", build(version=3)
    if any(len(p) >= 0xFFF for p in paths):
        yield "name>=0xFFF", build(entries=renamed(lambda p: len(p) >= 0xFFF, 0xFFE))
    if P.version == 4:
        yield "v4", build(version=3)
    if zero:
        yield "null-trailer", build(skip_hash=False)
    if any(e.stage for e in P.entries):
        seen = set()
        ents = []
        for e in P.entries:
            if e.path not in seen:
                seen.add(e.path)
                ents.append(e._replace(stage=0))
        yield "conflict-stages", build(entries=ents)
    if any(e.ext for e in P.entries):
        yield "extended-flags", build(entries=[e._replace(ext=0) for e in P.entries], version=2 if P.version == 3 else P.version)
    if any(e.valid for e in P.entries):
        yield "assume-valid", build(entries=[e._replace(valid=False) for e in P.entries])
    if any(max(e[2:8] + e[9:12]) >= 2**31 for e in P.entries):
        yield "stat>=2^31", build(entries=[e._replace(**{k: getattr(e, k) % 2**31 for k in
                                   ("ctime_s", "mtime_s", "dev", "ino", "uid", "gid", "size")}) for e in P.entries])
    if any(any(c >= 0x80 for c in p) for p in paths):
        yield "high-bytes-in-path", build(entries=renamed(lambda p: any(c >= 0x80 for c in p), 40))
    if any(len(p) > 200 for p in paths):
        yield "name>200", build(entries=renamed(lambda p: len(p) > 200, 40))


def run_file(ctx, data, edit, git_check=True, trusted=None, check="file", wskip=False):
    o = file_outcome(ctx, data, edit, git_check, trusted, wskip)
    if o is None:
        return True
    if o[1] in POSITIVE_KINDS:
        cause = POSITIVE_KINDS[o[1]]
    else:
        gc = git_check and o[0] == "written-git"
        cause = _cause(o, data, lambda d: file_ablations(d, edit), lambda d: file_outcome(ctx, d, edit, git_check=gc, wskip=wskip))
        if cause is None and wskip:
            o2 = file_outcome(ctx, data, edit, git_check=gc, wskip=False)
            if o2 is None or o2[0] != o[0]:
                cause = "skip_hash-writer"
        cause = cause or o[1]
    ctx.fail(f"C11:{o[0]}:{cause}", o[2], check, dict(data=data, edit=edit, git=bool(git_check), wskip=bool(wskip)))
    return False


# ---------------------------------------------------------------------------
# check "damage"

MASKS = (0x01, 0x80, 0x20, 0xFF)


def damaged(data, op):
    kind, a, b = op
    if kind == "flip":
        return data[:a] + bytes([data[a] ^ b]) + data[a + 1:]
    if kind == "cut":
        return data[:a]
    raise HarnessError(f"unknown damage {op!r}")


def judge_damage(ctx, data, op, base_entries=None, check="damage"):
    """``data``: a valid hashed index; ``op``: ("flip", pos, mask) | ("cut", new_length, 0)."""
    bad = damaged(data, op)
    if bad == data:
        return True
    path = os.path.join(ctx.scratch.path, "damage.idx")
    with open(path, "wb") as f:
        f.write(bad)
    # the reader's own skip_hash setting (index.skipHash / feature.manyFiles in the repository that opens the file) says how
    # *it* writes; a file that carries a real checksum is verified all the same.  Every fourth damage is read that way too.
    rskip = (op[1] + op[2]) % 4 == 0
    r = dulwich_read(path)
    if r[0] == "raise" and rskip:
        r = dulwich_read(path, skip_hash=True)
        ctx.label("damage:reader-with-skip_hash")
    else:
        rskip = False
    if r[0] == "raise":
        return True
    if base_entries is None:
        base_entries = M.parse_index(data).entries
    same = compare(base_entries, r[1]) is None
    try:
        M.parse_index(bad)
        return True  # e.g. a trailer that became all zero: not damage by the format's own rules
    except M.FormatError as e:
        kind = e.kind
    # root cause by behaviour: does the acceptance depend on the reader running into the end of the file?
    # Certainly if the file was cut or its structure claims more bytes than exist; otherwise find out by
    # appending bytes that can be neither an extension signature nor a NUL terminator.
    cls = "hash-mismatch-ignored"
    if op[0] == "cut" or kind.endswith("truncated"):
        cls = "reader-runs-into-eof"
    elif kind == "trailer":
        pass  # the structure is intact, so any reader arrives at a complete 20-byte trailer that does not match
    else:
        with open(path, "wb") as f:
            f.write(bad + b"\xaa" * 70000)
        if dulwich_read(path, skip_hash=rskip)[0] == "raise":
            cls = "reader-runs-into-eof"
    if rskip:
        cls += ":reader-with-skip_hash"
    what = f"truncating the {len(data)}-byte file to {op[1]} bytes" if op[0] == "cut" else f"xor {op[2]:#04x} into byte {op[1]} of {len(data)}"
    ctx.fail(
        f"C11:damage-accepted:{cls}",
        f"{what} is not detected: Index(path{', skip_hash=True' if rskip else ''}) returns {'the original' if same else 'DIFFERENT'} entries without an error "
        f"({[e.path[-30:] for e in r[1]][:4]!r})",
        check,
        dict(data=data, op=op),
    )
    return False


# ---------------------------------------------------------------------------
# generators


def _strategies():
    from hypothesis import strategies as st

    alpha = [b"a", b"b", b"A", b"z", b".", b"-", b"_", b"0", b"~", b" ", b"\x80", b"\xff", b"\xc3\xa9", b"\n", b"\t",
             b"\x01", b"*", b"\\", b'"', b"\xe2\x82\xac", b"a", b"b"]
    comp = st.lists(st.sampled_from(alpha), min_size=1, max_size=4).map(b"".join)
    plain = st.lists(comp, min_size=1, max_size=4).map(b"/".join)
    prefix = st.one_of(st.just(b""), st.sampled_from([b"", b"d/", b"src/main/", b"\xff/"]), plain.map(lambda p: p + b"/"))
    small_strip = [0, 0, 1, 2, 5, 17, 100, 126, 127, 127]
    big_strip = [128, 128, 129, 130, 200, 255, 256, 300, 1000, 2000]
    huge_strip = [16383, 16384, 16385, 16511, 16512, 16513]
    fills = [b"m", b"a", b"\x01", b"\xfe", b"-"]
    collide = [b"a", b"a.b", b"a-", b"a0", b"a/b", b"ab", b"a b", b"a/b/c", b"a\xff", b"A", b"a.", b"a/0", b"a-/x", b"a\x01"]

    devino = [0, 1, 2049, 66306, 2**31 - 1, 2**31, 2**32 - 1, 2**32, 2**32 + 7, 2**40 + 3, 2**63 - 1, 2**64 - 1]
    uidgid = [(0, 0), (1000, 1000), (1, 65534), (2**31, 2**31 - 1), (2**32 - 1, 2**32 - 1), (501, 20)]
    size_ok = [0, 1, 9, 4096, 65536, 2**31 - 1, 2**31, 2**32 - 1]
    size_big = [2**32, 2**32 + 1, 2**40, 2**63 - 1]
    times = [0, 1, 1700000000, (1700000000, 123456789), (0, 999999999), (2**31, 1), (2**32 - 1, 999999999), 1700000000.5,
             1234567890.123456, 1e-09, 3e-07, 4294967295.75, 2**31 + 0.25, (1, 0), 1700000000.123456789, 0.999999999]
    times_bad = [-1, (-5, 0), -1.5, 2**32, (2**32 + 3, 5), 8589934592.5, (-1, 999999999)]
    st_time = st.one_of(
        st.sampled_from(times),
        st.sampled_from(times),
        st.tuples(st.integers(0, M32), st.integers(0, 999999999)),
        st.floats(min_value=0.0, max_value=4294967295.9999995, allow_nan=False),
        st.integers(0, M32),
    )
    flagsets = [(False, 0, False)] * 10 + [(True, 0, False), (True, 0, False), (False, 0x4000, False), (False, 0x4000, True),
                                           (False, 0x2000, True), (False, 0x2000, False), (True, 0x4000, True), (False, 0x6000, True)]

    @st.composite
    def fields(draw, big_size=False, bad_time=False):
        ct = draw(st.sampled_from(times_bad)) if bad_time and draw(st.booleans()) else draw(st_time)
        mt = draw(st.sampled_from(times_bad)) if bad_time and draw(st.booleans()) else draw(st_time)
        dev = draw(st.sampled_from(devino))
        ino = draw(st.sampled_from(devino))
        uid, gid = draw(st.sampled_from(uidgid))
        size = draw(st.sampled_from(size_big if big_size and draw(st.booleans()) else size_ok))
        valid, ext, extbit = draw(st.sampled_from(flagsets))
        return (ct, mt, dev, ino, draw(st.sampled_from(MODES)), uid, gid, size, draw(st.sampled_from(SHAS)), valid, ext, extbit)

    @st.composite
    def pathset(draw, big_strip_ok, fff_ok, x1000_ok):
        paths = set()
        for _ in range(draw(st.integers(0, 6))):
            paths.add(draw(plain))
        for _ in range(draw(st.integers(0, 3))):
            kind = draw(st.sampled_from(["long", "strip", "long", "collide"] if fff_ok or x1000_ok else ["strip", "strip", "strip", "long", "collide"]))
            pre = draw(prefix)
            if kind == "strip":
                table = small_strip + (big_strip if big_strip_ok else []) + (huge_strip[:2] + huge_strip if x1000_ok and big_strip_ok else [])
                R = draw(st.sampled_from(table))
                fill = draw(st.sampled_from(fills))
                if R == 0:
                    paths.update([pre + b"k", pre + b"k.x"])
                else:
                    paths.update([pre + fill * R, pre + bytes([fill[0] + 1]) + b"q"])
            elif kind == "long":
                table = ([0xFFE, 0xFFF, 0xFFD, 0xFFE, 0xFFF, 1000] if fff_ok else
                         [0x1000, 0x1001, 0xFFF, 0x1000, 0x1002, 0x1FFF, 0x2000, 5000] if x1000_ok else [200, 1000, 300])
                L = draw(st.sampled_from(table))
                fill = draw(st.sampled_from(fills))
                if len(pre) >= L:
                    pre = b""
                base = pre + fill * (L - len(pre))
                shape = draw(st.sampled_from(["one", "sibling", "child", "one"]))
                paths.add(base)
                if shape == "sibling":
                    paths.add(base[:-1] + bytes([fill[0] + 1]))
                elif shape == "child":
                    paths.add(base + b".x")
            else:
                for c in draw(st.lists(st.sampled_from(collide), min_size=2, max_size=6, unique=True)):
                    paths.add(pre + c)
        # no path may also be a directory prefix of another one
        drop = set()
        for p in paths:
            i = p.find(b"/")
            while i >= 0:
                if p[:i] in paths:
                    drop.add(p[:i])
                i = p.find(b"/", i + 1)
        return sorted(p for p in paths if p not in drop and p and not p.endswith(b"/") and b"//" not in p and not p.startswith(b"/"))[:30]

    @st.composite
    def dw_case(draw, x1000_pct=9):
        prof = draw(st.sampled_from(range(100)))
        big_size = prof < 5
        bad_time = 5 <= prof < 8
        x1000_ok = 8 <= prof < 8 + x1000_pct
        fff_ok = prof % 4 == 1 and not x1000_ok
        big_strip_ok = prof % 3 == 0 or x1000_ok
        version = draw(st.sampled_from([None, 2, 3, 4, 4, 4]))
        skip_hash = draw(st.sampled_from([False, False, True]))
        paths = draw(pathset(big_strip_ok, fff_ok, x1000_ok))
        entries = []
        for p in paths:
            mask = draw(st.sampled_from([0] * 17 + [1, 2, 3, 4, 5, 6, 7, 7]))
            if mask == 0:
                slots = (draw(fields(big_size, bad_time)), None, None, None)
            else:
                slots = (None,) + tuple(draw(fields(big_size, bad_time)) if mask & (1 << i) else None for i in range(3))
            entries.append((p, slots))
        return dict(version=version, skip_hash=skip_hash, pre=draw(st.booleans()), entries=entries)

    unknown_sig = st.sampled_from([b"ZZZZ", b"ABCD", b"QQQQ", b"EOIX", b"FSMX", b"XTRA"])
    payload = st.one_of(st.binary(min_size=1, max_size=40), st.sampled_from([b"\0", b"DIRC", b"\0" * 20, b"TREE\0\0\0\0", b"x" * 300]))
    ext = st.one_of(
        st.tuples(unknown_sig, payload),
        st.tuples(unknown_sig, payload),
        st.just((b"TREE", TREE_BLOB)),
        st.just((b"REUC", REUC_BLOB)),
        st.tuples(st.just(b"UNTR"), payload),
    )

    @st.composite
    def dr_case(draw):
        c = draw(dw_case(x1000_pct=30))
        # names >= 0x1000 and strips >= 16384 are allowed here (bad_ok) but sizes / times are on-disk values anyway
        ents, _ = expected_entries(c)
        version = c["version"] or draw(st.sampled_from([2, 3]))
        if version < 3 and any(e.ext for e in ents):
            version = 3
        exts = draw(st.lists(ext, max_size=3, unique_by=lambda t: t[0]))
        if draw(st.sampled_from(range(20))) == 13:  # (Hypothesis favours the first elements: keep rare things in the middle)
            exts.append((b"zzzz", b"mandatory"))
        edit = draw(st.sampled_from(["none", "none", "add", "del", "skip-worktree", "resolve", "resolve-reuse", "restage-reuse"]))
        return dict(version=version, skip_hash=c["skip_hash"], entries=ents, extensions=exts, edit=edit,
                    wskip=draw(st.sampled_from([False, False, True])))

    # -- scripts for C git -----------------------------------------------------
    galpha = [b"a", b"b", b"A", b"z", b".", b"-", b"_", b"0", b"~", b" ", b"\x80", b"\xff", b"\xc3\xa9", b"\n", b"\t", b"*", b'"', b"a"]

    def gitsafe(c):
        if c in (b".", b"..") or c.lower().startswith(b".git") or c.lower().startswith(b"git~"):
            return b"x" + c
        return c

    gcomp = st.lists(st.sampled_from(galpha), min_size=1, max_size=4).map(b"".join).map(gitsafe)
    gplain = st.lists(gcomp, min_size=1, max_size=4).map(b"/".join)

    @st.composite
    def gw_case(draw):
        prof = draw(st.sampled_from(range(100)))
        version = draw(st.sampled_from([2, 3, 4, 4]))
        paths = set()
        for _ in range(draw(st.integers(0, 6))):
            paths.add(draw(gplain))
        for _ in range(draw(st.integers(0, 2))):
            kind = draw(st.sampled_from(["long", "strip", "collide"] if prof % 3 == 1 else ["strip", "strip", "long", "collide"]))
            pre = draw(st.sampled_from([b"", b"d/", b"src/main/"]))
            if kind == "strip":
                R = draw(st.sampled_from(small_strip + (big_strip if prof % 3 == 0 else []) + (huge_strip if prof % 12 == 0 else [])))
                fill = draw(st.sampled_from([b"m", b"a", b"-"]))
                paths.update([pre + b"k", pre + b"k.x"] if R == 0 else [pre + fill * R, pre + bytes([fill[0] + 1]) + b"q"])
            elif kind == "long":
                L = draw(st.sampled_from([0xFFF, 0xFFE, 0x1000, 0xFFF, 0x1001, 0x2000] if prof % 3 == 1 else [200, 1000]))
                base = pre + b"m" * (L - len(pre))
                paths.add(base)
                if draw(st.booleans()):
                    paths.add(base[:-1] + b"n")
            else:
                for c in draw(st.lists(st.sampled_from([c for c in collide if c != b"a."]), min_size=2, max_size=5, unique=True)):
                    paths.add(pre + c)
        recs = []
        for p in sorted(paths)[:24]:
            mask = draw(st.sampled_from([0] * 8 + [1, 3, 5, 6, 7, 2]))
            for stage in ([0] if mask == 0 else [i + 1 for i in range(3) if mask & (1 << i)]):
                recs.append((draw(st.sampled_from(MODES)), draw(st.integers(0, 3)), stage, p))
        return dict(
            version=version,
            records=recs,
            real=draw(st.lists(st.sampled_from([b"real/a", b"real/b.sh", b"real/l", b"real/sub/c"]), max_size=3, unique=True)),
            ita=draw(st.lists(st.sampled_from([b"ita/x", b"ita/y"]), max_size=2, unique=True)),
            skipwt=draw(st.lists(st.integers(0, 23), max_size=3)),
            valid=draw(st.lists(st.integers(0, 23), max_size=2)),
            tree=draw(st.booleans()),
            reuc=draw(st.booleans()),
            untr=draw(st.sampled_from([False, False, True])),
            eoie=draw(st.sampled_from([False, True])),
            edit=draw(st.sampled_from(["none", "none", "add", "del", "skip-worktree", "resolve", "resolve-reuse", "restage-reuse"])),
            wskip=draw(st.sampled_from([False, False, False, True])),
        )

    return dw_case(), dr_case(), gw_case()


# ---------------------------------------------------------------------------
# labels


def _labels_entries(ents, version, prefix=""):
    paths = sorted({e.path for e in ents})
    strips = M.remove_lens_of(paths)
    mx = max(strips, default=0)
    L = [f"version:{version}"]
    feats = set()
    if version == 4 and mx >= 128:
        feats.add("v4-strip>=128")
        if mx >= 16384:
            feats.add("v4-strip>=16384")
    ml = max((len(p) for p in paths), default=0)
    if any(len(p) == 0xFFE for p in paths):
        L.append("name==0xFFE")
    if any(len(p) == 0xFFF for p in paths):
        feats.add("name==0xFFF")
    if ml >= 0x1000:
        feats.add("name>=0x1000")
    if any(e.stage for e in ents):
        feats.add("conflict")
        bypath = {}
        for e in ents:
            bypath.setdefault(e.path, set()).add(e.stage)
        if any(0 not in s and s != {1, 2, 3} for s in bypath.values()):
            L.append("conflict-missing-stage")
    if any(e.ext & M.X_SKIP_WORKTREE for e in ents):
        feats.add("skip-worktree")
    if any(e.ext & M.X_INTENT_TO_ADD for e in ents):
        feats.add("intent-to-add")
    if any(e.valid for e in ents):
        L.append("assume-valid")
    for p in paths:
        try:
            p.decode("utf-8")
        except UnicodeDecodeError:
            feats.add("non-utf8-path")
            break
    if not ents:
        L.append("empty-index")
    return L + sorted(feats), feats


def _labels_dw(case):
    ents, tol = expected_entries(case)
    L, feats = _labels_entries(ents, case["version"])
    Fs = [F for _, slots in case["entries"] for F in slots if F is not None]
    if any(F[2] > M32 or F[3] > M32 for F in Fs):
        feats.add("dev/ino>=2^32")
    if any(F[7] > M32 for F in Fs):
        feats.add("size>=2^32")
    if any(not _in32(F[0]) or not _in32(F[1]) for F in Fs):
        feats.add("time-outside-32bit")
    if tol:
        feats.add("float-time")
    if case["skip_hash"]:
        L.append("skip_hash")
    if case["pre"]:
        L.append("overwrites-existing-index")
    return [l for l in L if l not in feats] + sorted(feats), len(ents) >= 2 and bool(feats)


# ---------------------------------------------------------------------------
# parts


def _t_dw(ctx, case):
    labels, nt = _labels_dw(case)
    ctx.case(("dw", repr(case)), nontrivial=nt, labels=["dw"] + ["dw:" + l for l in labels],
             sample=dict(check="dw", version=case["version"], skip_hash=case["skip_hash"], entries=case["entries"][:3]) if nt else None)
    run_dw(ctx, case)


def _t_dr(ctx, c):
    data = M.build_index(c["version"], c["entries"], c["extensions"], c["skip_hash"])
    labels, feats = _labels_entries(c["entries"], c["version"])
    for s, _ in c["extensions"]:
        labels.append("ext:" + (s.decode() if s in KNOWN_SIGS else "unknown-mandatory" if _is_mandatory_unknown(s) else "unknown-optional"))
    if c["skip_hash"]:
        labels.append("null-trailer")
    labels.append("edit:" + c["edit"])
    if c["wskip"]:
        labels.append("rewrite-with-skip_hash")
    nt = len(c["entries"]) >= 2 and bool(feats or c["extensions"])
    ctx.case(("dr", h64(data), c["edit"], c["wskip"]), nontrivial=nt, labels=["dr"] + ["dr:" + l for l in labels],
             sample=dict(check="file(reference-written)", version=c["version"], extensions=c["extensions"], edit=c["edit"],
                         entries=[tuple(e) for e in c["entries"][:2]]) if nt and c["extensions"] else None)
    run_file(ctx, data, c["edit"], wskip=c["wskip"])


class _GitWorld:
    """Worktree with a few real files and blobs, for scripted index construction by C git."""

    def __init__(self, ctx):
        self.dir = ctx.scratch.new("gw")
        cgit.init(self.dir)
        os.makedirs(os.path.join(self.dir, "real", "sub"))
        os.makedirs(os.path.join(self.dir, "ita"))
        for name, content, mode in (("real/a", b"a\n", 0o644), ("real/b.sh", b"#!/bin/sh\n", 0o755), ("real/sub/c", b"c" * 5000, 0o644),
                                    ("ita/x", b"x", 0o644), ("ita/y", b"", 0o644)):
            p = os.path.join(self.dir, name)
            with open(p, "wb") as f:
                f.write(content)
            os.chmod(p, mode)
        os.symlink("a", os.path.join(self.dir, "real", "l"))
        out = cgit.out(["hash-object", "-w", "--stdin-paths"], cwd=self.dir, input=b"real/a\nreal/b.sh\nreal/sub/c\nita/x\n")
        self.blobs = out.split()
        self.n = 0

    def build(self, s):
        """Run the script; returns (index bytes, [E] as listed by git) or None."""
        self.n += 1
        ip = os.path.join(self.dir, ".git", "case.idx")
        for p in (ip, ip + ".lock"):
            if os.path.exists(p):
                os.unlink(p)
        env = {"GIT_INDEX_FILE": ip}
        cfg = ["-c", "index.recordEndOfIndexEntries=" + ("true" if s["eoie"] else "false"), "-c", "index.version=%d" % s["version"]]
        if s["untr"]:
            cfg += ["-c", "core.untrackedCache=true"]

        def g(args, input=None):
            return cgit.git(cfg + args, cwd=self.dir, input=input, check=False, extra_env=env)[0]

        inp = b"".join(b"%o %s %d\t%s\0" % (m, self.blobs[b] if m != 0o160000 else SHAS[b], st, p) for m, b, st, p in s["records"])
        rc = g(["update-index", "--index-version", str(s["version"]), "-z", "--index-info"], input=inp)
        if s["real"]:
            g(["update-index", "--add", "--"] + [p.decode() for p in s["real"]])
        if s["ita"]:
            g(["add", "-N", "--"] + [p.decode() for p in s["ita"]])
        stage0 = [r[3] for r in s["records"] if r[2] == 0] + list(s["real"])
        conflicted = sorted({r[3] for r in s["records"] if r[2] != 0})
        if s["reuc"] and conflicted:
            g(["update-index", "--cacheinfo", "100644,%s,%s" % (self.blobs[0].decode(), os.fsdecode(conflicted[0]))])
        if s["tree"]:
            g(["write-tree"])
        if s["untr"]:
            g(["update-index", "--force-untracked-cache"])
            g(["status", "--porcelain"])
        if stage0:
            sw = sorted({stage0[i % len(stage0)] for i in s["skipwt"]})
            if sw:
                g(["update-index", "--skip-worktree", "-z", "--stdin"], input=b"".join(p + b"\0" for p in sw))
            va = sorted({stage0[i % len(stage0)] for i in s["valid"]})
            if va:
                g(["update-index", "--assume-unchanged", "-z", "--stdin"], input=b"".join(p + b"\0" for p in va))
        if not os.path.exists(ip):
            return None
        with open(ip, "rb") as f:
            data = f.read()
        rc, out, err = cgit.git(["ls-files", "--stage", "--debug", "-z"], cwd=self.dir, check=False, extra_env=env)
        if rc != 0:
            raise HarnessError(f"git cannot list the index it wrote: {err[:200]!r}")
        return data, M.parse_ls_files_debug(out)


_gw_cache = {}


def _world(ctx) -> _GitWorld:
    k = (os.getpid(), id(ctx))
    w = _gw_cache.get(k)
    if w is None or not os.path.isdir(w.dir):
        _gw_cache.clear()
        w = _gw_cache[k] = _GitWorld(ctx)
    return w


def _t_gw(ctx, s):
    built = _world(ctx).build(s)
    if built is None:
        ctx.label("gw:git-wrote-no-index")
        return
    data, listed = built
    P = M.parse_index(data)
    labels, feats = _labels_entries(listed, P.version)
    for sig, _ in P.extensions:
        labels.append("ext:" + sig.decode("latin-1"))
    if any(e.dev or e.ino for e in listed):
        labels.append("real-stat")
    labels.append("edit:" + s["edit"])
    if s["wskip"]:
        labels.append("rewrite-with-skip_hash")
    nt = len(listed) >= 2 and bool(feats or P.extensions)
    ctx.case(("gw", repr(s)), nontrivial=nt, labels=["gw"] + ["gw:" + l for l in labels],
             sample=dict(check="file(git-written)", script={k: v for k, v in s.items() if k != "records"}, records=s["records"][:3]) if nt and len(P.extensions) > 1 else None)
    run_file(ctx, data, s["edit"], trusted=listed, wskip=s["wskip"])


def sparse_index_scenario(ctx):
    """`git sparse-checkout set` in cone mode with a sparse index: returns the index bytes."""
    d = ctx.scratch.new("sparse")
    cgit.init(d)
    for sub in ("in", "out/deep", "out2"):
        os.makedirs(os.path.join(d, sub))
    for name in ("top", "in/a", "out/deep/b", "out/c", "out2/d"):
        with open(os.path.join(d, name), "wb") as f:
            f.write(name.encode())
    cgit.git(["add", "."], cwd=d)
    cgit.git(["commit", "-q", "-m", "x"], cwd=d)
    out = {}
    cgit.git(["sparse-checkout", "init", "--cone", "--no-sparse-index"], cwd=d)
    cgit.git(["sparse-checkout", "set", "in"], cwd=d)
    with open(os.path.join(d, ".git", "index"), "rb") as f:
        out["sparse-checkout-cone"] = f.read()
    cgit.git(["sparse-checkout", "init", "--cone", "--sparse-index"], cwd=d)
    cgit.git(["sparse-checkout", "set", "in"], cwd=d)
    with open(os.path.join(d, ".git", "index"), "rb") as f:
        out["sparse-index"] = f.read()
    return out


def _part(ctx, item):
    import time  # only to report where the budget goes (evidence note), never used by an oracle

    kind, n = item
    t0 = time.time()
    try:
        _part_inner(ctx, kind, n)
    finally:
        ctx.note("cpu_seconds_" + kind, round(time.time() - t0, 1))


def _part_inner(ctx, kind, n):
    dw, dr, gw = _strategies()
    if kind == "dw":
        run_hypothesis(ctx, dw, _t_dw, max_examples=n, max_rounds=ctx.scale(3, 5))
    elif kind == "dr":
        run_hypothesis(ctx, dr, _t_dr, max_examples=n, max_rounds=ctx.scale(3, 5))
    elif kind == "gw":
        run_hypothesis(ctx, gw, _t_gw, max_examples=n, max_rounds=ctx.scale(3, 5))
    elif kind == "scenario":
        for name, data in sparse_index_scenario(ctx).items():
            P = M.parse_index(data)
            sigs = [s for s, _ in P.extensions]
            if name == "sparse-index" and b"sdir" not in sigs:
                raise HarnessError("git did not write a sparse index")
            for edit in ("none", "add"):
                ctx.case(("scenario", name, edit), nontrivial=True,
                         labels=["gw", "gw:scenario:" + name] + ["gw:ext:" + s.decode() for s in sigs],
                         sample=dict(check="file(git-written)", scenario=name, extensions=sigs, edit=edit))
                # a sparse index lists directories; `ls-files` would expand it, so C git is not consulted here
                run_file(ctx, data, edit, git_check=(name != "sparse-index"))
    elif kind == "damage":
        _part_damage(ctx, n)
    else:
        raise HarnessError(kind)


def _damage_bases():
    """Small hashed index files (reference-written) covering v2/v3/v4, conflicts, extended flags, extensions."""
    def e(path, stage=0, **kw):
        d = dict(path=path, stage=stage, ctime_s=1700000000, ctime_ns=123, mtime_s=1700000001, mtime_ns=456, dev=2049, ino=77,
                 mode=0o100644, uid=1000, gid=1000, size=12, sha=SHAS[1], valid=False, ext=0)
        d.update(kw)
        return E(**d)

    bases = []
    for v in (2, 3, 4):
        ents = [e(b"Makefile"), e(b"doc/readme.txt", size=2**31), e(b"src/a.c", valid=True), e(b"src/conflict", 1), e(b"src/conflict", 3, mode=0o100755)]
        bases.append((v, ents, []))
        bases.append((v, ents[:2], [(b"ZZZZ", b"payload-of-unknown-extension")]))
        bases.append((v, [e(b"some/longer/name/here.txt"), e(b"x" * 130), e(b"y")], [(b"TREE", TREE_BLOB), (b"ABCD", b"\0\1\2\3")]))
        if v >= 3:
            bases.append((v, [e(b"a", ext=M.X_SKIP_WORKTREE), e(b"b", ext=M.X_INTENT_TO_ADD, sha=EMPTY_BLOB), e(b"c")], []))
    bases.append((2, [], []))
    bases.append((2, [e(b"only")], []))
    return bases


def _part_damage(ctx, item):
    nshards, shard, every = item
    for bi, (v, ents, exts) in enumerate(_damage_bases()):
        data = M.build_index(v, ents, exts)
        base = M.parse_index(data).entries
        ops = [("cut", n, 0) for n in range(len(data))]
        for pos in range(len(data)):
            masks = MASKS if every else (MASKS[(pos + bi) % 4],)
            ops += [("flip", pos, m) for m in masks]
        for i, op in enumerate(ops):
            if i % nshards != shard:
                continue
            ctx.case(("damage", bi, op), nontrivial=len(ents) >= 2, labels=["damage", "damage:" + op[0], f"damage:version:{v}"],
                     sample=dict(check="damage", version=v, entries=len(ents), extensions=[s for s, _ in exts], op=op) if i == 700 + shard else None)
            judge_damage(ctx, data, op, base)


# ---------------------------------------------------------------------------


def selftest(ctx):
    """The reference model must agree with C git byte for byte."""
    cgit.selfcheck()
    for n, enc in ((0, "00"), (127, "7f"), (128, "8000"), (129, "8001"), (16511, "ff7f"), (16512, "808000")):
        if M.encode_offset_varint(n).hex() != enc or M.decode_offset_varint(bytes.fromhex(enc), 0) != (n, len(enc) // 2):
            raise HarnessError(f"offset varint self-test failed for {n}")
    g = _git(ctx)
    names = [b"a", b"a-", b"a0", b"d/" + b"x" * 130, b"e", b"d/" + b"x" * 4100, b"dz", b"k/" + b"y" * 16600, b"l", b"\xff\xfe",
             b"sp ace\n", b"d/" + b"w" * 4093, b"d/" + b"w" * 4092]
    for v in (2, 3, 4):
        ip = os.path.join(ctx.scratch.path, f"self-{v}.idx")
        if os.path.exists(ip):
            os.unlink(ip)
        env = {"GIT_INDEX_FILE": ip}
        inp = b"".join(b"100644 %s 0\t%s\0" % (EMPTY_BLOB, n) for n in names)
        inp += b"100755 %s 1\tconf\0" % SHAS[0] + b"120000 %s 3\tconf\0" % SHAS[1]
        cgit.git(["update-index", "--index-version", str(v), "-z", "--index-info"], cwd=g.dir, input=inp, extra_env=env)
        if v >= 3:
            cgit.git(["update-index", "--skip-worktree", "e"], cwd=g.dir, extra_env=env)
        cgit.git(["update-index", "--assume-unchanged", "l"], cwd=g.dir, extra_env=env)
        with open(ip, "rb") as f:
            data = f.read()
        try:
            P = M.parse_index(data)
        except M.FormatError as e:
            raise HarnessError(f"reference parser rejects a git-written v{v} index: {e}")
        listed = g.ls(ip)
        if listed[0] != "ok" or compare(listed[1], P.entries) is not None or P.version != v or len(P.entries) != len(names) + 2:
            raise HarnessError(f"reference parser disagrees with git ls-files on a git-written v{v} index")
        if M.build_index(P.version, P.entries, P.extensions) != data:
            raise HarnessError(f"reference writer does not reproduce git's v{v} index byte for byte")
    ctx.note("reference_model_selftest", "byte-identical with git-written v2/v3/v4 indexes")


def run(ctx):
    selftest(ctx)
    ctx.note("git_version", cgit.version())
    n_dw = ctx.scale(170, 8000)  # per shard (x16)
    n_dr = ctx.scale(100, 4000)
    n_gw = ctx.scale(50, 1500)
    items = []
    for _ in range(16):
        items += [("dw", n_dw)]
    for _ in range(16):
        items += [("dr", n_dr)]
    for _ in range(16):
        items += [("gw", n_gw)]
    for k in range(16):
        items += [("damage", (16, k, ctx.thorough))]
    items.append(("scenario", 0))
    ctx.parallel(_part, items)
    # coverage-guided campaigns over raw index bytes with the "file" oracle inside the target (E3)
    from .. import fuzz

    fuzz.run_campaigns(ctx, "vf.fuzzt.c11", [("index_file", ctx.scale(15000, 1000000), ctx.scale(8, 16))])


def replay(ctx, check, case):
    if check in ("dw", "dw-clobber"):
        case = dict(case)
        case["entries"] = [(p, tuple(None if F is None else tuple(F) for F in slots)) for p, slots in case["entries"]]
        run_dw(ctx, case, check)
    elif check == "file":
        run_file(ctx, case["data"], case["edit"], git_check=case.get("git", True), wskip=case.get("wskip", False))
    elif check == "damage":
        judge_damage(ctx, case["data"], tuple(case["op"]))
    elif check.startswith("fuzz"):
        from .. import fuzz

        fuzz.replay(ctx, case, check)
    else:
        raise HarnessError(f"unknown check {check!r}")
