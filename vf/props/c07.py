"""C07 — lock files give mutual exclusion and all-or-nothing replacement."""

from __future__ import annotations

import gc
import itertools
import os
import shutil
import warnings

from .. import interpose
from ..core import HarnessError, h64
from ..interpose import DFSExplorer, FaultPolicy, FixedSchedule, Interposer, RecordPolicy, Scheduler, make_fault

PROPERTY = "C07"
LEVEL = "fault_enumeration"
NEEDS_RUST = False
RULE = (
    "(a) protocol level: 2-3 actors each run a program over GitFile on the same path (open for write, 0..2 writes, then "
    "close | abort | drop the handle | with-block raising; optionally a second session); every interleaving at "
    "interposed file-system-call granularity is enumerated by stateless DFS (exhaustive for 2 actors, preemption bound "
    "2 for 3 actors).  After every event the harness reads the protected file: it must be the initial content or a "
    "complete buffer of some actor; the trace is replayed against an ownership model of the lock inode: no actor may "
    "remove or rename a lock file created by another.  (b) caller level: every dulwich routine that writes through the "
    "lock protocol is run once to learn its events, then re-run with each event in {write, flush, fsync, chmod, "
    "replace, rename, close} failing with ENOSPC / EIO / EPERM / KeyboardInterrupt: every protected file must hold its "
    "old or its complete new content and no *.lock may remain after the caller dropped its references.  (c) caller "
    "level, two actors: 20 pairs of routines that go for the same protected file (refs, HEAD, packed-refs, index, "
    "config, shallow) run under every schedule with <= 1 preemption plus DFS with bound 2 under a cap plus seeded random "
    "placements; after every event each protected file under .git must hold a content that some sequential execution of "
    "the two routines leaves there (complete old or complete new), no *.lock may remain, no actor may take or remove a "
    "lock another holds.  (d) sessions that take a lock and have nothing to write (read-only locked_ref, failed "
    "compare-and-swap, add_if_new on an existing ref, with-block raising) must leave every protected file byte-identical "
    "and no lock behind.  Non-trivial: a "
    "schedule with a switch while some actor holds the lock / a fault at an event after the lock was taken; distinct "
    "by (programs, schedule) or (routine, state, k, fault)."
)
ASSUMPTIONS = [
    "interleavings are between Python-level file-system calls of in-process actors; POSIX rename/O_EXCL semantics of the local file system",
    "releasing a lock in __del__ counts (dulwich's declared mechanism): lock absence is checked after gc.collect()",
    "routines are driven with fixed timestamps so the undisturbed run defines the complete new content of every file",
]

ENDINGS = ["close", "abort", "drop", "raise"]


# ---------------------------------------------------------------------------
# (a) protocol level


def _session(path, tag, n_writes, ending):
    from dulwich.file import GitFile

    chunks = [b"%s-part%d\n" % (tag, i) for i in range(n_writes)]
    if ending == "raise":
        try:
            with GitFile(path, "wb") as f:
                for c in chunks:
                    f.write(c)
                raise RuntimeError("boom")
        except RuntimeError:
            return "aborted"
    f = GitFile(path, "wb")
    for c in chunks:
        f.write(c)
    if ending == "close":
        f.close()
        return "committed"
    if ending == "abort":
        f.abort()
        return "aborted"
    # drop: the handle goes away without close/abort (ResourceWarning + abort in __del__)
    with warnings.catch_warnings():
        warnings.simplefilter("ignore", ResourceWarning)
        del f
        gc.collect()
    return "dropped"


def make_program(path, actor, sessions):
    def prog():
        from dulwich.file import FileLocked

        out = []
        for i, (n_writes, ending) in enumerate(sessions):
            tag = b"%s%d" % (actor.encode(), i)
            try:
                out.append(_session(path, tag, n_writes, ending))
            except FileLocked:
                out.append("locked")
        return out

    return prog


def full_buffers(programs):
    vals = set()
    for actor, sessions in programs:
        for i, (n_writes, ending) in enumerate(sessions):
            tag = b"%s%d" % (actor.encode(), i)
            vals.add(b"".join(b"%s-part%d\n" % (tag, k) for k in range(n_writes)))
    return vals


def check_trace(ctx, trace, p, case, results):
    """Ownership model of the lock inode, driven by the recorded events."""
    lock = p + ".lock"
    owner = None
    for ev in trace:
        if ev.exc:
            continue
        if ev.op == "open-w" and ev.path == lock and ev.extra == "excl":
            if owner is not None:
                ctx.fail("C07:protocol:two-holders", f"{ev.actor} obtained the lock while {owner} holds it", "protocol", case)
            owner = ev.actor
        elif ev.path == lock and ev.op in ("remove", "replace", "rename"):
            if owner is not None and owner != ev.actor:
                ctx.fail(f"C07:protocol:foreign-lock-{ev.op}",
                         f"{ev.actor} did {ev.op} on the lock file created by {owner}", "protocol", case)
            owner = None


def run_protocol(ctx, programs, strategy, initial, case, check="protocol"):
    """One execution.  programs: [(actor, sessions)]."""
    d = ctx.scratch.new("p")
    p = os.path.join(d, "target")
    if initial is not None:
        with open(p, "wb") as f:
            f.write(initial)
    allowed = full_buffers(programs) | {initial}
    lockp = p + ".lock"
    sched = Scheduler(strategy, visible=lambda ev: ev.op == "start" or ev.path in (p, lockp) or ev.path2 in (p, lockp))
    ip = Interposer(d, sched)
    real_open = open
    bad = []

    orig_before = sched.before

    def before(ip_, ev):
        # state after the previous event = what a reader sees now
        try:
            with real_open(p, "rb") as f:
                cur = f.read()
        except FileNotFoundError:
            cur = None
        if cur not in allowed and not bad:
            bad.append((cur, ev.brief(d)))
        orig_before(ip_, ev)

    sched.before = before
    ip.install()
    try:
        results = sched.run(ip, [(a, make_program(p, a, s)) for a, s in programs])
    finally:
        ip.uninstall()
    gc.collect()
    try:
        with open(p, "rb") as f:
            final = f.read()
    except FileNotFoundError:
        final = None
    if bad:
        ctx.fail("C07:protocol:partial-content", f"reader saw {bad[0][0]!r} in the protected file before {bad[0][1]}", check, case)
    if final not in allowed:
        ctx.fail("C07:protocol:partial-content", f"final content {final!r} is not a complete buffer", check, case)
    if os.path.exists(lockp):
        ctx.fail("C07:protocol:lock-left-behind", "lock file still exists after every actor finished and handles were collected", check, case)
    for a, r in results.items():
        if r[0] != "ok":
            ctx.fail(f"C07:protocol:unexpected-exception:{r[1]}", f"actor {a} raised {r[1]}: {r[2]}", check, case)
    check_trace(ctx, ip.trace, p, case, results)
    # committed sessions: the last committer's buffer must be the final content
    commits = [ev.actor for ev in ip.trace if ev.op == "replace" and ev.path == lockp and not ev.exc]
    switched_while_locked = _switch_while_locked(ip.trace, lockp)
    shutil.rmtree(d, ignore_errors=True)
    return dict(decisions=len(sched.decisions), commits=len(commits), switched=switched_while_locked, trace=[e.brief(d) for e in ip.trace])


def _switch_while_locked(trace, lockp):
    held = False
    prev = None
    for ev in trace:
        if prev is not None and ev.actor != prev and held:
            return True
        if ev.path == lockp and ev.op == "open-w" and not ev.exc:
            held = True
        elif ev.path == lockp and ev.op in ("remove", "replace") and not ev.exc:
            held = False
        prev = ev.actor
    return False


def _explore(ctx, item):
    programs, initial, bound, max_runs = item
    ex = DFSExplorer(bound, max_runs=max_runs)
    n = 0
    while ex.more():
        strat = ex.next_run()
        case = dict(programs=programs, initial=initial, bound=bound)
        info = run_protocol(ctx, programs, strat, initial, case)
        case["schedule"] = ex.current_schedule()
        sched = tuple(ex.current_schedule())
        ex.done_run()
        n += 1
        ctx.case(h64("proto", repr(programs), initial, sched), nontrivial=info["switched"],
                 labels=("protocol", f"actors={len(programs)}", "commits=%d" % min(info["commits"], 3)),
                 sample=dict(programs=programs, schedule=list(sched), trace=info["trace"]) if info["switched"] and info["commits"] >= 2 and n % 50 == 7 else None)
    if not ex.exhausted:
        ctx.label("protocol-exploration-truncated")
    else:
        ctx.label("protocol-exploration-exhaustive")


def protocol_items(ctx):
    two = []
    single = [[(1, "close")], [(2, "close")], [(0, "close")], [(1, "abort")], [(1, "drop")], [(1, "raise")]]
    double = [[(1, "close"), (1, "close")], [(1, "abort"), (2, "close")]]
    progs = single + double
    pairs = list(itertools.combinations_with_replacement(range(len(progs)), 2))
    if not ctx.thorough:
        # quick: the pairs that involve a committing actor with something else, plus one double-session pair
        pairs = [(0, 0), (0, 1), (0, 3), (0, 4), (0, 5), (1, 1), (0, 6), (6, 6), (1, 7), (2, 0)]
    for i, j in pairs:
        for initial in ([b"old\n"] if not ctx.thorough else [b"old\n", None]):
            two.append(([("A", progs[i]), ("B", progs[j])], initial, 99, ctx.scale(6000, 200000)))
    three = []
    triples = [(0, 0, 0), (0, 1, 3), (0, 0, 4)] if not ctx.thorough else list(itertools.combinations_with_replacement(range(6), 3))
    for i, j, k in triples:
        three.append(([("A", progs[i]), ("B", progs[j]), ("C", progs[k])], b"old\n", ctx.scale(2, 3), ctx.scale(2500, 60000)))
    return two + three


# ---------------------------------------------------------------------------
# (b) caller level: fault injection in every routine that writes through the protocol

FAULT_OPS = {"write", "flush", "fsync", "chmod", "replace", "rename", "close-w"}
FAULT_KINDS = ["ENOSPC", "EIO", "EPERM", "KeyboardInterrupt"]
ZERO = b"0" * 40


def _mk_repo(path):
    """A small deterministic repository with loose + packed refs, an index and objects."""
    from dulwich.objects import Blob, Commit, Tree
    from dulwich.repo import Repo

    os.mkdir(path)
    r = Repo.init(path)
    ids = []
    parent = None
    for i in range(3):
        b = Blob.from_string(b"content %d\n" % i)
        t = Tree()
        t.add(b"f", 0o100644, b.id)
        c = Commit()
        c.tree = t.id
        c.parents = [parent] if parent else []
        c.author = c.committer = b"A <a@example.com>"
        c.author_time = c.commit_time = 1000 + i
        c.author_timezone = c.commit_timezone = 0
        c.message = b"c%d\n" % i
        for o in (b, t, c):
            r.object_store.add_object(o)
        ids.append(c.id)
        parent = c.id
    r.refs[b"refs/heads/master"] = ids[2]
    r.refs[b"refs/heads/a"] = ids[0]
    r.refs[b"refs/heads/b"] = ids[1]
    r.refs[b"refs/tags/t"] = ids[1]
    r.refs.pack_refs(all=True)
    r.refs[b"refs/heads/a"] = ids[1]  # loose over packed
    r.refs[b"refs/heads/loose"] = ids[0]
    r.close()
    return ids


def routines(ids):
    """name -> fn(repo_path).  Each opens its own Repo (no shared caches) and uses fixed data."""
    from dulwich.config import ConfigFile
    from dulwich.index import Index, IndexEntry
    from dulwich.objects import Blob
    from dulwich.repo import Repo

    def with_repo(fn):
        def run(path):
            r = Repo(path)
            try:
                return fn(r)
            finally:
                r.close()

        return run

    def index_write(r):
        idx = r.open_index()
        for i, name in enumerate([b"a", b"dir/b", b"z" * 40]):
            idx[name] = IndexEntry(ctime=(1000, 0), mtime=(1000, 0), dev=1, ino=2 + i, mode=0o100644, uid=0, gid=0, size=10 + i,
                                   sha=b"%040x" % (i + 1), flags=0, extended_flags=0)
        idx.write()

    def config_write(r):
        c = r.get_config()
        c.set((b"core",), b"bare", b"false")
        c.set((b"remote", b"origin"), b"url", b"https://example.com/x.git")
        c.write_to_path()

    def config_write_new(r):
        c = ConfigFile()
        c.set((b"a",), b"b", b"c" * 5000)
        c.write_to_path(os.path.join(r.controldir(), "extra.cfg"))

    return {
        "Index.write": with_repo(index_write),
        "refs.set_if_equals(loose)": with_repo(lambda r: r.refs.set_if_equals(b"refs/heads/loose", ids[0], ids[2])),
        "refs.set_if_equals(packed)": with_repo(lambda r: r.refs.set_if_equals(b"refs/heads/b", ids[1], ids[2])),
        "refs.add_if_new": with_repo(lambda r: r.refs.add_if_new(b"refs/heads/new/x", ids[2])),
        "refs.remove_if_equals(loose+packed)": with_repo(lambda r: r.refs.remove_if_equals(b"refs/heads/a", ids[1])),
        "refs.remove_if_equals(packed)": with_repo(lambda r: r.refs.remove_if_equals(b"refs/tags/t", ids[1])),
        "refs.set_symbolic_ref": with_repo(lambda r: r.refs.set_symbolic_ref(b"HEAD", b"refs/heads/b")),
        "refs.add_packed_refs": with_repo(lambda r: r.refs.add_packed_refs({b"refs/heads/loose": ids[0], b"refs/tags/t": None})),
        "refs.pack_refs(all)": with_repo(lambda r: r.refs.pack_refs(all=True)),
        "ConfigFile.write_to_path": with_repo(config_write),
        "ConfigFile.write_to_path(new)": with_repo(config_write_new),
        "object_store.add_object": with_repo(lambda r: r.object_store.add_object(Blob.from_string(b"fresh object\n" * 50))),
        "object_store.add_objects(pack)": with_repo(lambda r: r.object_store.add_objects([(Blob.from_string(b"packed %d\n" % i), None) for i in range(4)])),
        "Repo._put_named_file": with_repo(lambda r: r._put_named_file("description", b"a description\n" * 20)),  # (anchored in the property; skipped if absent)
        "object_store.add_alternate_path": with_repo(lambda r: r.object_store.add_alternate_path("/nonexistent/objects")),
        "object_store.write_commit_graph": with_repo(lambda r: r.object_store.write_commit_graph([ids[2]])),
        "Repo.update_shallow": with_repo(lambda r: r.update_shallow({ids[1]}, None)),
        "object_store.write_midx": with_repo(lambda r: (r.object_store.pack_loose_objects(), r.object_store.write_midx())),
        "Pack.keep": with_repo(lambda r: (r.object_store.pack_loose_objects(), [p.keep(b"kept by test") for p in r.object_store.packs])),
        "refs.__setitem__": with_repo(lambda r: r.refs.__setitem__(b"refs/heads/master", ids[0])),
        "refs.__delitem__": with_repo(lambda r: r.refs.__delitem__(b"refs/heads/loose")),
        # the same single-ref updates with a reflog entry (written under the ref's lock, before the lock is committed)
        "refs.set_if_equals(loose,reflog)": with_repo(lambda r: r.refs.set_if_equals(b"refs/heads/loose", ids[0], ids[2], message=b"test: update")),
        "refs.set_if_equals(packed,reflog)": with_repo(lambda r: r.refs.set_if_equals(b"refs/heads/b", ids[1], ids[2], message=b"test: update")),
        "refs.add_if_new(reflog)": with_repo(lambda r: r.refs.add_if_new(b"refs/heads/new/x", ids[2], message=b"test: create")),
        "refs.set_symbolic_ref(reflog)": with_repo(lambda r: r.refs.set_symbolic_ref(b"HEAD", b"refs/heads/b", message=b"test: switch")),
        "refs.remove_if_equals(loose,reflog)": with_repo(lambda r: r.refs.remove_if_equals(b"refs/heads/loose", ids[0], message=b"test: delete")),
    }


# routines that update exactly one ref file: when the call fails, that file holds its old content ("a write that fails or is
# aborted leaves the old content in place")
SINGLE_TARGET = {
    "refs.set_if_equals(loose)": ".git/refs/heads/loose", "refs.set_if_equals(packed)": ".git/refs/heads/b",
    "refs.add_if_new": ".git/refs/heads/new/x", "refs.set_symbolic_ref": ".git/HEAD", "refs.__setitem__": ".git/refs/heads/master",
    "refs.set_if_equals(loose,reflog)": ".git/refs/heads/loose", "refs.set_if_equals(packed,reflog)": ".git/refs/heads/b",
    "refs.add_if_new(reflog)": ".git/refs/heads/new/x", "refs.set_symbolic_ref(reflog)": ".git/HEAD",
}
# Deletions are not in the list: a removal has no content to put in place, dulwich removes the file and then logs/releases, so a
# fault in those last steps reports an error for a deletion that has happened (first version of this rule flagged that: it asks
# more than the statement does - removed).


def file_map(root):
    out = {}
    for d, _, files in os.walk(root):
        for f in files:
            p = os.path.join(d, f)
            try:
                with open(p, "rb") as fh:
                    out[os.path.relpath(p, root)] = fh.read()
            except (FileNotFoundError, IsADirectoryError):
                pass
    return out


def _is_temp(rel):
    b = os.path.basename(rel)
    return b.endswith(".lock") or b.startswith("tmp_pack_") or b.startswith("tmp") or ".tmp" in b


def run_fault(ctx, template, ids, name, k, kind, before, after, check="fault"):
    """Run routine `name` on a fresh copy of the template with the k-th faultable event failing."""
    case = dict(routine=name, k=k, fault=kind)
    work = ctx.scratch.new("f")
    repo = os.path.join(work, "repo")
    shutil.copytree(template, repo, symlinks=True)
    pol = FaultPolicy(k, make_fault(kind), FAULT_OPS)
    ip = Interposer(repo, pol)
    fn = routines(ids)[name]
    outcome = None
    ip.install()
    try:
        with warnings.catch_warnings():
            warnings.simplefilter("ignore", ResourceWarning)
            try:
                ip.run_single("A", lambda: fn(repo))
                outcome = "returned"
            except KeyboardInterrupt:
                outcome = "raised:KeyboardInterrupt"
            except Exception as e:
                outcome = "raised:" + type(e).__name__
    finally:
        ip.uninstall()
    fn = None
    pol.exc = None  # the injected exception's traceback keeps the failed frames (and their GitFile) alive
    with warnings.catch_warnings():
        warnings.simplefilter("ignore", ResourceWarning)
        gc.collect()
    fired = pol.fired
    now = file_map(repo)
    lock_taken = False
    if fired is not None:
        for ev in ip.trace:
            if ev is fired:
                break
            if ev.op == "open-w" and ev.path.endswith(".lock") and not ev.exc:
                lock_taken = True
    # 1. every protected file holds its old or its complete new content
    for rel in sorted(set(before) | set(after) | set(now)):
        if _is_temp(rel):
            continue
        if rel.startswith(".git/logs/"):
            # reflogs are appended to under the ref's lock (as in git), not replaced as a whole: a failed append may leave a
            # created-but-empty or shorter log; what is demanded of them is only that the *ref* is not updated (rule 1b)
            continue
        cur = now.get(rel)
        if cur != before.get(rel) and cur != after.get(rel):
            what = "partial/foreign content" if cur is not None else "file vanished"
            ctx.fail(f"C07:fault:{name}:{what.split('/')[0].replace(' ', '-')}",
                     f"{name}: after {kind} at event {k} ({fired.brief(repo) if fired else '-'}; routine {outcome}) "
                     f"{rel} holds neither its old nor its complete new content ({what}; {len(cur) if cur is not None else '-'} bytes, "
                     f"old {len(before[rel]) if rel in before else '-'}, new {len(after[rel]) if rel in after else '-'})", check, case)
            break
    # 1b. a single-ref update that failed has not happened
    tgt = SINGLE_TARGET.get(name)
    if tgt is not None and outcome.startswith("raised") and fired is not None and now.get(tgt) != before.get(tgt):
        ctx.fail(f"C07:fault:{name}:failed-call-changed-the-file",
                 f"{name}: {kind} at event {k} ({fired.brief(repo)}) made the call fail ({outcome}), yet {tgt} "
                 f"{'now holds the new content' if now.get(tgt) is not None else 'is gone'}", check, case)
    # 2. the lock is released once the caller has dropped its references
    left = [rel for rel in now if rel.endswith(".lock") and rel not in before]
    if left and fired is not None:
        ctx.fail(f"C07:fault:{name}:lock-left-behind", f"{name}: after {kind} at event {k} ({fired.brief(repo)}; routine {outcome}) "
                 f"lock file(s) {left} remain after references were dropped", check, case)
    shutil.rmtree(work, ignore_errors=True)
    return fired, lock_taken, outcome


def _prepare(ctx):
    work = ctx.scratch.new("tmpl")
    template = os.path.join(work, "repo")
    ids = _mk_repo(template)
    return template, ids


def _profile(ctx, template, ids, name):
    """Undisturbed run: number of faultable events and the complete new content of every file."""
    work = ctx.scratch.new("prof")
    repo = os.path.join(work, "repo")
    shutil.copytree(template, repo, symlinks=True)
    ip = Interposer(repo, RecordPolicy())
    ip.install()
    try:
        ip.run_single("A", lambda: routines(ids)[name](repo))
    finally:
        ip.uninstall()
    gc.collect()
    n = sum(1 for ev in ip.trace if ev.op in FAULT_OPS)
    after = file_map(repo)
    # file contents are keyed relative to the repo root; rewrite absolute scratch paths out of the comparison
    shutil.rmtree(work, ignore_errors=True)
    return n, after, [e.brief(repo) for e in ip.trace if e.mutating]


def _part_faults(ctx, item):
    name, r, m = item  # this worker handles events k with k % m == r
    template, ids = _prepare(ctx)
    before = file_map(template)
    n, after, brief = _profile(ctx, template, ids, name)
    if n == 0:
        raise HarnessError(f"routine {name} produced no faultable events: interposer does not see its writes")
    if r == 0:
        ctx.label("routine:" + name)
    for k in range(r, n, m):
        for kind in FAULT_KINDS:
            fired, lock_taken, outcome = run_fault(ctx, template, ids, name, k, kind, before, after)
            if fired is None:
                raise HarnessError(f"{name}: fault {k} did not fire (non-deterministic event sequence?)")
            ctx.case(h64("fault", name, k, kind), nontrivial=lock_taken,
                     labels=("fault", "fault:" + kind, "fault-op:" + fired.op, "outcome:" + outcome.split(":")[0]),
                     sample=dict(routine=name, k=k, fault=kind, at=fired.brief(""), outcome=outcome, events=brief) if k == 1 and kind == "EIO" else None)


# ---------------------------------------------------------------------------
# (c) caller level, two actors: routines that write the same protected file, interleaved


def _locked_session(name, action):
    def run(r):
        from dulwich.refs import locked_ref

        with locked_ref(r.refs, name) as l:
            l.get()
            if action == "delete":
                l.delete()
            elif action is not None:
                l.set(action)
    return run


def caller_pairs(ids):
    """name -> [fnA(repo), fnB(repo)]: two routines that go for the same lock-protected file."""
    from dulwich.index import IndexEntry

    def idx(tag):
        def run(r):
            i = r.open_index()
            i[b"by-" + tag] = IndexEntry(ctime=(1000, 0), mtime=(1000, 0), dev=1, ino=7, mode=0o100644, uid=0, gid=0, size=len(tag), sha=b"%040x" % len(tag), flags=0, extended_flags=0)
            i.write()
        return run

    def cfg(key, val):
        def run(r):
            c = r.get_config()
            c.set((b"user",), key, val)
            c.write_to_path()
        return run

    new, loose, packed, both = b"refs/heads/new/x", b"refs/heads/loose", b"refs/heads/b", b"refs/heads/a"
    R = lambda f: f  # noqa: E731
    return {
        "add_if_new|add_if_new": [R(lambda r: r.refs.add_if_new(new, ids[2])), R(lambda r: r.refs.add_if_new(new, ids[0]))],
        "add_if_new|__setitem__": [R(lambda r: r.refs.add_if_new(new, ids[2])), R(lambda r: r.refs.__setitem__(new, ids[0]))],
        "add_if_new|set_if_equals(create)": [R(lambda r: r.refs.add_if_new(new, ids[2])), R(lambda r: r.refs.set_if_equals(new, None, ids[1]))],
        "set_if_equals|set_if_equals(loose)": [R(lambda r: r.refs.set_if_equals(loose, ids[0], ids[2])), R(lambda r: r.refs.set_if_equals(loose, ids[0], ids[1]))],
        "set_if_equals|remove_if_equals(loose)": [R(lambda r: r.refs.set_if_equals(loose, ids[0], ids[2])), R(lambda r: r.refs.remove_if_equals(loose, ids[0]))],
        "set_if_equals|set_if_equals(packed)": [R(lambda r: r.refs.set_if_equals(packed, ids[1], ids[2])), R(lambda r: r.refs.set_if_equals(packed, ids[1], ids[0]))],
        "set_if_equals|remove_if_equals(loose+packed)": [R(lambda r: r.refs.set_if_equals(both, ids[1], ids[2])), R(lambda r: r.refs.remove_if_equals(both, ids[1]))],
        "remove_if_equals|remove_if_equals(packed)": [R(lambda r: r.refs.remove_if_equals(packed, ids[1])), R(lambda r: r.refs.remove_if_equals(b"refs/tags/t", ids[1]))],
        "set_symbolic_ref|set_symbolic_ref": [R(lambda r: r.refs.set_symbolic_ref(b"HEAD", b"refs/heads/b")), R(lambda r: r.refs.set_symbolic_ref(b"HEAD", b"refs/heads/a"))],
        "set_symbolic_ref|__setitem__(HEAD)": [R(lambda r: r.refs.set_symbolic_ref(b"HEAD", b"refs/heads/b")), R(lambda r: r.refs.__setitem__(b"HEAD", ids[0]))],
        "add_if_new|pack_refs": [R(lambda r: r.refs.add_if_new(new, ids[2])), R(lambda r: r.refs.pack_refs(all=True))],
        "set_if_equals|pack_refs": [R(lambda r: r.refs.set_if_equals(loose, ids[0], ids[2])), R(lambda r: r.refs.pack_refs(all=True))],
        "remove_if_equals|pack_refs": [R(lambda r: r.refs.remove_if_equals(both, ids[1])), R(lambda r: r.refs.pack_refs(all=True))],
        "add_packed_refs|remove_if_equals(packed)": [R(lambda r: r.refs.add_packed_refs({loose: ids[0]})), R(lambda r: r.refs.remove_if_equals(b"refs/tags/t", ids[1]))],
        "locked_ref(set)|set_if_equals": [R(_locked_session(loose, ids[2])), R(lambda r: r.refs.set_if_equals(loose, ids[0], ids[1]))],
        "locked_ref(read-only)|set_if_equals": [R(_locked_session(loose, None)), R(lambda r: r.refs.set_if_equals(loose, ids[0], ids[1]))],
        "locked_ref(delete)|add_if_new": [R(_locked_session(loose, "delete")), R(lambda r: r.refs.add_if_new(loose, ids[1]))],
        "Index.write|Index.write": [idx(b"A"), idx(b"BB")],
        "ConfigFile.write_to_path|ConfigFile.write_to_path": [cfg(b"name", b"A"), cfg(b"email", b"b@example.com")],
        "update_shallow|update_shallow": [R(lambda r: r.update_shallow({ids[1]}, None)), R(lambda r: r.update_shallow({ids[0]}, None))],
    }


def giving_up(ids):
    """name -> fn(repo): sessions that take a lock and release it without a change to make.  Every protected file must be
    byte-identical afterwards ("the old content stays in place and the lock is released")."""
    from dulwich.refs import locked_ref

    loose, packed, both, absent = b"refs/heads/loose", b"refs/heads/b", b"refs/heads/a", b"refs/heads/nope"

    def read_only(name):
        def run(r):
            with locked_ref(r.refs, name) as l:
                l.get()
                l.ensure_equals(ids[2])
        return run

    def raising(name):
        def run(r):
            try:
                with locked_ref(r.refs, name) as l:
                    l.set(ids[2])
                    raise RuntimeError("caller changed its mind")
            except RuntimeError:
                pass
        return run

    return {
        "locked_ref(read-only,loose)": read_only(loose),
        "locked_ref(read-only,packed)": read_only(packed),
        "locked_ref(read-only,loose+packed)": read_only(both),
        "locked_ref(set-then-raise,loose)": raising(loose),
        "locked_ref(set-then-raise,packed)": raising(packed),
        "set_if_equals(stale,loose)": lambda r: r.refs.set_if_equals(loose, ids[2], ids[1]),
        "set_if_equals(stale,packed)": lambda r: r.refs.set_if_equals(packed, ids[2], ids[0]),
        "set_if_equals(stale,absent)": lambda r: r.refs.set_if_equals(absent, ids[2], ids[0]),
        "add_if_new(existing,loose)": lambda r: r.refs.add_if_new(loose, ids[2]),
        "add_if_new(existing,packed)": lambda r: r.refs.add_if_new(packed, ids[2]),
        "remove_if_equals(stale,loose)": lambda r: r.refs.remove_if_equals(loose, ids[2]),
        "remove_if_equals(stale,packed)": lambda r: r.refs.remove_if_equals(packed, ids[2]),
        "remove_if_equals(stale,loose+packed)": lambda r: r.refs.remove_if_equals(both, ids[2]),
    }


def run_giving_up(ctx, template, ids, name, check="giving-up"):
    case = dict(routine=name)
    work = ctx.scratch.new("gu")
    repo = os.path.join(work, "repo")
    shutil.copytree(template, repo, symlinks=True)
    before = _watched_map(repo)
    out = {}
    _caller_actor(repo, giving_up(ids)[name], out, "A")()
    gc.collect()
    after = _watched_map(repo)
    diff = sorted(k for k in set(before) | set(after) if before.get(k) != after.get(k))
    # an absent ref may legitimately leave empty directories, never files
    if diff:
        k = diff[0]
        ctx.fail(f"C07:giving-up:{name}:content-changed", f"{name} (outcome {out.get('A')}) had nothing to write, yet {k} changed from {before.get(k)!r} to {after.get(k)!r}", check, case)
    left = sorted(k for k in file_map(repo) if k.endswith(".lock"))
    if left:
        ctx.fail(f"C07:giving-up:{name}:lock-left-behind", f"{name}: {left} still exist after the session ended", check, case)
    ctx.case(h64("gu", name), nontrivial=True, labels=("giving-up", "giving-up:" + name, "giving-up-outcome:%s" % (out.get("A", ("?",))[0],)))
    shutil.rmtree(work, ignore_errors=True)


def _part_giving_up(ctx, names):
    template, ids = _prepare(ctx)
    for name in names:
        run_giving_up(ctx, template, ids, name)


def _watched(rel):
    """Protected files: everything under .git that is replaced through the lock protocol (objects and logs are not)."""
    return rel.startswith(".git" + os.sep) and not rel.startswith((os.path.join(".git", "objects"), os.path.join(".git", "logs"))) and not _is_temp(rel)


def _watched_map(root):
    return {k: v for k, v in file_map(root).items() if _watched(k)}


def _caller_actor(repo, fn, out, name):
    def prog():
        from dulwich.repo import Repo

        with warnings.catch_warnings():
            warnings.simplefilter("ignore")
            r = Repo(repo)
            try:
                try:
                    out[name] = ("ret", fn(r))
                except Exception as e:
                    out[name] = ("exc", type(e).__name__)
            finally:
                r.close()

    return prog


def _sequential_contents(ctx, template, fns):
    """Per watched file, every content it holds at a quiescent point of some sequential execution (either order)."""
    allowed = {}
    snaps = []

    def snap(repo):
        snaps.append(_watched_map(repo))

    for order in ((0, 1), (1, 0)):
        work = ctx.scratch.new("seq")
        repo = os.path.join(work, "repo")
        shutil.copytree(template, repo, symlinks=True)
        snap(repo)
        for i in order:
            out = {}
            _caller_actor(repo, fns[i], out, "x")()
            gc.collect()
            snap(repo)
        shutil.rmtree(work, ignore_errors=True)
    for m in snaps:
        for k, v in m.items():
            allowed.setdefault(k, set()).add(v)
    for k in allowed:
        if any(k not in m for m in snaps):
            allowed[k].add(None)  # absent at some quiescent point
    return allowed


def run_callers(ctx, template, ids, pair, strategy, allowed, case, check="callers"):
    fns = caller_pairs(ids)[pair]
    work = ctx.scratch.new("cl")
    repo = os.path.join(work, "repo")
    shutil.copytree(template, repo, symlinks=True)
    gitdir = os.path.join(repo, ".git")
    skip = (os.path.join(gitdir, "objects"), os.path.join(gitdir, "logs"))

    def visible(ev):
        if ev.op == "start":
            return True
        for q in (ev.path, ev.path2):
            if q and q.startswith(gitdir) and not q.startswith(skip):
                return True
        return False

    sched = Scheduler(strategy, visible=visible)
    ip = Interposer(work, sched)
    bad = []
    orig_before = sched.before

    def look(where):
        cur = _watched_map(repo)
        for k in set(cur) | set(allowed):
            v = cur.get(k)
            if k not in allowed:
                if not bad:
                    bad.append((k, v, where, "a file no sequential execution creates"))
            elif v not in allowed[k] and not bad:
                bad.append((k, v, where, "content no sequential execution leaves there"))

    def before(ip_, ev):
        if not bad:
            look("before " + ev.brief(repo))
        orig_before(ip_, ev)

    sched.before = before
    out = {}
    ip.install()
    try:
        results = sched.run(ip, [(n, _caller_actor(repo, fn, out, n)) for n, fn in zip("AB", fns)])
    finally:
        ip.uninstall()
    gc.collect()
    for n, r in results.items():
        if r[0] != "ok":
            raise HarnessError(f"caller actor {n} crashed outside its routine: {r}")
    if not bad:
        look("the end")
    if bad:
        k, v, where, why = bad[0]
        ctx.fail(f"C07:callers:{pair}:partial-content", f"{pair}: {k} holds {v!r} {where}: {why} (outcomes {out})", check, case)
    left = sorted(k for k in file_map(repo) if k.endswith(".lock"))
    if left:
        ctx.fail(f"C07:callers:{pair}:lock-left-behind", f"{pair}: {left} still exist after both routines returned ({out})", check, case)
    # ownership of every lock file
    owners = {}
    for ev in ip.trace:
        if not ev.exc and ev.path and ev.op == "remove" and not ev.path.endswith(".lock"):
            rel = os.path.relpath(ev.path, repo)
            holder = owners.get(ev.path + ".lock")
            if _watched(rel) and holder is not None and holder != ev.actor:
                # while one writer holds the lock the protected file is his: nobody else may take it away under him
                # (removals by an actor while NO ONE holds the lock are not judged here: the statement speaks about what a
                # lock holder may rely on; a first version that demanded the lock for every removal alarmed on
                # add_packed_refs, which drops loose refs under packed-refs.lock only - lost updates are C08's subject)
                ctx.fail(f"C07:callers:{pair}:protected-file-removed-under-a-foreign-lock",
                         f"{pair}: {ev.actor} removes {rel} while {holder} holds {rel}.lock", check, case)
        if ev.exc or not ev.path or not ev.path.endswith(".lock"):
            continue
        if ev.op == "open-w" and ev.extra == "excl":
            if owners.get(ev.path) is not None:
                ctx.fail(f"C07:callers:{pair}:two-holders", f"{ev.actor} obtained {os.path.relpath(ev.path, repo)} while {owners[ev.path]} holds it", check, case)
            owners[ev.path] = ev.actor
        elif ev.op in ("remove", "replace", "rename"):
            if owners.get(ev.path) not in (None, ev.actor):
                ctx.fail(f"C07:callers:{pair}:foreign-lock-{ev.op}", f"{ev.actor} did {ev.op} on {os.path.relpath(ev.path, repo)} created by {owners[ev.path]}", check, case)
            owners[ev.path] = None
    info = dict(schedule=[c for _, c in sched.decisions], preempted=_interleaved(ip.trace, visible), out=dict(out), brief=[e.brief(repo) for e in ip.trace if e.mutating])
    shutil.rmtree(work, ignore_errors=True)
    return info


def _interleaved(trace, visible):
    trace = [ev for ev in trace if ev.op != "start" and visible(ev)]
    first, last = {}, {}
    for i, ev in enumerate(trace):
        first.setdefault(ev.actor, i)
        last[ev.actor] = i
    return any(first[a] < i < last[a] for i, ev in enumerate(trace) for a in first if a != ev.actor)


def _part_callers(ctx, item):
    import random

    from ..interpose import PreemptAt

    pair, max_runs = item
    template, ids = _prepare(ctx)
    allowed = _sequential_contents(ctx, template, caller_pairs(ids)[pair])
    n = 0
    steps = 1

    def one(strategy):
        nonlocal n, steps
        case = dict(pair=pair)
        info = run_callers(ctx, template, ids, pair, strategy, allowed, case)
        case["schedule"] = info["schedule"]
        n += 1
        steps = max(steps, len(info["schedule"]))
        ctx.case(h64("callers", pair, tuple(info["schedule"])), nontrivial=info["preempted"],
                 labels=("callers", "callers:" + pair) + (("callers-interleaved",) if info["preempted"] else ()) + tuple(f"callers-outcome:{v[0]}:{v[1] if v[0] == 'exc' else ''}" for v in info["out"].values()),
                 sample=dict(pair=pair, schedule=info["schedule"], outcomes=info["out"], events=info["brief"]) if info["preempted"] and n % 25 == 4 else None)

    ex = DFSExplorer(1, max_runs=max_runs)
    while ex.more():
        one(ex.next_run())
        ex.done_run()
    ctx.label("callers-bound1-exhaustive" if ex.exhausted else "callers-bound1-capped")
    ex2 = DFSExplorer(2, max_runs=max(0, max_runs - n))
    while ex2.more():
        one(ex2.next_run())
        ex2.done_run()
    rnd = random.Random(h64(ctx.seed, pair))
    for _ in range(ctx.scale(15, 300) if not ex2.exhausted else 0):
        one(PreemptAt({rnd.randrange(steps): 0 for _ in range(rnd.choice([2, 3]))}))


# ---------------------------------------------------------------------------


def selftest(ctx):
    # the interposer must see GitFile's protocol: open(excl) -> write -> ... -> replace
    d = ctx.scratch.new("self")
    p = os.path.join(d, "x")
    ip = Interposer(d, RecordPolicy())
    ip.install()
    try:
        ip.run_single("A", make_program(p, "A", [(1, "close")]))
    finally:
        ip.uninstall()
    ops = [(e.op, os.path.basename(e.path)) for e in ip.trace]
    if ("open-w", "x.lock") not in ops or ("replace", "x.lock") not in ops or ("write", "x.lock") not in ops:
        raise HarnessError(f"interposer does not observe the GitFile protocol: {ops}")
    with open(p, "rb") as f:
        if f.read() != b"A0-part0\n":
            raise HarnessError("GitFile self-test wrote unexpected content")


def run(ctx):
    selftest(ctx)
    ctx.parallel(_explore, protocol_items(ctx))
    template, ids = _prepare(ctx)
    from dulwich.repo import Repo as _R

    names = sorted(n for n in routines(ids) if n != "Repo._put_named_file" or hasattr(_R, "_put_named_file"))
    ctx.note("routines", names)
    ctx.parallel(_part_faults, [(n, r, 4) for n in names for r in range(4)])
    # pairs with a remover get the two-preemption search as well (release - rival locks - remover acts under the rival's lock)
    ctx.parallel(_part_callers, [(pair, ctx.scale(400 if "remove_if_equals" in pair else 120, 6000)) for pair in sorted(caller_pairs(ids))])
    ctx.parallel(_part_giving_up, [sorted(giving_up(ids))[k::4] for k in range(4)])
    ctx.note("exhaustive", True)


def replay(ctx, check, case):
    if check == "protocol":
        programs = [(a, [tuple(s) for s in sess]) for a, sess in case["programs"]]
        run_protocol(ctx, programs, FixedSchedule(case.get("schedule", [])), case["initial"], case)
    elif check == "fault":
        template, ids = _prepare(ctx)
        before = file_map(template)
        n, after, _ = _profile(ctx, template, ids, case["routine"])
        run_fault(ctx, template, ids, case["routine"], case["k"], case["fault"], before, after)
    elif check == "giving-up":
        template, ids = _prepare(ctx)
        run_giving_up(ctx, template, ids, case["routine"])
    elif check == "callers":
        # a pinned schedule goes stale when the code gains or loses a file-system call: explore the pair instead
        template, ids = _prepare(ctx)
        allowed = _sequential_contents(ctx, template, caller_pairs(ids)[case["pair"]])
        run_callers(ctx, template, ids, case["pair"], FixedSchedule(case.get("schedule", [])), allowed, case)
        if not ctx.violations:
            _part_callers(ctx, (case["pair"], 400))
    else:
        raise HarnessError(f"unknown check {check!r}")
