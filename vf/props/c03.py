"""C03 — delta codec: apply(create(base,target),base)=target; bad deltas fail cleanly."""

from __future__ import annotations

import hashlib
import itertools
import os

from .. import cgit, rustext, sandbox
from ..core import HarnessError, h64
from ..model import packfmt
from ..model.packfmt import DeltaError, enc_varint, patch_delta, read_varint

PROPERTY = "C03"
LEVEL = "exploration"
NEEDS_RUST = True
AUTO_TWINS = False  # this module drives both implementations explicitly
RULE = (
    "(a) Hypothesis-generated (base,target) pairs built from slices of the base and literal inserts (empty, identical, "
    ">64 KiB runs, offsets needing 1-3 bytes) through every encoder {python, rust, C git pack-objects} x decoder "
    "{python, rust, C git index-pack}; (b) exhaustively all byte strings up to length L (quick 4, thorough 5) over the "
    "opcode-covering alphabet {00,01,02,7f,80,81,90,91,b0,ff} as deltas against 3 bases, and all size headers of 1..11 "
    "varint bytes; (c) structured mutants of valid deltas (re-encoded size varints of 1..11 bytes, declared sizes "
    "+-1/x2/2^31..2^64+1, every copy flag mask, truncation at every byte, opcode 0, cumulative overshoot by repeated "
    "64 KiB copies).  Every decoder call runs in a forked child under an address-space allowance of 64 MiB + "
    "8 x (inputs + reference output); outcome must be ok (declared length, equal to the strict patch-delta reference "
    "when that accepts, else a concatenation of base/delta slices) or ApplyDeltaError.  Non-trivial: (a) the delta "
    "contains >=1 copy and >=1 insert; (b)/(c) the delta parses past both size headers so the op loop is reached; "
    "distinct by (base class, delta bytes)."
)
ASSUMPTIONS = [
    "reference decoder is a transcription of git's patch-delta.c, self-tested against `git index-pack` in every run",
    "address-space growth is measured with RLIMIT_AS around the decoder call (forked child), not with the wall clock",
    "4-byte copy offsets (bases >= 16 MiB) are exercised for the decoders only, with hand-built deltas",
    "debug-profile Rust build (the profile `pip install -e` produces: overflow checks on)",
    "C git as decoder is not asked about deltas shorter than 4 bytes (empty target): git refuses them by design (DELTA_SIZE_MIN)",
]

ALPHABET = [0x00, 0x01, 0x02, 0x7F, 0x80, 0x81, 0x90, 0x91, 0xB0, 0xFF]
MEM_SLACK = 64 << 20


def pseudo(seed: int, n: int) -> bytes:
    """Deterministic incompressible bytes (counter-mode SHA-1)."""
    out = bytearray()
    i = 0
    while len(out) < n:
        out += hashlib.sha1(b"%d:%d" % (seed, i)).digest()
        i += 1
    return bytes(out[:n])


# ---------------------------------------------------------------------------
# implementations under test

_impl = {}


def impls():
    if not _impl:
        import dulwich._pack as rs
        from dulwich.errors import ApplyDeltaError

        pure = rustext.load_pure("pack")
        _impl["dec"] = {"py": pure.apply_delta, "rs": rs.apply_delta}
        _impl["enc"] = {
            "py": lambda b, t: b"".join(pure._create_delta_py(b, t)),
            "rs": lambda b, t: bytes(rs.create_delta(b, t)),
        }
        _impl["err"] = ApplyDeltaError
        if pure.apply_delta is rs.apply_delta:
            raise HarnessError("pure copy of dulwich.pack still uses the Rust apply_delta")
    return _impl


def delta_features(delta: bytes):
    """(reaches_ops, feature-class) computed by the harness."""
    try:
        s, p = read_varint(delta, 0)
        hdr1 = p
        d, p2 = read_varint(delta, p)
    except DeltaError:
        return False, "truncated-header", None
    if hdr1 >= 10 or p2 - hdr1 >= 10:
        feat = "hdr>=10bytes"
    elif d >= 1 << 32:
        feat = "dest>=2^32"
    elif d > MEM_SLACK:
        feat = "dest>64MiB"
    else:
        feat = "plain"
    return True, feat, d


def run_decoder(name, base, delta, allowance):
    """-> ("ok", bytes) | ("delta-error", msg) | ("exc", type name, msg)."""
    im = impls()
    try:
        with sandbox.mem_limit(allowance):
            chunks = im["dec"][name](base, delta)
            out = b"".join(chunks)
    except im["err"] as e:
        return ("delta-error", str(e)[:80])
    except BaseException as e:  # PanicException derives from BaseException: an observation, not a crash
        if isinstance(e, (KeyboardInterrupt, SystemExit)):
            raise
        return ("exc", type(e).__name__, str(e)[:120])
    return ("ok", out)


def judge_delta(ctx, base, delta, check="delta", origin="arbitrary", want=None, decoders=("py", "rs")):
    """Oracle 2 for one (base, delta); ``want`` is the known target for encoder-made deltas."""
    reaches, feat, declared = delta_features(delta)
    try:
        ref = patch_delta(base, delta)
    except DeltaError:
        ref = None
    allowance = MEM_SLACK + 8 * (len(base) + len(delta) + (len(ref) if ref is not None else 0))
    case = dict(base=base, delta=delta, origin=origin)
    if want is not None:
        case["want"] = want
    for name in decoders:
        r = run_decoder(name, base, delta, allowance)
        if r[0] == "exc":
            ctx.fail(f"C03:{name}:exc:{r[1]}:{feat}", f"{name} apply_delta raised {r[1]}: {r[2]} (declared dest={declared})", check, case)
        elif r[0] == "ok":
            out = r[1]
            if declared is None or len(out) != declared:
                ctx.fail(f"C03:{name}:wrong-length", f"{name} returned {len(out)} bytes, delta declares {declared}", check, case)
            elif ref is not None and out != ref:
                ctx.fail(f"C03:{name}:differs-from-patch-delta", f"{name} output differs from the reference decoder on a delta git accepts", check, case)
            elif ref is None:
                ctx.label(f"lenient-accept:{name}")
                if not packfmt.is_concat_of_slices(out, [base, delta]):
                    ctx.fail(f"C03:{name}:not-slices", f"{name} output is not a concatenation of base slices and literal inserts", check, case)
            if want is not None and out != want:
                ctx.fail(f"C03:roundtrip:dec={name}:{origin}", f"{name} decoded a delta made by {origin} to something other than the target", check, case)
        else:  # delta-error
            if want is not None:
                ctx.fail(f"C03:roundtrip-rejected:dec={name}:{origin}", f"{name} rejected a delta made by {origin}: {r[1]}", check, case)
            elif ref is not None:
                ctx.label(f"valid-by-git-but-rejected:{name}")
    return reaches, feat, ref


def on_death(ctx, case, how):
    kind = case[0]
    if kind == "delta":
        _, base, delta = case
        reaches, feat, declared = delta_features(delta)
        ctx.fail(f"C03:died:{how}:{feat}", f"decoding killed the process ({how}); declared dest={declared}", "delta", dict(base=base, delta=delta, origin="arbitrary"))
    elif kind == "pair":
        _, base, target = case
        ctx.fail(f"C03:died:{how}:pair", f"encoding/decoding a pair killed the process ({how})", "pair", dict(base=base, target=target))
    else:
        ctx.fail(f"C03:died:{how}:{kind}", f"case killed the process ({how})", kind, dict(case=case[1:]))


# ---------------------------------------------------------------------------
# (a) pairs


def count_ops(delta):
    """(copies, inserts) of a delta the strict reference accepts."""
    _, pos = read_varint(delta, 0)
    _, pos = read_varint(delta, pos)
    copies = inserts = 0
    while pos < len(delta):
        cmd = delta[pos]
        pos += 1
        if cmd & 0x80:
            pos += bin(cmd & 0x7F).count("1")
            copies += 1
        else:
            pos += cmd
            inserts += 1
    return copies, inserts


def judge_pair(ctx, base, target, check="pair", git_queue=None):
    im = impls()
    case = dict(base=base, target=target)
    labels = []
    nontrivial = False
    for en, enc in im["enc"].items():
        try:
            delta = enc(base, target)
        except BaseException as e:
            if isinstance(e, (KeyboardInterrupt, SystemExit)):
                raise
            ctx.fail(f"C03:encoder:{en}:exc:{type(e).__name__}", f"{en} create_delta raised {type(e).__name__}: {e}", check, case)
            continue
        try:
            ref = patch_delta(base, delta)
        except DeltaError as e:
            ref = None
            ctx.fail(f"C03:encoder:{en}:invalid-delta", f"{en} create_delta produced a delta git's patch-delta rejects: {e}", check, case)
        if ref is not None and ref != target:
            ctx.fail(f"C03:encoder:{en}:wrong-delta", f"{en} create_delta produced a delta that decodes (reference) to something else", check, case)
        judge_delta(ctx, base, delta, check=check, origin=f"enc={en}", want=target)
        if ref is not None:
            c, i = count_ops(delta)
            if c and i:
                nontrivial = True
            if c > 1 and len(target) > 0xFFFF:
                labels.append("split-copy>64K")
        if git_queue is not None:
            if len(delta) >= 4:
                git_queue.append((base, delta, target, en))
            else:
                # git's patch-delta refuses deltas shorter than DELTA_SIZE_MIN (4): only an empty target gives
                # one, and neither git nor dulwich ever stores an empty object as a delta
                ctx.label("git-decoder-n/a:delta<4bytes")
    if len(base) == 0 or len(target) == 0:
        labels.append("empty-side")
    if base == target:
        labels.append("identical")
    if len(base) > 0xFFFF:
        labels.append("base>64K")
    ctx.case(("pair", base, target), nontrivial=nontrivial, labels=["pair"] + labels,
             sample=dict(kind="pair", base=base, target=target) if nontrivial and len(base) < 200 else None)


def git_decode_batch(ctx, queue, check="pair-git"):
    """C git as decoder: one pack with every base and a REF delta per pair."""
    if not queue:
        return
    repo = ctx.scratch.new("gitdec")
    cgit.init(repo, bare=True)
    bases = {}
    for base, delta, target, en in queue:
        bases.setdefault(packfmt.obj_id(b"blob", base), base)
    cgit.git(["index-pack", "--stdin"], cwd=repo, input=packfmt.build_pack([(packfmt.OBJ_BLOB, b, None) for b in bases.values()]))
    # a pack may not contain the same object twice: one delta per distinct result; results equal to a base are fine
    # in a *thin* pack (the base lives in the repository, not in this pack)
    seen = set()
    uniq = []
    for e in queue:
        tid = packfmt.obj_id(b"blob", e[2])
        if tid in seen:
            ctx.label("git-decoder-skipped-duplicate-result")
            continue
        seen.add(tid)
        uniq.append(e)
    queue = uniq
    entries = [(packfmt.OBJ_REF_DELTA, delta, packfmt.obj_id(b"blob", base)) for base, delta, target, en in queue]
    pack = packfmt.build_pack(entries)
    # unpack-objects (not index-pack): a delta whose result equals its base is a duplicate object for index-pack
    rc, out, err = cgit.git(["unpack-objects", "-q"], cwd=repo, input=pack, check=False)
    if rc != 0:
        if len(queue) == 1:
            base, delta, target, en = queue[0]
            ctx.fail(f"C03:git-rejects:enc={en}", f"git unpack-objects rejects a delta made by {en}: {err[:200]!r}", "pair", dict(base=base, target=target))
        else:
            mid = len(queue) // 2
            git_decode_batch(ctx, queue[:mid], check)
            git_decode_batch(ctx, queue[mid:], check)
        return
    ids = [packfmt.obj_id(b"blob", t).hex().encode() for _, _, t, _ in queue]
    got = cgit.cat_file_batch(repo, ids)
    for (base, delta, target, en), i in zip(queue, ids):
        g = got.get(i)
        ctx.label(f"git-decodes:enc={en}")
        if g is None or g[1] != target:
            ctx.fail(f"C03:git-decodes-differently:enc={en}", f"C git applied the delta made by {en} and did not obtain the target", "pair", dict(base=base, target=target))


def pair_strategy():
    from hypothesis import strategies as st

    small = st.binary(max_size=48)
    # difflib (the Python encoder) is quadratic on incompressible data (5 s for 66 KB): generated pairs stay
    # <= 8 KiB; the >64 KiB shapes are a fixed, counted list (big_pairs) so the cost is bounded by case count
    bigseed = st.tuples(st.integers(0, 7), st.sampled_from([300, 2047, 2048, 4096, 8192])).map(lambda t: pseudo(*t))
    patterned = st.tuples(st.binary(min_size=1, max_size=4), st.sampled_from([17, 127, 128, 255, 1000, 5000])).map(lambda t: (t[0] * t[1])[: t[1]])
    base = st.one_of(small, small, st.just(b""), patterned, bigseed)
    # Myers (Rust, debug profile) costs O((N+M)*D): bases whose unreferenced part is large only with near-identical targets
    modest = st.one_of(small, small, st.just(b""),
                       st.tuples(st.integers(0, 7), st.sampled_from([127, 128, 300, 1024, 2047])).map(lambda t: pseudo(*t)),
                       st.tuples(st.binary(min_size=1, max_size=4), st.sampled_from([17, 127, 128, 255, 1000])).map(lambda t: (t[0] * t[1])[: t[1]]))

    @st.composite
    def pair(draw):
        mode = draw(st.sampled_from(["slices", "slices", "slices", "edit", "identical", "unrelated", "empty", "aligned"]))
        if mode == "aligned":
            # blocks copied from base offsets with a zero byte inside their little-endian spelling (0x100, 0x200, ...): the
            # copy opcode then has to *skip* an offset byte.  Incompressible base: a truncated offset copies other bytes.
            b = pseudo(draw(st.integers(0, 7)), draw(st.sampled_from([600, 800, 1024])))  # Myers (debug Rust) is O((N+M)*D): keep N small
            pieces = []
            for _ in range(draw(st.integers(1, 4))):
                off = 256 * draw(st.integers(1, max(1, (len(b) - 40) // 256)))
                ln = draw(st.integers(24, 300))
                pieces.append(draw(st.binary(max_size=12)))
                pieces.append(b[off : off + ln])
            return b, b"".join(pieces)
        b = draw(base if mode in ("edit", "identical", "empty") else modest)
        if mode == "identical":
            return b, b
        if mode == "empty":
            return b, b""
        if mode == "unrelated":
            return b, draw(st.one_of(small, patterned))
        if mode == "edit":
            # one small edit somewhere in a (possibly large) base: long copies dominate
            if not b:
                return b, draw(small)
            pos = draw(st.integers(0, len(b)))
            ins = draw(st.binary(max_size=200))
            dele = draw(st.integers(0, min(300, len(b) - pos)))
            return b, b[:pos] + ins + b[pos + dele:]
        pieces = []
        for _ in range(draw(st.integers(1, 6))):
            if b and draw(st.booleans()):
                off = draw(st.integers(0, len(b) - 1))
                ln = draw(st.one_of(st.integers(1, 64), st.integers(1, len(b))))
                pieces.append(b[off : off + ln])
            else:
                pieces.append(draw(st.one_of(small, st.binary(min_size=120, max_size=300))))
        return b, b"".join(pieces)

    return pair()


def big_pairs(seed, shard, thorough):
    """Pairs whose common runs exceed 64 KiB (copy ops must be split; 3-byte offsets)."""
    n = [65535, 65536, 65537, 66000, 70000][(seed + shard) % 5]  # difflib: ~5 s each at this size
    b = pseudo(seed * 100 + shard, n)
    pos = (seed * 7919 + shard * 104729) % n
    out = [(b, b[:pos] + b"<edit>" + b[pos + 3:])]
    if shard % 8 == 0:
        out.append((b, b))
    if n >= 66000:
        # a near-identical target (cheap for both encoders) whose second copy starts exactly at an offset >= 64 KiB with
        # zero low / middle bytes: three-byte offsets with gaps
        p = [0x10000, 0x10001, 0x10100, 0x10040][shard % 4] - 3
        out.append((b, b[:p] + b"<edit>" + b[p + 3:]))
    if thorough:
        out.append((b, b[1000:] + b[:1000]))
    return out


def collect(strategy, n, seed):
    """Draw n values from a Hypothesis strategy without executing anything under test."""
    import hypothesis
    from hypothesis import given

    from ..core import hyp_settings

    out = []

    @hypothesis.seed(seed)
    @hyp_settings(n, shrink=False)
    @given(strategy)
    def t(v):
        out.append(v)

    t()
    return out


def _part_pairs(ctx, item):
    n, git_every = item
    pairs = collect(pair_strategy(), n, ctx.seed * 1000 + ctx.shard)
    # difflib is quadratic-ish on incompressible data: bound the work, not the time
    if ctx.thorough or ctx.shard % 2 == 0:
        pairs += big_pairs(ctx.seed, ctx.shard, ctx.thorough)
    cases = [("pair", b, t) for b, t in pairs]

    def fn(sub, case):
        q = []
        judge_pair(sub, case[1], case[2], git_queue=q)
        sub.extra.setdefault("_gitq", []).extend(q)

    def fn_batch(sub, case):
        fn(sub, case)

    # run in isolation, then feed a sample of the produced deltas to C git
    sandbox.isolated(ctx, fn_batch, cases, on_death)
    q = ctx.extra.pop("_gitq", [])
    q = [e for k, e in enumerate(q) if (k // 2) % git_every == 0]  # both encoders' deltas of every git_every-th pair
    for i in range(0, len(q), 60):
        git_decode_batch(ctx, q[i : i + 60])


# ---------------------------------------------------------------------------
# (b) exhaustive short deltas and headers

BASES = {"empty": b"", "one": b"A", "two": b"AB", "s300": bytes(range(256)) + b"x" * 44}


def _exhaustive_cases(maxlen, nshards, shard):
    k = 0
    for n in range(0, maxlen + 1):
        for tup in itertools.product(ALPHABET, repeat=n):
            if k % nshards == shard:
                yield bytes(tup)
            k += 1


def run_delta_batches(ctx, items, origin, account, batch=6000):
    """items: list of (base, delta).  Judged in forked children, batch by batch; when a child dies the batch
    is re-run one (base, delta) per child so the death is attributed to exactly the input that causes it."""
    cases = [("batch", items[i : i + batch]) for i in range(0, len(items), batch)]

    def one(sub, base, d):
        reaches, feat, ref = judge_delta(sub, base, d, origin=origin)
        account(sub, base, d, reaches, feat, ref)

    def fn(sub, case):
        for base, d in case[1]:
            one(sub, base, d)

    def death(c, case, how):
        singles = [("delta", base, d) for base, d in case[1]]
        sandbox.isolated(c, lambda s2, cc: one(s2, cc[1], cc[2]), singles, on_death, max_deaths=len(singles) + 1)

    sandbox.isolated(ctx, fn, cases, death)


def _part_exhaustive(ctx, item):
    maxlen, nshards, shard = item
    names = ["one", "two", "s300"]
    rev = {BASES[n]: n for n in names}
    items = [(BASES[bn], d) for d in _exhaustive_cases(maxlen, nshards, shard) for bn in names]

    def account(sub, base, d, reaches, feat, ref):
        # the alphabet contains 01 and 02 (lengths of "one"/"two") so the op loop is reached often;
        # s300 never matches -> header-mismatch path
        try:
            s, _ = read_varint(d, 0)
            in_loop = reaches and s == len(base)
        except DeltaError:
            in_loop = False
        sub.case(None if not in_loop else h64("x", base, d), nontrivial=in_loop,
                 labels=("exhaustive", "accepted-by-git") if ref is not None else ("exhaustive",),
                 sample=dict(kind="exhaustive", base=rev[base], delta=d) if in_loop and ref is not None and len(d) == maxlen and d[-1] == 0x7F else None)

    run_delta_batches(ctx, items, "exhaustive", account)


def _part_headers(ctx, item):
    """All headers of 1..L varint bytes over {00,01,7f,80,ff}, in source and in destination position."""
    maxlen, nshards, shard = item
    alpha = [0x00, 0x01, 0x7F, 0x80, 0xFF]
    items = []
    k = 0
    for n in range(1, maxlen + 1):
        for tup in itertools.product(alpha, repeat=n):
            if k % nshards == shard:
                h = bytes(tup)
                items.append((b"A", b"\x01" + h))
                items.append((b"A", h + b"\x01\x01A"))
            k += 1

    def account(sub, base, d, reaches, feat, ref):
        sub.case(h64("h", base, d), nontrivial=reaches, labels=("header-enum", feat))

    run_delta_batches(ctx, items, "header", account)


# ---------------------------------------------------------------------------
# (c) structured mutants


def enc_copy(off, size, mask=None):
    """Encode a copy op; ``mask`` forces the flag bits (operand bytes follow the mask)."""
    ob = [(off >> (8 * i)) & 0xFF for i in range(4)]
    sb = [(size >> (8 * i)) & 0xFF for i in range(3)]
    if mask is None:
        mask = 0
        for i in range(4):
            if ob[i]:
                mask |= 1 << i
        for i in range(3):
            if sb[i]:
                mask |= 0x10 << i
    out = bytearray([0x80 | mask])
    for i in range(4):
        if mask & (1 << i):
            out.append(ob[i])
    for i in range(3):
        if mask & (0x10 << i):
            out.append(sb[i])
    return bytes(out)


def build_delta(src_size, dest_size, ops, src_bytes=1, dest_bytes=1):
    out = bytearray(enc_varint(src_size, src_bytes) + enc_varint(dest_size, dest_bytes))
    for op in ops:
        if op[0] == "copy":
            out += enc_copy(op[1], op[2], op[3] if len(op) > 3 else None)
        elif op[0] == "insert":
            out += bytes([len(op[1])]) + op[1]
        else:
            out += op[1]  # raw bytes
    return bytes(out)


SIZES = [0, 1, 127, 128, 0xFFFF, 0x10000, 1 << 31, (1 << 32) - 1, 1 << 32, 1 << 40, 1 << 62, 1 << 63, (1 << 64) - 1, (1 << 64) + 1, 1 << 70]


MUTANT_KINDS = ["pad-src", "pad-dest", "dest-size", "src-size", "mask", "truncate", "opcode0", "overshoot", "valid", "v3-size", "tail", "past-end"]


def mutant_strategy(kind=None):
    from hypothesis import strategies as st

    kinds = st.sampled_from(MUTANT_KINDS) if kind is None else st.just(kind)

    base = st.one_of(st.just(b""), st.binary(min_size=1, max_size=40),
                     st.tuples(st.integers(0, 3), st.sampled_from([300, 65536, 70000])).map(lambda t: pseudo(*t)))

    @st.composite
    def valid(draw):
        b = draw(base)
        ops = []
        total = 0
        for _ in range(draw(st.integers(0, 6))):
            if b and draw(st.booleans()):
                off = draw(st.integers(0, len(b) - 1))
                size = draw(st.integers(1, min(len(b) - off, 0x10000)))
                ops.append(("copy", off, size))
                total += size
            else:
                data = draw(st.binary(min_size=1, max_size=127))
                ops.append(("insert", data))
                total += len(data)
        return b, ops, total

    @st.composite
    def mutant(draw):
        b, ops, total = draw(valid())
        kind = draw(kinds)
        sb = db = 1
        src, dest = len(b), total
        if kind == "pad-src":
            sb = draw(st.integers(2, 11))
        elif kind == "pad-dest":
            db = draw(st.integers(2, 11))
        elif kind == "dest-size":
            dest = draw(st.one_of(st.sampled_from(SIZES), st.sampled_from([total + 1, max(total - 1, 0), total * 2])))
        elif kind == "src-size":
            src = draw(st.one_of(st.sampled_from(SIZES), st.sampled_from([len(b) + 1, max(len(b) - 1, 0)])))
        elif kind == "mask":
            mask = draw(st.integers(0, 0x7F))
            off = draw(st.one_of(st.integers(0, max(len(b), 1)), st.sampled_from([0xFF, 0xFFFF, 0xFFFFFF, 0xFFFFFFFF, 0x80000000])))
            size = draw(st.one_of(st.integers(0, max(len(b), 1)), st.sampled_from([0, 0xFFFF, 0x10000, 0xFFFFFF])))
            ops.insert(draw(st.integers(0, len(ops))), ("copy", off, size, mask))
            if draw(st.booleans()):
                # make the declared size consistent with what the op would copy if it is in range
                eff_off = sum(((off >> (8 * i)) & 0xFF) << (8 * i) for i in range(4) if mask & (1 << i))
                eff_size = sum(((size >> (8 * i)) & 0xFF) << (8 * i) for i in range(3) if mask & (0x10 << i)) or 0x10000
                if eff_off + eff_size <= len(b):
                    dest = total + eff_size
        elif kind == "past-end":
            # a copy that starts inside the base and runs past its end, with the declared result size equal to what
            # the ops *claim* (so only the range check can reject it); size 0 is the "0 means 0x10000" spelling
            off = draw(st.integers(0, len(b)))
            room = len(b) - off
            size = draw(st.sampled_from([0, 0x10000, room + 1, room + draw(st.integers(1, 300)), 0xFFFF, 0xFFFFFF]))
            claimed = size or 0x10000
            ops.insert(draw(st.integers(0, len(ops))), ("copy", off, size))
            dest = draw(st.sampled_from([total + claimed, total + claimed, total + room, total + claimed + 1]))
        elif kind == "opcode0":
            ops.insert(draw(st.integers(0, len(ops))), ("raw", b"\x00"))
        elif kind == "overshoot":
            if len(b) >= 0x10000:
                n = draw(st.sampled_from([2, 64, 1200]))
                ops = [("copy", 0, 0x10000)] * n
                dest = draw(st.sampled_from([0x10000, n * 0x10000 - 1, n * 0x10000 + 1, 1 << 40] + ([n * 0x10000] if n <= 64 else [])))
            else:
                n = draw(st.sampled_from([2, 50, 5000]))
                ops = ops + [("insert", b"z" * 127)] * n
                dest = draw(st.sampled_from([total, total + 127 * n, total + 127 * n + 1, 1 << 40]))
        elif kind == "v3-size" and b:
            ops.append(("copy", 0, min(len(b), 0x1FFFF), 0x70 | 0x01))
            dest = total + min(len(b), 0x1FFFF)
        elif kind == "tail":
            ops.append(("raw", draw(st.binary(min_size=1, max_size=3))))
        d = build_delta(src, dest, ops, sb, db)
        if kind == "truncate" and len(d) > 1:
            d = d[: draw(st.integers(0, len(d) - 1))]
        return b, d, kind

    return mutant()


def _part_mutants(ctx, n):
    ms = []
    for j, kind in enumerate(MUTANT_KINDS):
        ms += collect(mutant_strategy(kind), max(1, n // len(MUTANT_KINDS)), ctx.seed * 1000 + ctx.shard + 500 + j)
    cases = [("delta", b, d, kind) for b, d, kind in ms]

    def fn(sub, case):
        _, b, d, kind = case
        reaches, feat, ref = judge_delta(sub, b, d, origin="mutant:" + kind)
        sub.case(h64("m", len(b), d), nontrivial=reaches, labels=("mutant", "mutant:" + kind, "feat:" + feat) + (("accepted-by-git",) if ref is not None else ()),
                 sample=dict(kind="mutant:" + kind, base_len=len(b), delta=d) if kind in ("mask", "pad-dest") and len(d) < 60 else None)

    sandbox.isolated(ctx, fn, cases, lambda c, case, how: on_death(c, ("delta", case[1], case[2]), how))


def _part_truncations(ctx, item):
    """Every truncation point of a few valid deltas (exhaustive per delta), plus 4-byte offsets."""
    cases = []
    b = pseudo(9, 70000)
    valid = [
        (b"hello world", build_delta(11, 16, [("copy", 0, 5), ("insert", b" dear"), ("copy", 5, 6)])),
        (b, build_delta(70000, 70010, [("copy", 0, 0x10000), ("insert", b"0123456789"), ("copy", 0x10000, 70000 - 0x10000)], 3, 3)),
        (b, build_delta(70000, 300, [("copy", 69000, 300)], 3, 2)),
    ]
    for base, d in valid:
        for k in range(len(d) + 1):
            cases.append(("delta", base, d[:k], "truncate@%d" % k))
    if ctx.thorough:
        big = bytes(16 * 1024 * 1024 + 4096)  # 4-byte copy offsets
        big = big[:-5] + b"MARK!"
        d = build_delta(len(big), 5 + 3, [("copy", len(big) - 5, 5), ("insert", b"abc")], 4, 1)
        cases.append(("delta", big, d, "ofs4"))
        cases.append(("delta", big, d[:-1], "ofs4-trunc"))

    def fn(sub, case):
        _, base, d, kind = case
        reaches, feat, ref = judge_delta(sub, base, d, origin=kind)
        sub.case(h64("t", len(base), d), nontrivial=reaches, labels=("truncation-enum",))

    sandbox.isolated(ctx, fn, cases, lambda c, case, how: on_death(c, ("delta", case[1], case[2]), how))


# ---------------------------------------------------------------------------
# (d) C git as encoder


def _part_git_encoder(ctx, n):
    pairs = collect(pair_strategy(), n, ctx.seed * 1000 + ctx.shard + 900)
    pairs = [(b, t) for b, t in pairs if len(b) >= 24 and len(t) >= 24]
    repo = ctx.scratch.new("gitenc")
    cgit.init(repo, bare=True)
    found = 0
    for base, target in pairs:
        ids = []
        for blob in (base, target):
            ids.append(cgit.out(["hash-object", "-w", "--stdin"], cwd=repo, input=blob).strip())
        if ids[0] == ids[1]:
            continue
        inp = ids[0] + b" f\n" + ids[1] + b" f\n"
        pack = cgit.out(["pack-objects", "--stdout", "--window=10", "--depth=5", "-q"], cwd=repo, input=inp)
        ents = packfmt.parse_pack(pack)
        byoff = {e[0]: e for e in ents}
        for off, t, size, payload, extra in ents:
            if t not in (packfmt.OBJ_OFS_DELTA, packfmt.OBJ_REF_DELTA):
                continue
            if t == packfmt.OBJ_OFS_DELTA:
                bpayload = byoff[extra][3]
            else:
                bpayload = base if packfmt.obj_id(b"blob", base) == extra else target
            want = target if bpayload == base else base
            found += 1
            judge_delta(ctx, bpayload, payload, check="delta", origin="enc=git", want=want)
            c, i = count_ops(payload)
            ctx.case(("gitenc", bpayload, payload), nontrivial=bool(c and i), labels=("git-encoder",))
    ctx.label("git-encoder-deltas", n=found)


# ---------------------------------------------------------------------------


def selftest(ctx):
    cgit.selfcheck()
    # the strict reference against git index-pack: valid and invalid deltas
    base = b"hello world"
    good = build_delta(11, 16, [("copy", 0, 5), ("insert", b" dear"), ("copy", 5, 6)])
    bad = [
        build_delta(11, 17, [("copy", 0, 5), ("insert", b" dear"), ("copy", 5, 6)]),
        build_delta(11, 16, [("copy", 0, 5), ("insert", b" dear"), ("copy", 6, 6)]),
        build_delta(11, 5, [("copy", 0, 5), ("raw", b"\x00")]),
        good[:-1],
    ]
    if patch_delta(base, good) != b"hello dear world":
        raise HarnessError("reference patch_delta wrong on a valid delta")
    for i, d in enumerate([good] + bad):
        repo = ctx.scratch.new("self")
        cgit.init(repo, bare=True)
        pack = packfmt.build_pack([(packfmt.OBJ_BLOB, base, None), (packfmt.OBJ_REF_DELTA, d, packfmt.obj_id(b"blob", base))])
        rc, _, _ = cgit.git(["index-pack", "--stdin"], cwd=repo, input=pack, check=False)
        try:
            patch_delta(base, d)
            ok = True
        except DeltaError:
            ok = False
        if ok != (rc == 0):
            raise HarnessError(f"reference patch_delta disagrees with git index-pack on self-test delta {i}")
    if not packfmt.is_concat_of_slices(b"abcXYZ", [b"__abc__", b"XYZ"]) or packfmt.is_concat_of_slices(b"abq", [b"abc"]):
        raise HarnessError("is_concat_of_slices self-test failed")
    impls()


def run(ctx):
    selftest(ctx)
    ctx.note("git_version", cgit.version())
    maxlen = ctx.scale(4, 5)
    ctx.note("exhaustive_delta_length", maxlen)
    ctx.note("exhaustive", True)
    import time

    def timed(name, fn, items):
        t = time.time()
        ctx.parallel(fn, items)
        ctx.note("wall_" + name, round(time.time() - t, 1))

    timed("exhaustive", _part_exhaustive, [(maxlen, 16, k) for k in range(16)])
    hl = ctx.scale(5, 8)
    timed("headers", _part_headers, [(hl, 16, k) for k in range(16)])
    timed("truncations", _part_truncations, [0])
    timed("mutants", _part_mutants, [ctx.scale(300, 14000)] * 16)
    timed("pairs", _part_pairs, [(ctx.scale(120, 4000), ctx.scale(4, 12))] * 16)
    timed("git_encoder", _part_git_encoder, [ctx.scale(80, 800)] * 16)
    # coverage-guided campaigns over (base, delta) with the same oracle inside the target (E3)
    from .. import fuzz

    t = time.time()
    fuzz.run_campaigns(ctx, "vf.fuzzt.c03", [("apply_delta", ctx.scale(12000, 600000), ctx.scale(8, 16))])
    ctx.note("wall_fuzz", round(time.time() - t, 1))


def replay(ctx, check, case):
    if check in ("delta", "pair-git"):
        base, delta = case["base"], case["delta"]

        def fn(sub, c):
            judge_delta(sub, c[1], c[2], origin=case.get("origin", "replay"), want=case.get("want"))

        sandbox.isolated(ctx, fn, [("delta", base, delta)], on_death)
    elif check == "pair":
        def fn(sub, c):
            q = []
            judge_pair(sub, c[1], c[2], git_queue=q)
            git_decode_batch(sub, q)

        sandbox.isolated(ctx, fn, [("pair", case["base"], case["target"])], on_death)
    elif check == "fuzz":
        from .. import fuzz

        fuzz.replay(ctx, case)
    else:
        raise HarnessError(f"unknown check {check!r}")
